"""C13 Frozen values stay alive as long as anything that can reach them is alive.

Proof: coq/Refs/{Model,Proofs}.v + Properties/C13.v - a history machine over heaps (Arc counts, reference lists,
value edges) and external objects (open module, frozen module, owned handle, globals builder, globals); the
invariant "every value edge out of a live heap is covered by a chain of heap references" is preserved by every
operation, for every history and therefore every drop order.
Tie: the `heaps` harness interprets random histories of the same operations against the real library with arena
poisoning ON (a freed arena is overwritten with 0xDB), in sharded child processes; after EVERY operation every
value reachable from every still-held object is re-encoded and compared with its first encoding, still-reachable
functions are called again, and the REAL reference graph (`FrozenHeapRef::refs()`) of every held sealed heap is
compared with the reference lists of the Coq model replayed on the same history (Refs/Cases.v, vm_compute)."""
import itertools
import json
import os

import sv

PROP = "C13"
HARNESS_BINS = ["heaps"]
COQ_TARGETS = ["Properties/C13.vo", "Refs/Cases.vo"]
TRUSTED = ["hook H2 verif_hooks::set_poison (Arena::drop overwrites released chunks with 0xDB)",
           "harness bin heaps (history interpreter, worker threads, structural encoder sv_harness::enc)",
           "tools/props/C13.py history generator (mirrors the model's identifier allocation; renders Starlark sources)",
           "cases.v route: the model is replayed by vm_compute inside coqc (Refs/Cases.v)"]
ASSUMPTIONS = ["the model abstracts values to the heap they live in (value edge a->b = some value of heap a points into heap b)",
               "the two Rust heaps of an open module (mutable Heap + FrozenHeap) are one model heap with two reference lists",
               "not exhibited by the model (searched with poisoning only): allocator chunk reuse between consecutive heaps of a "
               "thread, unsafe lifetime casts/brand erasure, atomicity of Arc across threads",
               "a read of poisoned memory is detected as a changed encoding / changed call result / crash, not directly"]

LONG = "x" * 8


# ------------------------------------------------------------------------------------------------ generator

class Sim:
    """Abstract mirror of the model used to generate only valid operations.  rids and hids are allocated exactly
    as Refs/Model.v allocates them, so harness object ids = model root ids."""

    def __init__(self, rng, workers):
        self.rng = rng
        self.workers = workers
        self.next_rid = 0
        self.next_hid = 0
        self.objs = {}          # rid -> {"kind","heap","syms"|"val","held","worker"}
        self.hid_label = {}     # hid -> rid that created the heap
        self.symid = {}
        self.ops = []           # harness ops
        self.groups = []        # model ops (Coq text) per harness op
        self.nval = 0
        self.free_workers = list(range(workers))
        self.stats = {"max_depth": 0, "drops": 0, "xthread_drops": 0, "intermediate_drop": 0, "loads": 0,
                      "carriers": 0, "carrier_chain": 0, "carrier_sole_holder": 0}

    # -- helpers
    def sym(self, name):
        if name not in self.symid:
            self.symid[name] = len(self.symid) + 1
        return self.symid[name]

    def new_rid(self):
        r = self.next_rid
        self.next_rid += 1
        return r

    def new_hid(self, rid):
        h = self.next_hid
        self.next_hid += 1
        self.hid_label[h] = rid
        return h

    def held(self, kind):
        return [r for r, o in self.objs.items() if o["held"] and o["kind"] == kind]

    def emit(self, op, mops):
        self.ops.append(op)
        self.groups.append(mops)

    def fresh(self, prefix):
        self.nval += 1
        return "%s%d" % (prefix, self.nval)

    @staticmethod
    def copy(info, **kw):
        d = dict(info)
        d.update(kw)
        return d

    def lit(self, tag):
        k = self.rng.randrange(4)
        if k == 0:
            return '"%s long literal living on the heap %s"' % (tag, LONG * self.rng.randint(3, 9))
        if k == 1:
            return "(1 << %d) + %d" % (self.rng.randint(70, 200), self.rng.randint(0, 999))
        if k == 2:
            return '[%d, "%s inner %s"]' % (self.rng.randint(0, 9), tag, LONG * 4)
        return '("%s tuple %s", %d)' % (tag, LONG * 3, self.rng.randint(0, 99))

    # -- operations
    def op_open(self):
        if not self.free_workers:
            return False
        w = self.free_workers.pop(self.rng.randrange(len(self.free_workers)))
        m = self.new_rid()
        h = self.new_hid(m)
        self.objs[m] = {"kind": "open", "heap": h, "syms": {}, "held": True, "worker": w}
        self.emit({"op": "open", "m": m, "w": w}, ["OpNewModule"])
        self.op_eval(m)
        return True

    def pick_refs(self, scope, k):
        names = list(scope)
        if not names:
            return []
        # prefer values that came through load chains
        names.sort(key=lambda n: (-scope[n]["depth"], n))
        pool = names[:6] if self.rng.random() < 0.7 else names
        return [scope[self.rng.choice(pool)] for _ in range(k)]

    def op_eval(self, m=None):
        opens = self.held("open")
        if m is None:
            if not opens:
                return False
            m = self.rng.choice(opens)
        mo = self.objs[m]
        real_scope = mo["syms"]
        scope = dict(real_scope)      # names of the globals are visible during this evaluation only
        mops, lines, mods = [], [], {}
        g = None
        plain = False
        gl = self.held("globals")
        if gl and self.rng.random() < 0.45:
            g = self.rng.choice(gl)
            go = self.objs[g]
            plain = bool(go.get("carrier"))      # GlobalsBuilder::new(): no struct/partial/record/enum/typing
            binds = []
            for name, info in go["syms"].items():
                binds.append("(%d, %d)" % (self.sym(name), self.sym(name)))
                scope[name] = self.copy(info, public=False, depth=info["depth"] + 1, via=info["via"] | {go["heap"]})
            mops.append("OpEval %d %d [%s]" % (m, g, "; ".join(binds)))
        frozen = self.held("frozen")
        self.rng.shuffle(frozen)
        for f in frozen[:self.rng.choice([0, 1, 1, 2])]:
            fo = self.objs[f]
            pub = [n for n, i in fo["syms"].items() if i["public"]]
            if not pub:
                continue
            pub.sort(key=lambda n: (-fo["syms"][n]["depth"], n))
            chosen = set()
            for _ in range(self.rng.randint(1, 2)):
                chosen.add(self.rng.choice(pub[:4] if self.rng.random() < 0.7 else pub))
            args = []
            for their in sorted(chosen):
                local = self.fresh("l%d_" % m)
                info = fo["syms"][their]
                scope[local] = real_scope[local] = self.copy(info, name=local, public=False, depth=info["depth"] + 1, via=info["via"] | {fo["heap"]})
                self.stats["max_depth"] = max(self.stats["max_depth"], info["depth"] + 1)
                self.stats["loads"] += 1
                args.append('%s = "%s"' % (local, their))
                mops.append("OpLoad %d %d %d %d" % (m, f, self.sym(their), self.sym(local)))
            mods["N%d" % f] = f
            lines.append('load("N%d", %s)' % (f, ", ".join(args)))
        for _ in range(self.rng.randint(1, 4)):
            name = self.fresh("v%d_" % m)
            kind = self.rng.choice(["list", "tuple", "dict", "struct", "fun", "partial", "record", "enum", "str", "alias", "list", "dict"])
            if plain and kind in ("struct", "partial", "record", "enum"):
                kind = self.rng.choice(["list", "tuple", "dict", "fun"])
            refs = self.pick_refs(scope, self.rng.choice([0, 1, 1, 2, 2]))
            if kind == "alias" and not refs:
                kind = "str"
            shape = ("opaque",)
            if kind == "alias":
                r = refs[0]
                lines.append("%s = %s" % (name, r["name"]))
                scope[name] = real_scope[name] = self.copy(r, name=name, public=True)
                mops.append("OpAlias %d %d %d" % (m, self.sym(name), self.sym(r["name"])))
                continue
            if kind in ("list", "tuple"):
                elems = [("lit", self.lit(name))] + [("ref", r) for r in refs] + [("lit", self.lit(name))]
                self.rng.shuffle(elems)
                txt = ", ".join(e[1] if e[0] == "lit" else e[1]["name"] for e in elems)
                lines.append("%s = [%s]" % (name, txt) if kind == "list" else "%s = (%s,)" % (name, txt))
                shape = ("cont", [(i, e) for i, e in enumerate(elems)])
            elif kind in ("dict", "struct"):
                elems = [("own", ("lit", self.lit(name)))] + [("k%d" % i, ("ref", r)) for i, r in enumerate(refs)]
                if kind == "dict":
                    txt = ", ".join('"%s": %s' % (k, e[1] if e[0] == "lit" else e[1]["name"]) for k, e in elems)
                    lines.append("%s = {%s}" % (name, txt))
                else:
                    txt = ", ".join('%s = %s' % (k, e[1] if e[0] == "lit" else e[1]["name"]) for k, e in elems)
                    lines.append("%s = struct(%s)" % (name, txt))
                shape = ("cont", elems)
            elif kind == "fun":
                body = ", ".join(["q", self.lit(name)] + [r["name"] for r in refs])
                lines.append("def %s(q):\n    return [%s]" % (name, body))
            elif kind == "partial":
                helper = "_p" + name
                lines.append("def %s(a, b):\n    return (a, b, %s)" % (helper, self.lit(name)))
                arg = refs[0]["name"] if refs else self.lit(name)
                refs = refs[:1]
                lines.append("%s = partial(%s, %s)" % (name, helper, arg))
            elif kind == "record":
                tname = "T" + name
                lines.append("%s = record(f = typing.Any, g = typing.Any)" % tname)
                a = refs[0]["name"] if refs else self.lit(name)
                b = refs[1]["name"] if len(refs) > 1 else self.lit(name)
                lines.append("%s = %s(f = %s, g = %s)" % (name, tname, a, b))
                scope[tname] = real_scope[tname] = {"name": tname, "home": mo["heap"], "public": True, "shape": ("opaque",), "depth": 0, "via": frozenset()}
                mops.append("OpDefine %d %d []" % (m, self.sym(tname)))
            elif kind == "enum":
                tname = "E" + name
                lines.append('%s = enum("one", "two %s")' % (tname, LONG * 5))
                lines.append('%s = %s("one")' % (name, tname))
                refs = []
                scope[tname] = real_scope[tname] = {"name": tname, "home": mo["heap"], "public": True, "shape": ("opaque",), "depth": 0, "via": frozenset()}
                mops.append("OpDefine %d %d []" % (m, self.sym(tname)))
            else:
                lines.append("%s = %s" % (name, self.lit(name)))
                refs = []
            via = frozenset().union(*[r["via"] for r in refs]) if refs else frozenset()
            scope[name] = real_scope[name] = {"name": name, "home": mo["heap"], "public": True, "shape": shape,
                                              "depth": max([r["depth"] for r in refs] + [0]), "via": via}
            mops.append("OpDefine %d %d [%s]" % (m, self.sym(name), "; ".join(str(self.sym(r["name"])) for r in refs)))
        self.emit({"op": "eval", "m": m, "g": g, "src": "\n".join(lines) + "\n", "mods": mods, "gc": self.rng.choice([0, 0, 1, 2, 5])}, mops)
        return True

    def op_import(self):
        opens, frozen = self.held("open"), self.held("frozen")
        if not opens or not frozen:
            return False
        m, f = self.rng.choice(opens), self.rng.choice(frozen)
        mo, fo = self.objs[m], self.objs[f]
        # Refs/Model.v copy_vals: all values of f (the code copies the public ones; the model's superset is harmless)
        for name, info in fo["syms"].items():
            if info["public"] and name not in mo["syms"]:
                mo["syms"][name] = self.copy(info, public=False, depth=info["depth"] + 1, via=info["via"] | {fo["heap"]})
                self.stats["max_depth"] = max(self.stats["max_depth"], info["depth"] + 1)
        self.emit({"op": "import", "m": m, "f": f}, ["OpImport %d %d" % (m, f)])
        return True

    def op_freeze(self):
        opens = self.held("open")
        if not opens:
            return False
        m = self.rng.choice(opens)
        mo = self.objs[m]
        self.free_workers.append(mo["worker"])
        if self.rng.random() < 0.12:
            mo["held"] = False
            self.note_drop(m)
            self.emit({"op": "abandon", "m": m}, ["OpDrop %d" % m])
        else:
            mo["kind"] = "frozen"
            self.emit({"op": "freeze", "m": m}, ["OpFreeze %d" % m])
        return True

    def op_get_owned(self):
        frozen = self.held("frozen")
        if not frozen:
            return False
        f = self.rng.choice(frozen)
        fo = self.objs[f]
        pub = [n for n, i in fo["syms"].items() if i["public"]]
        if not pub:
            return False
        pub.sort(key=lambda n: (-fo["syms"][n]["depth"], n))
        name = self.rng.choice(pub[:4] if self.rng.random() < 0.6 else pub)
        k = self.new_rid()
        self.objs[k] = {"kind": "handle", "heap": fo["heap"], "val": fo["syms"][name], "held": True}
        self.emit({"op": "get_owned", "f": f, "name": name, "k": k}, ["OpGetOwned %d %d" % (f, self.sym(name))])
        return True

    def op_map(self):
        hs = [k for k in self.held("handle") if self.objs[k]["val"]["shape"][0] == "cont"]
        if not hs:
            return False
        k = self.rng.choice(hs)
        ko = self.objs[k]
        key, elem = self.rng.choice(ko["val"]["shape"][1])
        if elem[0] == "ref":
            val = elem[1]
        else:
            val = {"name": "?", "home": ko["val"]["home"], "public": False, "shape": ("opaque",), "depth": 0, "via": frozenset()}
        k2 = self.new_rid()
        self.objs[k2] = {"kind": "handle", "heap": ko["heap"], "val": val, "held": True}
        self.emit({"op": "map", "k": k, "k2": k2, "path": [key]}, ["OpMap %d %d" % (k, val["home"])])
        return True

    def op_add_to_heap(self):
        hs, opens = self.held("handle"), self.held("open")
        if not hs or not opens:
            return False
        k, m = self.rng.choice(hs), self.rng.choice(opens)
        ko, mo = self.objs[k], self.objs[m]
        name = self.fresh("h%d_" % m)
        mo["syms"][name] = self.copy(ko["val"], name=name, public=True, depth=ko["val"]["depth"] + 1, via=ko["val"]["via"] | {ko["heap"]})
        self.emit({"op": "add_to_heap", "k": k, "m": m, "name": name, "mode": self.rng.choice(["ref", "owned", "edge"])},
                  ["OpAddToHeap %d %d %d" % (k, m, self.sym(name))])
        return True

    def op_new_builder(self):
        if len(self.held("builder")) >= 2:
            return False
        b = self.new_rid()
        h = self.new_hid(b)
        self.objs[b] = {"kind": "builder", "heap": h, "syms": {}, "held": True}
        self.emit({"op": "new_builder", "b": b}, ["OpNewBuilder"])
        return True

    def op_add_to_builder(self):
        hs, bs = self.held("handle"), self.held("builder")
        if not hs or not bs:
            return False
        k, b = self.rng.choice(hs), self.rng.choice(bs)
        ko, bo = self.objs[k], self.objs[b]
        name = self.fresh("g_%d_" % b)
        bo["syms"][name] = self.copy(ko["val"], name=name, public=True, depth=ko["val"]["depth"] + 1, via=ko["val"]["via"] | {ko["heap"]})
        self.emit({"op": "add_to_builder", "k": k, "b": b, "name": name}, ["OpAddToBuilder %d %d %d" % (k, b, self.sym(name))])
        return True

    def op_build(self):
        bs = self.held("builder")
        if not bs:
            return False
        b = self.rng.choice(bs)
        self.objs[b]["kind"] = "globals"
        self.emit({"op": "build", "b": b}, ["OpBuild %d" % b])
        return True

    def op_from_globals(self):
        gl = self.held("globals")
        if not gl:
            return False
        g = self.rng.choice(gl)
        go = self.objs[g]
        f = self.new_rid()
        h = self.new_hid(f)
        syms = {n: self.copy(i, depth=i["depth"] + 1, via=i["via"] | {go["heap"]}) for n, i in go["syms"].items()}
        self.objs[f] = {"kind": "frozen", "heap": h, "syms": syms, "held": True}
        self.emit({"op": "from_globals", "g": g, "f": f}, ["OpFromGlobals %d" % g])
        return True

    # -- carriers: frozen heaps that hold ONLY references (nothing is ever allocated in them)
    def carried(self, ko, via_heap):
        v = ko["val"]
        return self.copy(v, depth=v["depth"] + 1, via=v["via"] | {via_heap})

    def note_carrier(self, ko):
        self.stats["carriers"] += 1
        if ko.get("carrier"):
            self.stats["carrier_chain"] += 1

    def op_rehome(self, k=None, mode=None, consume=None):
        """OwnedFrozen::build / FrozenHeap::new + add_reference + into_ref: handle k moved into a fresh empty heap."""
        hs = self.held("handle")
        if k is None:
            if not hs:
                return False
            # prefer handles that are themselves owned by a carrier (chains)
            chained = [x for x in hs if self.objs[x].get("carrier")]
            k = self.rng.choice(chained if chained and self.rng.random() < 0.5 else hs)
        ko = self.objs[k]
        k2 = self.new_rid()
        h = self.new_hid(k2)
        mode = mode or self.rng.choice(["build", "build", "build_edge", "heap", "heap_named"])
        consume = (self.rng.random() < 0.5) if consume is None else consume
        self.objs[k2] = {"kind": "handle", "heap": h, "val": self.carried(ko, ko["heap"]), "held": True, "carrier": True}
        self.note_carrier(ko)
        mops = ["OpNewCarrier", "OpAddToCarrier %d %d 0" % (k, k2), "OpSealCarrier %d 0" % k2]
        if consume:
            ko["held"] = False
            self.note_drop(k)
            mops.append("OpDrop %d" % k)
        self.emit({"op": "rehome", "k": k, "k2": k2, "mode": mode, "consume": consume}, mops)
        return True

    def op_new_carrier(self, ckind=None):
        scripted = ckind is not None
        if len(self.held("carrier")) >= 2 or (not scripted and not self.held("handle")):
            return False
        b = self.new_rid()
        h = self.new_hid(b)
        ckind = ckind or self.rng.choice(["heap", "globals"])
        self.objs[b] = {"kind": "carrier", "ckind": ckind, "heap": h, "syms": {}, "last": None, "held": True, "carrier": True}
        self.emit({"op": "new_carrier", "b": b, "kind": ckind}, ["OpNewCarrier"])
        if not scripted and self.rng.random() < 0.85:
            self.op_add_to_carrier(k=self.rng.choice(self.held("handle")), b=b)
            if self.rng.random() < 0.4:
                self.op_seal_carrier(b=b)
        return True

    def op_add_to_carrier(self, k=None, b=None, mode=None):
        hs, bs = self.held("handle"), self.held("carrier")
        if k is None or b is None:
            if not hs or not bs:
                return False
            k, b = self.rng.choice(hs), self.rng.choice(bs)
        ko, bo = self.objs[k], self.objs[b]
        if bo["ckind"] == "globals":
            free = [c for c in "abcdefghijklmnopqrstuvwxyz" if c not in bo["syms"]]
            if not free:
                return False
            name = self.rng.choice(free)      # 1-char names are constant strings: `build` allocates nothing
        else:
            name = "?"
        info = self.copy(self.carried(ko, ko["heap"]), name=name, public=True)
        if bo["ckind"] == "globals":
            bo["syms"][name] = info
            s = self.sym(name)
        else:
            bo["last"] = info
            s = 0
        self.note_carrier(ko)
        self.emit({"op": "add_to_carrier", "k": k, "b": b, "name": name, "mode": mode or self.rng.choice(["ref", "edge", "raw"])},
                  ["OpAddToCarrier %d %d %d" % (k, b, s)])
        return True

    def op_seal_carrier(self, b=None):
        bs = [x for x in self.held("carrier") if self.objs[x]["syms"] or self.objs[x]["last"]]
        if b is None:
            if not bs:
                return False
            b = self.rng.choice(bs)
        bo = self.objs[b]
        op = {"op": "seal_carrier", "b": b}
        if bo["ckind"] == "globals":
            bo["kind"] = "globals"
            self.emit(op, ["OpSealCarrier %d 1" % b])
        else:
            bo["kind"] = "handle"
            bo["val"] = bo["last"]
            op["named"] = self.rng.random() < 0.5
            self.emit(op, ["OpSealCarrier %d 0" % b])
        return True

    def op_clone(self):
        cands = self.held("frozen") + self.held("handle") + self.held("globals")
        if not cands:
            return False
        r = self.rng.choice(cands)
        r2 = self.new_rid()
        self.objs[r2] = dict(self.objs[r])
        self.emit({"op": "clone", "r": r, "as": r2}, ["OpClone %d" % r])
        return True

    def note_drop(self, r):
        """Statistics: is this the drop of an intermediate module while a downstream value is still held?"""
        o = self.objs[r]
        self.stats["drops"] += 1
        # statistics: after this drop, is some value held ONLY through carrier-owned objects while its home module's
        # own objects (module / handles owned by it) are all gone?
        for r2, o2 in self.objs.items():
            if r2 != r and o2["held"] and o2.get("carrier") and o2["kind"] in ("handle", "globals"):
                infos = [o2["val"]] if o2["kind"] == "handle" else list(o2["syms"].values())
                homes = {i["home"] for i in infos if i}
                direct = {o3["heap"] for r3, o3 in self.objs.items() if r3 != r and o3["held"] and not o3.get("carrier")}
                if homes and not (homes & direct) and o["heap"] in homes:
                    self.stats["carrier_sole_holder"] += 1
                    break
        if o["kind"] not in ("frozen", "globals"):
            return
        h = o["heap"]
        for r2, o2 in self.objs.items():
            if r2 == r or not o2["held"] or o2["heap"] == h:
                continue
            infos = [o2["val"]] if o2["kind"] == "handle" else list(o2["syms"].values())
            if any(h in i["via"] and i["home"] != h and i["depth"] >= 2 for i in infos):
                self.stats["intermediate_drop"] += 1
                return

    def op_drop(self):
        cands = self.held("frozen") * 3 + self.held("handle") * 2 + self.held("globals") * 2 + self.held("builder") + self.held("carrier")
        if not cands:
            return False
        r = self.rng.choice(cands)
        self.objs[r]["held"] = False
        self.note_drop(r)
        where = self.rng.choice(["main", "main", "fresh", self.rng.randrange(self.workers), self.rng.randrange(self.workers)])
        if where != "main":
            self.stats["xthread_drops"] += 1
        self.emit({"op": "drop", "r": r, "where": where}, ["OpDrop %d" % r])
        return True


WEIGHTS = [("open", 10), ("eval", 5), ("import", 5), ("freeze", 12), ("get_owned", 10), ("map", 4), ("add_to_heap", 8),
           ("new_builder", 4), ("add_to_builder", 10), ("build", 7), ("from_globals", 4), ("clone", 4), ("drop", 17),
           ("rehome", 9), ("new_carrier", 5), ("add_to_carrier", 5), ("seal_carrier", 9)]


def gen_history(rng, cid, max_ops=25):
    sim = Sim(rng, rng.randint(1, 3))
    n = rng.randint(8, max_ops)
    names = [w[0] for w in WEIGHTS]
    weights = [w[1] for w in WEIGHTS]
    guard = 0
    while len(sim.ops) < n and guard < 400:
        guard += 1
        getattr(sim, "op_" + rng.choices(names, weights)[0])()
    sim.ops, sim.groups = sim.ops[:max_ops], sim.groups[:max_ops]
    return finish(sim, cid)


def finish(sim, cid):
    dist = {}
    for o in sim.ops:
        dist[o["op"]] = dist.get(o["op"], 0) + 1
    st = dict(sim.stats)
    st["nontrivial"] = bool((st["max_depth"] >= 2 and st["intermediate_drop"] > 0) or st["carrier_sole_holder"] > 0)
    return {"case": {"id": cid, "workers": sim.workers, "ops": sim.ops}, "groups": sim.groups,
            "labels": {str(h): r for h, r in sim.hid_label.items()}, "stats": st, "dist": dist}


def directed(rng, cid0):
    """A defines; B loads from A, embeds and re-exports; C loads from B; a handle into C's container is taken and
    mapped down into A's value; then A, B, C and the handles are dropped in EVERY order (on varying threads)."""
    out = []
    base = [
        ({"op": "open", "m": 0, "w": 0}, ["OpNewModule"]),
        ({"op": "eval", "m": 0, "g": None, "mods": {}, "gc": 0,
          "src": 'a_x = [1, "a value of module A %s", (2, 3)]\ndef a_f(q):\n    return [q, a_x]\n' % (LONG * 6)},
         ["OpDefine 0 1 []", "OpDefine 0 2 [1]"]),
        ({"op": "freeze", "m": 0}, ["OpFreeze 0"]),
        ({"op": "open", "m": 1, "w": 0}, ["OpNewModule"]),
        ({"op": "eval", "m": 1, "g": None, "mods": {"A": 0}, "gc": 1,
          "src": 'load("A", l_x = "a_x", l_f = "a_f")\nb_re = l_x\nb_c = {"inner": l_x, "own": "owned by B %s"}\n'
                 'def b_f(q):\n    return (l_f(q), b_c)\n' % (LONG * 6)},
         ["OpLoad 1 0 1 3", "OpLoad 1 0 2 4", "OpAlias 1 5 3", "OpDefine 1 6 [3]", "OpDefine 1 7 [4; 6]"]),
        ({"op": "freeze", "m": 1}, ["OpFreeze 1"]),
        ({"op": "open", "m": 2, "w": 0}, ["OpNewModule"]),
        ({"op": "eval", "m": 2, "g": None, "mods": {"B": 1}, "gc": 2,
          "src": 'load("B", m_re = "b_re", m_c = "b_c", m_f = "b_f")\nc_all = [m_re, m_c, "owned by C %s"]\n'
                 'c_f = m_f\ndef c_g(q):\n    return [m_f(q), c_all]\n' % (LONG * 6)},
         ["OpLoad 2 1 5 8", "OpLoad 2 1 6 9", "OpLoad 2 1 7 10", "OpDefine 2 11 [8; 9]", "OpAlias 2 12 10", "OpDefine 2 13 [10; 11]"]),
        ({"op": "freeze", "m": 2}, ["OpFreeze 2"]),
        ({"op": "get_owned", "f": 2, "name": "c_all", "k": 3}, ["OpGetOwned 2 11"]),
        ({"op": "map", "k": 3, "k2": 4, "path": [1, "inner"]}, ["OpMap 3 1"]),     # c_all[1] = b_c (heap 1) ... ["inner"] = a_x
        ({"op": "get_owned", "f": 2, "name": "c_g", "k": 5}, ["OpGetOwned 2 13"]),
    ]
    # model: OpMap is one value-edge step at a time: c_all (heap 2) -> b_c (heap 1); a second map goes to heap 0
    base[10] = ({"op": "map", "k": 3, "k2": 4, "path": [1]}, ["OpMap 3 1"])
    base.insert(11, ({"op": "map", "k": 4, "k2": 5, "path": ["inner"]}, ["OpMap 4 0"]))
    base[12] = ({"op": "get_owned", "f": 2, "name": "c_g", "k": 6}, ["OpGetOwned 2 13"])
    droppable = [0, 1, 2, 3, 4]
    perms = list(itertools.permutations(droppable))
    rng.shuffle(perms)
    for i, p in enumerate(perms):
        ops = [dict(o) for o, _ in base]
        groups = [list(g) for _, g in base]
        for j, r in enumerate(p):
            where = ["main", "fresh", 0, 1][(i + j) % 4]
            ops.append({"op": "drop", "r": r, "where": where})
            groups.append(["OpDrop %d" % r])
        dist = {}
        for o in ops:
            dist[o["op"]] = dist.get(o["op"], 0) + 1
        out.append({"case": {"id": cid0 + i, "workers": 2, "ops": ops}, "groups": groups, "labels": {"0": 0, "1": 1, "2": 2},
                    "stats": {"max_depth": 2, "drops": 5, "xthread_drops": 3, "intermediate_drop": 1, "loads": 5, "nontrivial": True},
                    "dist": dist, "directed": True})
    return out


def directed_carriers(rng, cid0):
    """A defines a value; an owned handle to it is moved into a fresh frozen heap in which NOTHING is allocated (every
    public route), that handle is moved again (chain of two carriers), the result is put into a `GlobalsBuilder::new()`
    under a constant-string name (a third carrier) and a module is made from those globals; then module A, the original
    handle, the two re-homed handles and the globals are dropped in EVERY order (the module made from the globals
    stays), on varying threads."""
    out = []
    modes = ["build", "build_edge", "heap", "heap_named"]
    amodes = ["ref", "edge", "raw"]
    perms = list(itertools.permutations([0, 1, 2, 3, 4]))
    rng.shuffle(perms)
    for i, p in enumerate(perms):
        sim = Sim(rng, 2)
        sim.objs[0] = {"kind": "open", "heap": sim.new_hid(sim.new_rid()), "syms": {}, "held": True, "worker": 0}
        sim.free_workers.remove(0)
        sim.emit({"op": "open", "m": 0, "w": 0}, ["OpNewModule"])
        info = {"name": "a_x", "home": 0, "public": True, "shape": ("cont", [(0, ("lit", "1")), (1, ("lit", "s")), (2, ("lit", "t"))]),
                "depth": 0, "via": frozenset()}
        sim.objs[0]["syms"] = {"a_x": info, "a_f": dict(info, name="a_f", shape=("opaque",))}
        sim.emit({"op": "eval", "m": 0, "g": None, "mods": {}, "gc": i % 3,
                  "src": 'a_x = [1, "a value of module A %s", (2, 1 << 90)]\ndef a_f(q):\n    return [q, a_x]\n' % (LONG * 6)},
                 ["OpDefine 0 %d []" % sim.sym("a_x"), "OpDefine 0 %d [%d]" % (sim.sym("a_f"), sim.sym("a_x"))])
        sim.objs[0]["kind"] = "frozen"
        sim.free_workers.append(0)
        sim.emit({"op": "freeze", "m": 0}, ["OpFreeze 0"])
        name = "a_f" if i % 5 == 4 else "a_x"
        sim.objs[1] = {"kind": "handle", "heap": 0, "val": sim.objs[0]["syms"][name], "held": True}
        assert sim.new_rid() == 1
        sim.emit({"op": "get_owned", "f": 0, "name": name, "k": 1}, ["OpGetOwned 0 %d" % sim.sym(name)])
        sim.op_rehome(k=1, mode=modes[i % 4], consume=False)                 # handle 2, heap 1
        sim.op_rehome(k=2, mode=modes[(i // 4) % 4], consume=False)          # handle 3, heap 2
        sim.op_new_carrier(ckind="globals")                                  # carrier 4, heap 3
        sim.op_add_to_carrier(k=3, b=4, mode=amodes[i % 3])
        sim.op_seal_carrier(b=4)                                             # globals 4
        g = sim.objs[4]
        f = sim.new_rid()
        syms = {n: sim.copy(v, depth=v["depth"] + 1, via=v["via"] | {g["heap"]}) for n, v in g["syms"].items()}
        sim.objs[f] = {"kind": "frozen", "heap": sim.new_hid(f), "syms": syms, "held": True}
        sim.emit({"op": "from_globals", "g": 4, "f": f}, ["OpFromGlobals 4"])   # frozen module 5, heap 4
        for j, r in enumerate(p):
            sim.objs[r]["held"] = False
            sim.note_drop(r)
            where = ["main", "fresh", 0, 1][(i + j) % 4]
            sim.emit({"op": "drop", "r": r, "where": where}, ["OpDrop %d" % r])
        it = finish(sim, cid0 + i)
        it["stats"]["nontrivial"] = True       # by construction: A is dropped while its value is held only through carriers
        it["stats"]["xthread_drops"] = sum(1 for o in it["case"]["ops"] if o["op"] == "drop" and o["where"] != "main")
        it["directed"] = True
        out.append(it)
    return out


# ------------------------------------------------------------------------------------------------ model

TAGS = {"OpNewModule": 0, "OpEval": 1, "OpLoad": 2, "OpImport": 3, "OpDefine": 4, "OpAlias": 5, "OpFreeze": 6, "OpGetOwned": 7,
        "OpMap": 8, "OpAddToHeap": 9, "OpNewBuilder": 10, "OpAddToBuilder": 11, "OpBuild": 12, "OpFromGlobals": 13, "OpClone": 14,
        "OpDrop": 15, "OpNewCarrier": 16, "OpAddToCarrier": 17, "OpSealCarrier": 18}


def encode_op(text):
    """'OpLoad 1 0 3 4' -> '[2; 1; 0; 3; 4]' (Refs/Cases.v `dec`); lists and pairs are flattened in order."""
    import re
    head = text.split()[0]
    nums = re.findall(r"\d+", text[len(head):])
    return "[" + "; ".join([str(TAGS[head])] + nums) + "]"


def encode_history(groups):
    """The whole history as one number (Refs/Cases.v groups_of_number): little-endian base 1024, digit 1 = end of
    operation, 2 = end of group, v + 3 = number v."""
    import re
    ds = []
    for g in groups:
        for text in g:
            head = text.split()[0]
            ds += [TAGS[head] + 3] + [int(x) + 3 for x in re.findall(r"\d+", text[len(head):])] + [1]
        ds.append(2)
    assert all(0 < d < 1024 for d in ds)
    n = 0
    for d in reversed(ds):
        n = n * 1024 + d
    return n


def run_model(ctx, items, full):
    """items: list of case dicts.  Returns per item either the list of per-group observations (full) or the
    summary (all_safe, heaps, roots)."""
    # every coqc pays a fixed start-up + first-vm_compute cost: fewer, larger files - but at most ~400 histories per file, so that
    # a thorough-tier run (tens of thousands of histories) stays inside the per-file time limit also on a loaded machine
    nshard = max(8, (len(items) + 399) // 400)
    files = []
    fn = "trace_h" if full else "summary_h"
    for s in range(nshard):
        part = items[s::nshard]
        if not part:
            continue
        text = ("From Coq Require Import List Arith NArith.\nFrom SV Require Import Refs.Model Refs.Cases.\n"
                "Import ListNotations.\nOpen Scope N_scope.\n")
        hs = [str(encode_history(it["groups"])) for it in part]
        for k in range(0, len(hs), 40):
            text += "Eval vm_compute in (map %s [\n%s]).\n" % (fn, ";\n".join(hs[k:k + 40]))
        files.append(("hist_%s_%d" % ("f" if full else "s", s), text))
    outs = sv.coq_eval_files(ctx, files, timeout=900)
    res = [None] * len(items)
    log = ""
    for s, (rc, out) in enumerate(outs):
        vals = [x for v in sv.coq_values(out) for x in v]
        part_n = len(items[s::nshard])
        if rc != 0 or len(vals) != part_n:
            log += out[-400:]
        for j, v in enumerate(vals[:part_n]):
            res[s + j * nshard] = v
    return res, log


def obs_maps(o, labels):
    """Coq obs (safe, heaps, roots) -> (safe, {hid: set(labels of refs)}, {rid: [hids]})"""
    safe, heaps, roots = o
    hm = {}
    for h, refs in heaps:
        hm[h] = sorted({"r%d" % labels[str(x)] for x in refs if str(x) in labels})
    rm = {r: list(hs) for r, hs in roots}
    return safe == "true", hm, rm


def expected_refs(o, labels, kinds):
    """What the harness should report in `refs` for the held sealed objects, from a model observation."""
    safe, hm, rm = obs_maps(o, labels)
    exp = {}
    for r, hs in rm.items():
        k = kinds.get(r)
        if k in ("frozen", "globals") and hs:
            exp["r%d" % r] = hm.get(hs[0], [])
        elif k == "handle" and hs:
            exp["k%d" % r] = "r%d" % labels[str(hs[0])]
            exp["o%d" % r] = hm.get(hs[0], [])       # what the owner of the handle references (carriers: only that)
    return safe, exp


def kinds_after(it):
    """Kind of each rid after each harness op (open modules and builders have no observable refs)."""
    kinds, out = {}, []
    for o in it["case"]["ops"]:
        op = o["op"]
        if op == "open":
            kinds[o["m"]] = "open"
        elif op == "freeze":
            kinds[o["m"]] = "frozen"
        elif op == "get_owned":
            kinds[o["k"]] = "handle"
        elif op == "map":
            kinds[o["k2"]] = "handle"
        elif op == "new_builder":
            kinds[o["b"]] = "builder"
        elif op == "build":
            kinds[o["b"]] = "globals"
        elif op == "from_globals":
            kinds[o["f"]] = "frozen"
        elif op == "clone":
            kinds[o["as"]] = kinds.get(o["r"])
        elif op == "rehome":
            kinds[o["k2"]] = "handle"
        elif op == "new_carrier":
            kinds[o["b"]] = "carrier:" + o["kind"]
        elif op == "seal_carrier":
            kinds[o["b"]] = "globals" if kinds.get(o["b"]) == "carrier:globals" else "handle"
        out.append(dict(kinds))
    return out


# ------------------------------------------------------------------------------------------------ evaluation

def run_impl(ctx, items, tag="cases"):
    cases = [it["case"] for it in items]
    rc, log, res = sv.run_harness_sharded(ctx, "heaps", cases, timeout=1500)
    crashed = []
    if rc != 0 or any(r is None for r in res):
        # a shard died (crash / abort / signal): re-run every case without a result alone, in its own process
        missing = [i for i, r in enumerate(res) if r is None]
        ctx.log("harness rc=%s, %d cases without result -> isolating" % (rc, len(missing)))
        for k in range(0, len(missing), 64):
            chunk = missing[k:k + 64]
            rc2, log2, res2 = sv.run_harness_sharded(ctx, "heaps", [cases[i] for i in chunk], shards=len(chunk), timeout=600)
            for i, r in zip(chunk, res2):
                if r is None:
                    crashed.append(i)
                else:
                    res[i] = r
    return res, crashed, log


def evaluate(ctx, items, full_n):
    """Run implementation and model on the histories; returns failures, broken, stats."""
    res, crashed, log = run_impl(ctx, items)
    ctx.log("implementation ran %d histories (%d crashed)" % (len(items), len(crashed)))
    full_items = items[:full_n]
    mfull, mlog = run_model(ctx, full_items, True)
    rest = items[full_n:]
    msum, mlog2 = run_model(ctx, rest, False) if rest else ([], "")
    ctx.log("Coq model replayed %d histories step by step, %d in summary mode" % (len(full_items), len(rest)))
    failures, broken = [], []
    st = {"steps": 0, "encodings": 0, "refs_compared": 0, "gen_invalid": 0, "model_unsafe": 0, "traces": 0}
    for i in crashed:
        failures.append({"key": "crash", "what": "the process died (signal/abort) while replaying history %s with poisoning on"
                         % items[i]["case"]["id"], "replay": {"item": slim(items[i])}})
    for i, (it, r) in enumerate(zip(items, res)):
        if r is None:
            continue
        if "panic" in r:
            failures.append({"key": "panic", "what": "Rust panic in history %s at op %s: %s" % (it["case"]["id"], r.get("at"), str(r["panic"])[:200]),
                             "replay": {"item": slim(it), "impl": r}})
            continue
        steps = r["steps"]
        errs = [s for s in steps if s.get("err")]
        if errs:
            st["gen_invalid"] += 1
            continue
        if r.get("nviol", 0):
            v = next(s for s in steps if s["viol"])
            failures.append({"key": "value-changed:%s" % it["case"]["ops"][v["i"]]["op"],
                             "what": "history %s: after op %d (%s) a still-reachable value changed: %s"
                                     % (it["case"]["id"], v["i"], json.dumps(it["case"]["ops"][v["i"]])[:150], json.dumps(v["viol"][0])[:400]),
                             "replay": {"item": slim(it), "impl_step": v}})
            continue
        st["steps"] += len(steps)
        st["encodings"] += r.get("checked", 0)
        kinds = kinds_after(it)
        if i < full_n:
            tr = mfull[i]
            if tr is None or len(tr) != len(it["groups"]):
                broken.append(("model-run", "Coq could not replay history %s: %s" % (it["case"]["id"], mlog[-200:])))
                continue
            st["traces"] += 1
            pairs = list(zip(range(len(steps)), tr))
        else:
            sm = msum[i - full_n]
            if sm is None:
                broken.append(("model-run", "Coq could not replay history %s: %s" % (it["case"]["id"], mlog2[-200:])))
                continue
            st["traces"] += 1
            pairs = [(len(steps) - 1, sm)]
        for j, o in pairs:
            safe, exp = expected_refs(o, it["labels"], kinds[j])
            if not safe:
                st["model_unsafe"] += 1
                broken.append(("model-unsafe", "the model itself reaches a released heap on history %s" % it["case"]["id"]))
                break
            got = {k: (sorted(v) if isinstance(v, list) else v) for k, v in steps[j]["refs"].items() if k != "unknown"}
            exp = {k: (sorted(v) if isinstance(v, list) else v) for k, v in exp.items()}
            st["refs_compared"] += len(exp)
            if got != exp:
                diff = {k: (got.get(k), exp.get(k)) for k in set(got) | set(exp) if got.get(k) != exp.get(k)}
                failures.append({"key": "refs-differ:%s" % it["case"]["ops"][j]["op"],
                                 "what": "history %s: after op %d (%s) the real heap references differ from the model's "
                                         "(object: (implementation, model)): %s"
                                         % (it["case"]["id"], j, json.dumps(it["case"]["ops"][j])[:120], json.dumps(diff)[:400]),
                                 "replay": {"item": slim(it), "step": j, "impl": got, "model": exp}})
                break
    return failures, broken, st


def slim(it):
    return {"case": it["case"], "groups": it["groups"], "labels": it["labels"]}


def still_fails(ctx, it):
    f, b, _ = evaluate(ctx, [it], 1)
    return bool(f)


def minimise(ctx, it, budget=40):
    """Greedy removal of operations (later ones first) while the history still fails."""
    cur = it
    n = 0
    i = len(cur["case"]["ops"]) - 1
    while i >= 0 and n < budget:
        ops = cur["case"]["ops"][:i] + cur["case"]["ops"][i + 1:]
        groups = cur["groups"][:i] + cur["groups"][i + 1:]
        cand = {"case": {"id": cur["case"]["id"], "workers": cur["case"]["workers"], "ops": ops}, "groups": groups, "labels": cur["labels"]}
        # removing an op changes the identifiers the model allocates: only implementation-level failures are used here
        res, crashed, _ = run_impl(ctx, [cand])
        n += 1
        r = res[0]
        bad = bool(crashed) or (r is not None and ("panic" in r or r.get("nviol", 0)))
        if bad:
            cur = cand
        i -= 1
    return cur


def build_items(ctx, n, cid0=0):
    items = directed(ctx.rng, cid0)
    items += directed_carriers(ctx.rng, cid0 + len(items))
    corpus = os.path.join(sv.ROOT, "corpus", "C13")
    if os.path.isdir(corpus):
        for fn in sorted(os.listdir(corpus)):
            for line in open(os.path.join(corpus, fn)):
                if line.strip():
                    it = json.loads(line)
                    it.setdefault("stats", {"max_depth": 0, "drops": 0, "xthread_drops": 0, "intermediate_drop": 0, "loads": 0, "nontrivial": False})
                    it.setdefault("dist", {})
                    items.append(it)
    k = len(items)
    for i in range(n):
        items.append(gen_history(ctx.rng, cid0 + k + i))
    for i, it in enumerate(items):
        it["case"]["id"] = cid0 + i
    return items


def coverage_of(items, st, failures):
    dist, agg = {}, {"max_depth": 0, "drops": 0, "xthread_drops": 0, "loads": 0, "carriers": 0, "carrier_chain": 0, "carrier_sole_holder": 0}
    nontrivial = set()
    for it in items:
        for k, v in it["dist"].items():
            dist[k] = dist.get(k, 0) + v
        s = it["stats"]
        agg["max_depth"] = max(agg["max_depth"], s["max_depth"])
        for k in ("drops", "xthread_drops", "loads", "carriers", "carrier_chain", "carrier_sole_holder"):
            agg[k] += s.get(k, 0)
        if s.get("nontrivial"):
            nontrivial.add(sv.digest(it["case"]["ops"]))
    return {
        "evaluations": len(items),
        "distinct_nontrivial": len(nontrivial),
        "rule": "random histories (<= 25 operations) of: open/evaluate/import/freeze/abandon modules, load chains, get_owned, "
                "handle map, add_to_heap (3 modes), globals builder + build, module from globals, clone, drop on main/worker/fresh "
                "thread; carriers = frozen heaps in which nothing is allocated: rehome of a handle (OwnedFrozen::build with "
                "add_to_frozen_heap / frozen_edge, FrozenHeap::new + add_reference + into_ref / into_ref_named), open carriers "
                "(FrozenHeap::new, GlobalsBuilder::new with constant-string names) filled from handles in 3 modes and sealed "
                "into a handle / a Globals, chains of carriers; plus every drop order of a directed A<-B<-C chain and of a "
                "directed module <- carrier <- carrier <- globals carrier <- module chain; non-trivial = (some value travelled "
                "through >= 2 load/re-export hops AND an intermediate module was dropped while a downstream value was still "
                "held) OR (a home module was dropped while its value was held only through carrier-owned objects); distinct by "
                "operation list",
        "histories": len(items),
        "steps_checked": st["steps"],
        "encodings_compared": st["encodings"],
        "heap_reference_sets_compared_with_model": st["refs_compared"],
        "traces_validated_against_impl": st["traces"],
        "generator_invalid_histories_skipped": st["gen_invalid"],
        "max_load_chain_depth": agg["max_depth"],
        "drops": agg["drops"],
        "cross_thread_drops": agg["xthread_drops"],
        "loads": agg["loads"],
        "carrier_references_added": agg["carriers"],
        "carrier_on_carrier_chains": agg["carrier_chain"],
        "drops_leaving_a_carrier_as_sole_holder": agg["carrier_sole_holder"],
        "input_distribution": dist,
        "poisoning": True,
        "exhaustive": False,
        "samples": [items[0]["case"], items[-1]["case"]],
        "disagreements_checked": len(failures),
    }


def correspond(ctx):
    n = ctx.n(1000, 30000)
    items = build_items(ctx, n)
    ctx.log("generated %d histories" % len(items))
    failures, broken, st = evaluate(ctx, items, ctx.n(len(items), 3000))
    if st["gen_invalid"] > len(items) // 20:
        broken.append(("generator", "%d of %d generated histories were rejected by the implementation (evaluation errors)"
                       % (st["gen_invalid"], len(items))))
    # minimise the first implementation-level failure so that the replay is small
    for f in failures[:2]:
        if f["key"].startswith(("crash", "value-changed", "panic")):
            try:
                small = minimise(ctx, f["replay"]["item"])
                f["replay"]["minimised"] = small["case"]
                f["what"] += " | minimised to %d ops" % len(small["case"]["ops"])
            except Exception as e:  # noqa: BLE001
                f["replay"]["minimise_error"] = str(e)
    ctx.log("steps=%d encodings=%d refsets=%d invalid=%d failures=%d broken=%d"
            % (st["steps"], st["encodings"], st["refs_compared"], st["gen_invalid"], len(failures), len(broken)))
    return {"coverage": coverage_of(items, st, failures), "failures": failures, "broken": broken}


def search(ctx, broken):
    """A proof / pin / tie broke: deep generator; around a failure permute the drop order and minimise."""
    old = ctx.tier
    ctx.tier = "thorough"
    try:
        items = build_items(ctx, 6000, cid0=100000)
        failures, _, st = evaluate(ctx, items, 600)
    finally:
        ctx.tier = old
    out = []
    for f in failures[:3]:
        it = f["replay"].get("item")
        if it and f["key"].startswith(("crash", "value-changed", "panic")):
            # permute the drops of the failing history: is the failure order dependent?
            ops = it["case"]["ops"]
            didx = [i for i, o in enumerate(ops) if o["op"] == "drop"]
            variants = []
            for _ in range(6):
                perm = didx[:]
                ctx.rng.shuffle(perm)
                o2 = list(ops)
                for a, b in zip(didx, perm):
                    o2[a] = ops[b]
                variants.append({"case": {"id": 0, "workers": it["case"]["workers"], "ops": o2}, "groups": it["groups"], "labels": it["labels"]})
            res, crashed, _ = run_impl(ctx, variants)
            f["replay"]["drop_order_variants_failing"] = sum(1 for i, r in enumerate(res) if i in crashed or (r and (r.get("nviol") or "panic" in r)))
            f["replay"]["minimised"] = minimise(ctx, it)["case"]
        out.append(f)
    return {"failures": out or failures, "coverage": {"evaluations": len(items)}}


def replay(ctx, rep):
    it = rep.get("replay", {}).get("item")
    if not it:
        return {"coverage": {}, "failures": []}
    it.setdefault("stats", {"max_depth": 0, "drops": 0, "xthread_drops": 0, "loads": 0, "intermediate_drop": 0})
    it.setdefault("dist", {})
    failures, broken, st = evaluate(ctx, [it], 1)
    return {"coverage": {"evaluations": 1, "distinct_nontrivial": 1, "samples": [it["case"]]}, "failures": failures, "broken": broken}


META = {
    "category": "proof",
    "level_text": "Partial. Proved in Coq (Properties/C13.v, closed under the global context) on a history machine that mirrors the "
                  "code's mechanism site by site (Arc strong counts with transitive release, FrozenHeap/OwnedHeap reference lists "
                  "with the contains-check of add_reference, value edges, external objects): the invariant 'every value edge out of "
                  "a live heap is covered by a chain of heap references, every value a held object exposes is covered by a heap it "
                  "holds, every strong count covers its holders' is preserved by EVERY operation (build/evaluate with globals, load, "
                  "import_public_symbols, define/re-export, freeze with carry-over of the mutable half's references, get_owned, map, "
                  "add_to_heap, globals builder/build, module from globals, clone, drop, and CARRIERS = frozen heaps in which nothing is "
                  "allocated and that only record references: FrozenHeap::new / GlobalsBuilder::new, add_to_frozen_heap / frozen_edge / "
                  "add_reference into them, sealing by into_ref / into_ref_named / OwnedFrozen::build / GlobalsBuilder::build with the "
                  "'empty heap' shortcut of into_ref_impl exactly as the code has it: only when arena AND reference list are empty), "
                  "hence holds after every history, hence for "
                  "every drop order everything reachable from a still-held object lives in a heap that has not been released "
                  "(C13_live_reachable_intact), and permuting drops changes neither what remains held nor what it reaches "
                  "(C13_drop_order_irrelevant). Removing any one add_reference site from the model yields a concrete use-after-free "
                  "(8 theorems), and so does weakening the shortcut of into_ref_impl to 'arena empty' "
                  "(C13_seal_refs_check_needed[_chain|_globals]: a re-homed handle, also through two carriers, also as a Globals, reaches a "
                  "released heap; C13_seal_step_weak_breaks_wf: the invariant is not preserved). What the model cannot exhibit - reuse of arena chunks shared between consecutive heaps of a thread, "
                  "unsafe lifetime/brand casts, cross-thread atomicity - is only SEARCHED: the real library replays random histories "
                  "with freed arenas poisoned, every reachable value re-encoded and every reachable function re-called after every "
                  "operation, drops on other threads, in child processes whose crashes are caught; the real FrozenHeapRef::refs() "
                  "graph (of every held module / globals heap AND of the owner of every held handle, carriers included) is compared with the "
                  "model's reference lists after every operation.",
    "level_note": "Trusted: Coq kernel; hook H2 (poison on Arena::drop); harness bin heaps + sv_harness::enc; the Python history "
                  "generator; vm_compute replay of the model. Modelled, not verified: the abstraction of values to their heap; the "
                  "merge of an open module's two heaps into one model heap; exactness of release (the count invariant is "
                  "'count >= holders', which is what safety needs; that unreachable heaps are eventually freed is not claimed). "
                  "Cannot be exhibited by the model: allocator chunk reuse, lifetime casts, data races on the counts.",
    "technique": "Coq invariant proof over an Arc/reference-graph history machine; poisoned differential replay of random histories "
                 "against the real library with reference-graph comparison",
    "design_ref": "DESIGN.md section 4 C13, section 6",
}
