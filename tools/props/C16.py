"""C16 Runtime type checks accept exactly the values a type denotes on every check path.

Proof: coq/Ty/{Spec,Model,Proofs}.v + Properties/C16.v.  `Spec.denote` is the documented meaning of a type
(docs/types.md); `Model` mirrors Ty::unions (normalisation), the matcher factory (alloc.rs) and the
matcher structs (matchers.rs).
Tie: the `types` harness answers every (type, value) pair through every run-time check path of the real
library (isinstance, parameter annotation, return annotation, annotated assignment in a def and at module
level, TypeCompiled::new + matches), before and after the type and the value are frozen and loaded into
another module.  All answers must agree with each other, with the model extracted to OCaml
(Extract/TyX.v, ocaml/ty_driver.ml) and with the specification (extracted `denote_raw`, and an independent
Python transcription below used for triage and for the search)."""
import itertools
import json
import os

import sv

PROP = "C16"
HARNESS_BINS = ["types"]
COQ_TARGETS = ["Properties/C16.vo", "Ty/Cases.vo", "Extract/TyX.vo"]
TRUSTED = ["extraction: ExtrOcamlBasic only; ocaml/ty_driver.ml (token parser, hand-written); OCaml 4.13.1 ocamlopt",
           "harness bin `types` (builds the Starlark programs around each type/value text and classifies errors by the "
           "message 'does not match the type annotation')",
           "tools/props/C16.py: rendering of type/value trees to Starlark text and to model tokens (same tree, two printers)",
           "the value catalogue abstracts scalars to their kind (an int is small or big; strings, floats, bools carry no payload)"]
ASSUMPTIONS = ["type universe: typing.Any, typing.Never, None, bool, int, float, str, range, list[T], dict[K,V], set[T], "
               "(T0,..,Tn) tuples, tuple[T, ...], A | B, typing.Callable, typing.Iterable, record types, enum types and the bare "
               "names list/dict/set/tuple; `type`, struct(..), typing.Callable[[..], R] signatures and host-defined types are outside the model",
               "the order of alternatives inside a normalised union is modelled only up to 'same constructors are adjacent' "
               "(not observable through the answer of a check)",
               "the model/implementation tie is differential testing: exhaustive over depth <= 2 type expressions x catalogue, sampled above"]

# path table, same order as harness/src/bin/types.rs
PATHS = (["live:isinstance(v,<ty>)", "live:isinstance(v,T)", "live:param", "live:return", "live:assign-in-def",
          "live:assign-module", "live:host-api"],
         ["frozen:A.isinstance", "frozen:A.param", "frozen:A.return", "frozen:A.assign-in-def", "frozen:B.isinstance(v,T)",
          "frozen:B.param", "frozen:B.return", "frozen:B.assign-in-def", "frozen:B.assign-module",
          "frozen:A.param-called-with-constant-from-B-module", "frozen:A.param-called-with-constant-from-B-def", "frozen:host-api"],
         ["mixed:A.isinstance", "mixed:A.param", "mixed:A.return", "mixed:A.assign-in-def", "mixed:B.isinstance(v,T)",
          "mixed:B.param", "mixed:B.return", "mixed:B.assign-in-def", "mixed:host-api"])
NPATHS = sum(len(p) for p in PATHS)

# ---------------------------------------------------------------------------------------------------
# type trees: tuples ("any",) ("never",) ("base", i) ("iter",) ("call",) ("list", t) ("set", t) ("tupof", t)
#   ("dict", k, v) ("tuple", (t..)) ("union", a, b) ("rec", id) ("enum", id) and the bare names
#   ("blist",) ("bdict",) ("bset",) ("btuple",)  (= list[Any], dict[Any, Any], set[Any], tuple[Any, ...])

BASE_NAMES = ["None", "bool", "float", "int", "range", "str"]
ANY, NEVER = ("any",), ("never",)


def ty_text(t, expr=False):
    """Starlark text of a type.  expr=False: annotation syntax.  expr=True: the same type as an ordinary expression
    (`T = ...`, second argument of isinstance): a tuple literal cannot be an operand of `|` there, so it is wrapped in eval_type()."""
    k = t[0]
    if k == "any":
        return "typing.Any"
    if k == "never":
        return "typing.Never"
    if k == "base":
        return BASE_NAMES[t[1]]
    if k == "iter":
        return "typing.Iterable"
    if k == "call":
        return "typing.Callable"
    if k == "list":
        return "list[%s]" % ty_text(t[1], expr)
    if k == "set":
        return "set[%s]" % ty_text(t[1], expr)
    if k == "tupof":
        return "tuple[%s, ...]" % ty_text(t[1], expr)
    if k == "dict":
        return "dict[%s, %s]" % (ty_text(t[1], expr), ty_text(t[2], expr))
    if k == "tuple":
        if len(t[1]) == 1:
            return "(%s,)" % ty_text(t[1][0], expr)
        return "(%s)" % ", ".join(ty_text(x, expr) for x in t[1])
    if k == "union":
        a = ty_text(t[1], expr)
        b = ty_text(t[2], expr)
        if t[2][0] == "union":
            b = "(" + b + ")"      # parenthesised expression, not a tuple: a | (b | c)
        if expr and t[1][0] == "tuple":
            a = "eval_type(%s)" % a
        if expr and t[2][0] == "tuple":
            b = "eval_type(%s)" % b
        return "%s | %s" % (a, b)
    if k == "rec":
        return "R%d" % t[1]
    if k == "enum":
        return "E%d" % t[1]
    return {"blist": "list", "bdict": "dict", "bset": "set", "btuple": "tuple"}[k]


def ty_tokens(t):
    k = t[0]
    if k == "any":
        return "A"
    if k == "never":
        return "N"
    if k == "base":
        return "B%d" % t[1]
    if k == "iter":
        return "I"
    if k == "call":
        return "C"
    if k == "list":
        return "L " + ty_tokens(t[1])
    if k == "set":
        return "S " + ty_tokens(t[1])
    if k == "tupof":
        return "O " + ty_tokens(t[1])
    if k == "dict":
        return "D %s %s" % (ty_tokens(t[1]), ty_tokens(t[2]))
    if k == "tuple":
        return " ".join(["T %d" % len(t[1])] + [ty_tokens(x) for x in t[1]])
    if k == "union":
        return "U 2 %s %s" % (ty_tokens(t[1]), ty_tokens(t[2]))
    if k == "rec":
        return "R %d" % t[1]
    if k == "enum":
        return "E %d" % t[1]
    return {"blist": "L A", "bdict": "D A A", "bset": "S A", "btuple": "O A"}[k]


def ty_ctor(t):
    return t[0]


def ty_depth(t):
    k = t[0]
    if k in ("list", "set", "tupof"):
        return 1 + ty_depth(t[1])
    if k == "dict":
        return 1 + max(ty_depth(t[1]), ty_depth(t[2]))
    if k == "union":
        return 1 + max(ty_depth(t[1]), ty_depth(t[2]))
    if k == "tuple":
        return 1 + max([ty_depth(x) for x in t[1]] + [0])
    return 1


# ---------------------------------------------------------------------------------------------------
# value trees: ("none",) ("bool", b) ("int", n) ("bigint", n) ("float", x) ("str", s) ("list", (v..)) ("tuple", (v..))
#   ("set", (v..)) ("dict", ((k, v)..)) ("range",) ("struct",) ("func", text) ("rectype", id) ("enumtype", id)
#   ("typeval", text) ("rec", id) ("enumval", id)

def val_text(v):
    k = v[0]
    if k == "none":
        return "None"
    if k == "bool":
        return "True" if v[1] else "False"
    if k == "int":
        return "(%d)" % v[1] if v[1] < 0 else str(v[1])
    if k == "bigint":
        return "(%d)" % v[1]
    if k == "float":
        return repr(float(v[1]))
    if k == "str":
        return json.dumps(v[1])
    if k == "list":
        return "[%s]" % ", ".join(val_text(x) for x in v[1])
    if k == "tuple":
        if len(v[1]) == 1:
            return "(%s,)" % val_text(v[1][0])
        return "(%s)" % ", ".join(val_text(x) for x in v[1])
    if k == "set":
        return "set([%s])" % ", ".join(val_text(x) for x in v[1])
    if k == "dict":
        return "{%s}" % ", ".join("%s: %s" % (val_text(a), val_text(b)) for a, b in v[1])
    if k == "range":
        return "range(3)"
    if k == "struct":
        return "struct(a = 1)"
    if k in ("func", "typeval"):
        return v[1]
    if k == "rectype":
        return "R%d" % v[1]
    if k == "enumtype":
        return "E%d" % v[1]
    if k == "rec":
        return "R%d(a = 7)" % v[1]
    if k == "enumval":
        return 'E%d("b")' % v[1]
    raise ValueError(v)


def val_tokens(v):
    k = v[0]
    simple = {"none": "n", "bool": "b", "int": "i", "bigint": "g", "float": "f", "str": "s", "range": "r", "struct": "u",
              "func": "c", "typeval": "y"}
    if k in simple:
        return simple[k]
    if k in ("list", "tuple", "set"):
        return " ".join(["%s %d" % ({"list": "l", "tuple": "t", "set": "e"}[k], len(v[1]))] + [val_tokens(x) for x in v[1]])
    if k == "dict":
        return " ".join(["d %d" % len(v[1])] + [val_tokens(a) + " " + val_tokens(b) for a, b in v[1]])
    return "%s %d" % ({"rectype": "P", "enumtype": "Q", "rec": "p", "enumval": "q"}[k], v[1])


def val_kind(v):
    k = v[0]
    if k in ("list", "tuple", "set", "dict"):
        return k + ("-empty" if not v[1] else "")
    return k


# ---------------------------------------------------------------------------------------------------
# the specification, transcribed independently of the Coq text (docs/types.md)

BASE_KIND = {"none": 0, "bool": 1, "float": 2, "int": 3, "bigint": 3, "range": 4, "str": 5}


def denote(t, v):
    k, vk = t[0], v[0]
    if k == "any":
        return True
    if k == "never":
        return False
    if k == "base":
        return BASE_KIND.get(vk) == t[1]
    if k == "iter":
        return vk in ("list", "tuple", "set", "dict", "range", "enumtype")
    if k == "call":
        return vk in ("func", "rectype", "enumtype")
    if k in ("list", "blist"):
        return vk == "list" and (k == "blist" or all(denote(t[1], x) for x in v[1]))
    if k in ("set", "bset"):
        return vk == "set" and (k == "bset" or all(denote(t[1], x) for x in v[1]))
    if k in ("tupof", "btuple"):
        return vk == "tuple" and (k == "btuple" or all(denote(t[1], x) for x in v[1]))
    if k in ("dict", "bdict"):
        return vk == "dict" and (k == "bdict" or all(denote(t[1], a) and denote(t[2], b) for a, b in v[1]))
    if k == "tuple":
        return vk == "tuple" and len(v[1]) == len(t[1]) and all(denote(a, b) for a, b in zip(t[1], v[1]))
    if k == "union":
        return denote(t[1], v) or denote(t[2], v)
    if k == "rec":
        return vk == "rec" and v[1] == t[1]
    if k == "enum":
        return vk == "enumval" and v[1] == t[1]
    raise ValueError(t)


def union_alts(t):
    """Alternatives of a union expression after flattening nested unions (as written, not normalised)."""
    if t[0] == "union":
        return union_alts(t[1]) + union_alts(t[2])
    return [t]


def canon(t):
    """bare names -> explicit form, for comparing alternatives"""
    k = t[0]
    if k == "blist":
        return ("list", ANY)
    if k == "bset":
        return ("set", ANY)
    if k == "btuple":
        return ("tupof", ANY)
    if k == "bdict":
        return ("dict", ANY, ANY)
    if k in ("list", "set", "tupof"):
        return (k, canon(t[1]))
    if k == "dict":
        return (k, canon(t[1]), canon(t[2]))
    if k == "tuple":
        return (k, tuple(canon(x) for x in t[1]))
    if k == "union":
        return (k, canon(t[1]), canon(t[2]))
    return t


def merges(t):
    """Which kinds of alternatives some union node of the expression would merge: subset of {'list', 'dict'}.
    (Conservative syntactic test used only to classify a disagreement between implementation and specification.)"""
    out = set()
    k = t[0]
    if k == "union":
        al = [canon(a) for a in union_alts(t)]
        if not any(a == ANY for a in al):
            for kind in ("list", "dict"):
                if len({a for a in al if a[0] == kind}) >= 2:
                    out.add(kind)
        out |= merges(t[1]) | merges(t[2])
    elif k in ("list", "set", "tupof"):
        out |= merges(t[1])
    elif k == "dict":
        out |= merges(t[1]) | merges(t[2])
    elif k == "tuple":
        for x in t[1]:
            out |= merges(x)
    return out


# ---------------------------------------------------------------------------------------------------
# generators

ATOMS = [ANY, NEVER] + [("base", i) for i in range(6)] + [("iter",), ("call",), ("rec", 1), ("rec", 2), ("enum", 1), ("enum", 2),
                                                          ("blist",), ("bdict",), ("bset",), ("btuple",)]


def one_level(parts, parts2=None, with_tuple3=False):
    """All types made of exactly one constructor over `parts` (binary constructors over parts x parts2)."""
    parts2 = parts if parts2 is None else parts2
    out = []
    for a in parts:
        out += [("list", a), ("set", a), ("tupof", a), ("tuple", (a,))]
    out.append(("tuple", ()))
    for a in parts:
        for b in parts2:
            out += [("dict", a, b), ("tuple", (a, b)), ("union", a, b)]
    if with_tuple3:
        for a in parts2:
            for b in parts2:
                for c in parts2:
                    out.append(("tuple", (a, b, c)))
    return out


def rand_type(rng, depth, atoms=ATOMS):
    if depth <= 1 or rng.random() < 0.15:
        return rng.choice(atoms)
    c = rng.choice(["list", "set", "tupof", "dict", "dict", "tuple", "tuple", "union", "union", "union", "union"])
    sub = lambda: rand_type(rng, depth - 1, atoms)   # noqa: E731
    if c in ("list", "set", "tupof"):
        return (c, sub())
    if c == "dict":
        return ("dict", sub(), sub())
    if c == "tuple":
        return ("tuple", tuple(sub() for _ in range(rng.choice([0, 1, 2, 2, 3, 3, 4]))))
    a, b = sub(), sub()
    r = rng.random()
    if r < 0.25:      # make list/list, dict/dict, equal or None alternatives likely: they select special branches
        b = (a[0],) + tuple(sub() for _ in a[1:]) if a[0] in ("list", "set", "tupof", "dict") else b
    elif r < 0.35:
        b = a
    elif r < 0.5:
        b = ("base", 0)
    return ("union", a, b) if rng.random() < 0.5 else ("union", b, a)


HASHABLE_SCALARS = [("none",), ("bool", True), ("bool", False), ("int", 0), ("int", -5), ("bigint", 1 << 70), ("bigint", -(1 << 64)),
                    ("float", 1.5), ("str", ""), ("str", "a"), ("rec", 1), ("rec", 2), ("enumval", 1), ("enumval", 2)]
OPAQUE = [("range",), ("struct",), ("func", "fn"), ("func", "len"), ("func", "lambda x: x"), ("func", '"abc".upper'),
          ("func", "int"), ("rectype", 1), ("rectype", 2), ("enumtype", 1), ("enumtype", 2), ("typeval", "list[int]"),
          ("typeval", "eval_type(int | str)")]


def catalogue():
    i1, s1, n, b, f, g = ("int", 1), ("str", "x"), ("none",), ("bool", True), ("float", 2.0), ("bigint", 1 << 80)
    r1, r2, e1, e2 = ("rec", 1), ("rec", 2), ("enumval", 1), ("enumval", 2)
    c = list(HASHABLE_SCALARS) + list(OPAQUE)
    lists = [(), (i1,), (i1, ("int", 2), g), (s1, ("str", "y")), (i1, s1), (n,), (n, i1), (b, i1), (f,), (r1,), (r1, r2), (e1, e1), (e1, e2),
             (("func", "fn"),), (("range",), ("list", ()))]
    for xs in lists:
        c.append(("list", xs))
        c.append(("tuple", xs))
    for xs in [(), (i1,), (i1, g), (s1,), (i1, s1), (n, i1), (b,), (r1, r2), (e1,), (("tuple", (i1, s1)),)]:
        c.append(("set", xs))
    for kvs in [(), ((i1, i1),), ((i1, s1),), ((s1, i1),), ((s1, s1), (("str", "y"), s1)), ((i1, i1), (s1, s1)), ((i1, s1), (s1, i1)),
                ((n, b),), ((s1, n), (("str", "z"), i1)), ((r1, e1),), ((g, f),), ((("tuple", (i1, s1)), ("list", (i1,))),)]:
        c.append(("dict", kvs))
    # nested to depth 3, heterogeneous inside
    c += [("list", (("list", (i1,)), ("list", (s1,)))), ("list", (("list", (i1, s1)),)), ("list", (("list", ()), ("list", (("list", (i1,)),)))),
          ("list", (("tuple", (i1, s1)), ("tuple", (i1, s1)))), ("list", (("tuple", (i1, s1)), ("tuple", (s1, i1)))),
          ("tuple", (("list", (i1,)), ("dict", ((s1, i1),)))), ("tuple", (i1, s1, n)), ("tuple", (i1, s1, n, b)), ("tuple", (g, s1)),
          ("tuple", (("tuple", ()), ("tuple", (i1,)))), ("tuple", (("tuple", (("tuple", (i1,)),)),)),
          ("dict", ((s1, ("list", (i1,))), (("str", "y"), ("list", ())))), ("dict", ((s1, ("list", (i1,))), (("str", "y"), ("list", (s1,))))),
          ("dict", ((i1, ("dict", ((s1, ("set", (i1,))),))),)), ("list", (("dict", ((i1, i1),)), ("dict", ((s1, s1),)))),
          ("list", (("set", (i1,)), ("set", (s1,)))), ("set", (("tuple", (i1, ("tuple", (s1,)))),)),
          ("list", (("dict", ()), ("dict", ((i1, ("list", (n,))),)))), ("tuple", (r1, e1)), ("tuple", (r2, e2)), ("list", (n, ("list", (n,))))]
    seen, out = set(), []
    for v in c:
        if v not in seen:
            seen.add(v)
            out.append(v)
    return out


def hashable(v):
    k = v[0]
    if k in ("list", "set", "dict", "struct", "range"):
        return False
    if k == "tuple":
        return all(hashable(x) for x in v[1])
    return True


def distinct(vs):
    seen, out = set(), []
    for v in vs:
        key = val_text(v)
        if key not in seen:
            seen.add(key)
            out.append(v)
    return tuple(out)


def rand_value(rng, depth, need_hash=False):
    """A random value, heterogeneous containers likely."""
    if depth <= 1 or rng.random() < 0.3:
        pool = HASHABLE_SCALARS if need_hash or rng.random() < 0.7 else OPAQUE
        return rng.choice(pool)
    c = rng.choice(["tuple"] if need_hash else ["list", "list", "tuple", "tuple", "set", "dict", "dict"])
    n = rng.choice([0, 1, 1, 2, 2, 3])
    if c in ("list", "tuple"):
        return (c, tuple(rand_value(rng, depth - 1, need_hash) for _ in range(n)))
    if c == "set":
        return ("set", distinct([rand_value(rng, depth - 1, True) for _ in range(n)]))
    ks = distinct([rand_value(rng, depth - 1, True) for _ in range(n)])
    return ("dict", tuple((k, rand_value(rng, depth - 1)) for k in ks))


def member(t, rng, depth=3, need_hash=False):
    """A value meant to belong to t (best effort; falls back to a random value)."""
    k = t[0]
    if k == "any" or k == "never" or depth <= 0:
        return rand_value(rng, 2, need_hash)
    if k == "base":
        return {0: ("none",), 1: ("bool", rng.random() < 0.5), 2: ("float", 0.5), 3: rng.choice([("int", 3), ("bigint", 1 << 90)]),
                4: ("range",), 5: ("str", rng.choice(["", "q"]))}[t[1]]
    if k == "iter":
        return rng.choice([("list", ()), ("tuple", (("int", 1),)), ("range",), ("enumtype", 1)] if not need_hash else [("tuple", ())])
    if k == "call":
        return rng.choice(OPAQUE[2:11])
    if k in ("rec",):
        return ("rec", t[1])
    if k == "enum":
        return ("enumval", t[1])
    n = rng.choice([0, 1, 2, 2, 3])
    if k in ("list", "blist"):
        return ("list", tuple(member(t[1] if k == "list" else ANY, rng, depth - 1) for _ in range(n)))
    if k in ("tupof", "btuple"):
        return ("tuple", tuple(member(t[1] if k == "tupof" else ANY, rng, depth - 1, need_hash) for _ in range(n)))
    if k in ("set", "bset"):
        return ("set", distinct([x for x in (member(t[1] if k == "set" else ANY, rng, depth - 1, True) for _ in range(n)) if hashable(x)]))
    if k in ("dict", "bdict"):
        ks = distinct([x for x in (member(t[1] if k == "dict" else ANY, rng, depth - 1, True) for _ in range(n)) if hashable(x)])
        return ("dict", tuple((a, member(t[2] if k == "dict" else ANY, rng, depth - 1)) for a in ks))
    if k == "tuple":
        return ("tuple", tuple(member(x, rng, depth - 1, need_hash) for x in t[1]))
    if k == "union":
        return member(t[1] if rng.random() < 0.5 else t[2], rng, depth, need_hash)
    raise ValueError(t)


def mutate(v, rng):
    """A near miss: one position of v replaced / added / removed."""
    k = v[0]
    if k in ("list", "tuple") and v[1] and rng.random() < 0.8:
        xs = list(v[1])
        i = rng.randrange(len(xs))
        r = rng.random()
        if r < 0.5:
            xs[i] = mutate(xs[i], rng)
        elif r < 0.75:
            del xs[i]
        else:
            xs.insert(i, rand_value(rng, 1, k == "tuple" and not all(hashable(x) for x in xs)))
        return (k, tuple(xs))
    if k == "dict" and v[1] and rng.random() < 0.8:
        kvs = list(v[1])
        i = rng.randrange(len(kvs))
        if rng.random() < 0.5:
            kvs[i] = (kvs[i][0], mutate(kvs[i][1], rng))
        else:
            nk = rng.choice(HASHABLE_SCALARS)
            if val_text(nk) not in {val_text(a) for a, _ in kvs}:
                kvs[i] = (nk, kvs[i][1])
        return ("dict", tuple(kvs))
    if k == "set" and v[1] and rng.random() < 0.8:
        return ("set", distinct(list(v[1]) + [rng.choice(HASHABLE_SCALARS)]))
    return rand_value(rng, 2)


def make_case(t, vals):
    return {"ty": ty_text(t), "tyx": ty_text(t, True), "vals": [val_text(v) for v in vals], "_t": t, "_v": list(vals)}


def gen_cases(ctx, deep=False):
    """-> list of cases; each case = one type x a list of values."""
    rng = ctx.rng
    cat = catalogue()
    cases = []
    # (1) exhaustive: every type expression of depth <= 2 (one constructor over the atoms) x the whole catalogue
    d2 = list(ATOMS) + one_level(ATOMS)
    for t in d2:
        cases.append(make_case(t, cat))
    n_exh = len(cases)
    # (2) depth 3: one constructor over a sample of depth-2 types; catalogue sample + directed members and near misses
    small_atoms = [ANY, NEVER, ("base", 0), ("base", 3), ("base", 5), ("base", 1), ("rec", 1), ("enum", 2), ("blist",), ("iter",)]
    d2s = one_level(small_atoms)
    n3 = ctx.n(3000, 60000) if not deep else 20000
    for _ in range(n3):
        r = rng.random()
        if r < 0.6:
            parts = [rng.choice(d2s) if rng.random() < 0.7 else rng.choice(ATOMS) for _ in range(3)]
            t = rng.choice(one_level(parts[:1], parts[1:2]) + [("tuple", tuple(parts)), ("union", ("union", parts[0], parts[1]), parts[2]),
                                                                ("union", parts[0], ("union", parts[1], parts[2]))])
        else:
            t = rand_type(rng, 3 if not deep else rng.choice([3, 4, 5]))
        vals = rng.sample(cat, ctx.n(12, 20))
        for _ in range(ctx.n(6, 10)):
            m = member(t, rng)
            vals.append(m)
            vals.append(mutate(m, rng))
        cases.append(make_case(t, list(distinct(vals))))
    return cases, n_exh


# ---------------------------------------------------------------------------------------------------

def load_corpus():
    d = os.path.join(sv.ROOT, "corpus", PROP)
    out = []
    if os.path.isdir(d):
        for f in sorted(os.listdir(d)):
            if f.endswith(".jsonl"):
                for line in open(os.path.join(d, f)):
                    line = line.strip()
                    if line and not line.startswith("#"):
                        c = json.loads(line)
                        out.append(make_case(to_tuple(c["t"]), [to_tuple(v) for v in c["vs"]]))
    return out


def to_tuple(x):
    if isinstance(x, list):
        return tuple(to_tuple(y) for y in x)
    return x


def evaluate(ctx, cases, tag="types"):
    """Run implementation (all paths), extracted Coq model + Coq spec, Python spec; triage."""
    failures, broken = [], []
    wire = [{"ty": c["ty"], "tyx": c["tyx"], "vals": c["vals"]} for c in cases]
    rc, log, res = sv.run_harness_sharded(ctx, "types", wire, timeout=1500)
    ctx.log("harness done: %d types, %d pairs" % (len(cases), sum(len(c["vals"]) for c in cases)))
    if rc != 0:
        failures.append({"key": "harness-crash", "what": "types harness exited with %s: %s" % (rc, log[-300:]), "replay": {"rc": rc}})
    okd, exe = sv.ocaml_driver("Extract/TyX.vo", "ty_model", "ty_driver")
    model = [None] * len(cases)
    if not okd:
        broken.append(("model-run-failed", "could not build the extracted model: " + exe[-300:]))
    else:
        lines = ["%d %s ; %s" % (i, ty_tokens(c["_t"]), " ; ".join(val_tokens(v) for v in c["_v"])) if c["_v"] else "%d %s" % (i, ty_tokens(c["_t"]))
                 for i, c in enumerate(cases)]
        okr, outl = sv.run_driver_sharded(ctx, exe, lines, tag, timeout=600)
        done = sum(int(l.split()[1]) for l in outl if l.startswith("done "))
        if not okr or done != len(lines):
            broken.append(("model-run-failed", "extracted model driver failed (%d of %d lines): %s" % (done, len(lines), outl[-3:])))
        for l in outl:
            if l.startswith("done "):
                continue
            p = l.split()
            model[int(p[0])] = (p[1], p[2] if len(p) > 2 else "")
        ctx.log("extracted Coq model evaluated %d types" % done)
    st = {"pairs": 0, "answers": 0, "accepted": 0, "rejected": 0, "model_pairs": 0, "matrix": {}, "spec_py_vs_coq": 0,
          "nontrivial": set(), "wf_fail": 0, "not_merge_free": 0, "union_merge_pairs": 0}
    for i, (c, r) in enumerate(zip(cases, res)):
        t = c["_t"]
        if r is None or "panic" in (r or {}) or "rows" not in (r or {}):
            failures.append({"key": "case-rejected:%s" % ty_ctor(t) if r and "err" in r else "harness-no-result",
                             "what": "type expression `%s` (or one of its values) could not be evaluated: %s" % (c["ty"], r),
                             "replay": {"case": {"t": t, "vs": c["_v"][:3]}, "impl": r}})
            continue
        md = model[i]
        if md is not None:
            if md[0][0] != "1":
                st["wf_fail"] += 1
                broken.append(("normalize-wf", "model: normalize(%s) violates wf_ty" % c["ty"]))
            if md[0][1] != "1":
                st["not_merge_free"] += 1
        mg = merges(t)
        for j, (v, row) in enumerate(zip(c["_v"], r["rows"])):
            st["pairs"] += 1
            flat = row.replace("|", "")
            st["answers"] += len(flat)
            sp = denote(t, v)
            key_cell = "%s x %s" % (ty_ctor(t), val_kind(v))
            st["matrix"][key_cell] = st["matrix"].get(key_cell, 0) + 1
            rep = {"case": {"t": t, "vs": [v]}, "type": c["ty"], "value": c["vals"][j], "paths": row, "spec": sp}
            if len(flat) != NPATHS or "E" in flat:
                names = [n for grp in PATHS for n in grp]
                bad = [names[k] for k, ch in enumerate(flat) if ch == "E"][:4]
                failures.append({"key": "path-error:%s" % ty_ctor(t), "what": "a check path failed for a reason other than the type check: "
                                 "type `%s` value `%s` paths %s (%s)" % (c["ty"], c["vals"][j], row, bad), "replay": rep})
                continue
            if len(set(flat)) != 1:
                names = [n for grp in PATHS for n in grp]
                minority = "1" if flat.count("1") * 2 < len(flat) else "0"
                odd = [names[k] for k, ch in enumerate(flat) if ch == minority][:6]
                failures.append({"key": "paths-disagree:%s" % ty_ctor(t),
                                 "what": "check paths disagree for type `%s` value `%s`: %s; the paths answering %s are %s; specification %s"
                                         % (c["ty"], c["vals"][j], row, minority, odd, sp), "replay": rep})
                continue
            impl = flat[0] == "1"
            st["accepted" if impl else "rejected"] += 1
            if ty_depth(t) > 1 or v[0] in ("list", "tuple", "set", "dict"):
                st["nontrivial"].add((c["ty"], c["vals"][j]))
            m_spec = m_norm = m_chk = m_nomerge = None
            if md is not None and len(md[1]) >= 4 * (j + 1):
                m_spec, m_norm, m_chk, m_nomerge = [ch == "1" for ch in md[1][4 * j:4 * j + 4]]
                st["model_pairs"] += 1
                rep.update({"model_check": m_chk, "model_normalised_meaning": m_norm, "coq_spec": m_spec})
                if m_spec != sp:
                    st["spec_py_vs_coq"] += 1
                    broken.append(("spec-transcription", "Python and Coq specification differ on `%s` / `%s`" % (c["ty"], c["vals"][j])))
                if m_norm != m_chk:
                    broken.append(("compile-correct", "model: matches(compile(normalize t)) != denote(normalize t) on `%s` / `%s`"
                                   % (c["ty"], c["vals"][j])))
            if m_chk is not None and impl != m_chk:
                failures.append({"key": "model-differs:%s" % ty_ctor(t),
                                 "what": "type `%s` value `%s`: implementation (all %d paths) %s, Coq model %s, specification %s"
                                         % (c["ty"], c["vals"][j], NPATHS, impl, m_chk, sp), "replay": rep})
            elif impl != sp:
                if mg and m_nomerge == sp:
                    kind = "list" if "list" in mg else "dict"
                    st["union_merge_pairs"] += 1
                    failures.append({"key": "union-merge:%s" % kind,
                                     "what": "type `%s` value `%s`: every check path answers %s but the documented meaning of `A | B` gives %s "
                                             "(Ty::unions merges the %s alternatives of a union; the model predicts the implementation's answer)"
                                             % (c["ty"], c["vals"][j], impl, sp, kind), "replay": rep})
                else:
                    failures.append({"key": "spec-differs:%s" % ty_ctor(t),
                                     "what": "type `%s` value `%s`: implementation (all paths) and model answer %s, specification %s"
                                             % (c["ty"], c["vals"][j], impl, sp), "replay": rep})
    # keep the shortest witness first for every key
    failures.sort(key=lambda f: (f["key"], len(str(f.get("replay", {}).get("type", ""))) + len(str(f.get("replay", {}).get("value", "")))))
    seen_b, b2 = set(), []
    for b in broken:
        if b[0] not in seen_b:
            seen_b.add(b[0])
            b2.append(b)
    return failures, b2, st


def coverage(cases, n_exh, st):
    ctors = {}
    for c in cases:
        ctors[ty_ctor(c["_t"])] = ctors.get(ty_ctor(c["_t"]), 0) + 1
    tcs = sorted({k.split(" x ")[0] for k in st["matrix"]})
    vks = sorted({k.split(" x ")[1] for k in st["matrix"]})
    missing = [a + " x " + b for a in tcs for b in vks if (a + " x " + b) not in st["matrix"]]
    return {
        "evaluations": st["answers"],
        "pairs": st["pairs"],
        "distinct_nontrivial": len(st["nontrivial"]),
        "rule": "every type expression of depth <= 2 (atoms = depth 1: typing.Any, typing.Never, None, bool, float, int, range, str, typing.Iterable, "
                "typing.Callable, two record and two enum declarations of equal shape, bare list/dict/set/tuple; depth 2 = one of list[] set[] "
                "tuple[..., ...] dict[,] () (a,) (a, b) a | b over all atoms / atom pairs) x the whole value catalogue (exhaustive part), plus sampled "
                "depth >= 3 types x catalogue sample + type-directed members and near misses; every pair is answered by %d paths "
                "(7 live, 10 frozen type+value, 9 frozen type with fresh values); evaluations = path answers; non-trivial = the type has a "
                "constructor or the value is a container; distinct by (type text, value text)" % NPATHS,
        "traces_validated_against_impl": st["model_pairs"],
        "exhaustive_types": n_exh,
        "sampled_types": len(cases) - n_exh,
        "accepted": st["accepted"], "rejected": st["rejected"],
        "input_distribution": {"top_level_constructor": ctors},
        "type_constructor_x_value_kind_hit": len(st["matrix"]),
        "type_constructor_x_value_kind_missing": missing[:50],
        "type_constructor_x_value_kind": st["matrix"],
        "types_not_merge_free": st["not_merge_free"],
        "union_merge_pairs": st["union_merge_pairs"],
        "exhaustive": False,
        "samples": [{"ty": c["ty"], "vals": c["vals"][:4]} for c in (cases[0], cases[n_exh // 2], cases[n_exh - 1], cases[-1])] if cases else [],
    }


def correspond(ctx):
    corpus = load_corpus()
    cases, n_exh = gen_cases(ctx)
    cases = corpus + cases
    n_exh += len(corpus)
    ctx.log("generated %d types (%d exhaustive depth<=2 incl. %d corpus), %d pairs" % (len(cases), n_exh, len(corpus), sum(len(c["vals"]) for c in cases)))
    failures, broken, st = evaluate(ctx, cases)
    ctx.log("pairs=%d path answers=%d accepted=%d rejected=%d model pairs=%d failures=%d broken=%s"
            % (st["pairs"], st["answers"], st["accepted"], st["rejected"], st["model_pairs"], len(failures), [b[0] for b in broken]))
    return {"coverage": coverage(cases, n_exh, st), "failures": failures, "broken": broken}


def search(ctx, broken):
    """A proof obligation or the tie broke: deeper random types/values against `denote`."""
    old = ctx.tier
    ctx.tier = "thorough"
    try:
        cases, n_exh = gen_cases(ctx, deep=True)
        cases = cases[n_exh:]
        failures, _, st = evaluate(ctx, cases, tag="search")
    finally:
        ctx.tier = old
    return {"failures": failures, "coverage": {"evaluations": st["answers"], "pairs": st["pairs"]}}


def replay(ctx, rep):
    c = (rep.get("replay") or {}).get("case")
    if not c:
        return {"coverage": {}, "failures": []}
    case = make_case(to_tuple(c["t"]), [to_tuple(v) for v in c["vs"]])
    failures, broken, st = evaluate(ctx, [case], tag="replay")
    return {"coverage": {"evaluations": st["answers"], "distinct_nontrivial": len(st["nontrivial"]), "samples": [{"ty": case["ty"], "vals": case["vals"]}]},
            "failures": failures, "broken": broken}


META = {
    "category": "proof",
    "level_text": "Full for the mechanism, with one refuted clause whose exact domain of validity is proved. Coq theorems (Properties/C16.v, closed under "
                  "the global context): the matcher chosen by the factory model accepts exactly denote(t) for every normalised type "
                  "(C16_compile_correct, all specialisations: list/set/dict wildcard collapse, str fast paths, None|X, union of two, n-ary union, "
                  "tuple arities 0/1/2/n); normalisation always produces a type satisfying the factory's invariant (C16_normalize_wf) and never "
                  "loses a value (C16_normalize_widens). The clause `denote_raw t v = denote (normalize t) v` is REFUTED in general by the faithful "
                  "model (C16_normalize_denote_refuted: list[int] | list[str] accepts [1, \"a\"]; the implementation shows the same behaviour on "
                  "every path, reported as union-merge:list / union-merge:dict) and PROVED on every type expression that is merge_free, i.e. no "
                  "union brings together two list types or two dict types after flatten/sort/dedup: there the real normalisation equals the "
                  "merge-less one (C16_merge_free_normalize), preserves the written meaning (C16_normalize_denote_merge_free) and every check "
                  "answers denote_raw exactly (C16_check_exact_merge_free); C16_normalize_denote_partial covers the merge-less normalisation of "
                  "all types. Check paths are now modelled separately, not as one `check`: ordinary evaluation at call time (at/at2/bit_or with "
                  "Ty::union2, TypeCompiled::new) for isinstance and the host API, the restricted def-time evaluator (type_any_of = Ty::unions, "
                  "compiler_ty, from_ty, no check for a run-time wildcard, to_frozen) for parameter/return/assignment annotations, an alias to an "
                  "already compiled frozen type, and new_frozen; C16_paths_agree / C16_paths_agree_frozen_host_and_alias prove that all of them "
                  "answer `check t v` (using C16_union2_is_unions: union2 = unions [a; b] on normalised types, C16_compiler_ty_normalize, "
                  "C16_isinstance_matcher). Freezing: C16_freeze_ty_tags_only, C16_freeze_val_tags_only, C16_freeze_invariant and "
                  "C16_freeze_invariant_sites prove that to_frozen keeps ty and matcher and the freezer changes only representation tags that "
                  "no matcher reads. Still modelled rather than proved: that the Rust unpackers (ListRef/DictRef/Tuple/SetRef/Record::from_value) "
                  "ignore the frozen tag is the definition of `view` (held to the code by the frozen/mixed paths of the tie, not by proof). "
                  "The model is tied to /repo on every run through 28 check paths per pair.",
    "level_note": "Trusted: Coq kernel; extraction (ExtrOcamlBasic only) + ocaml/ty_driver.ml; harness bin types; the two printers of "
                  "tools/props/C16.py. Modelled rather than verified: scalars are abstracted to their kind; the order of union alternatives; "
                  "`type`, struct types, Callable signatures and host-defined types are outside the universe. The tie is differential testing "
                  "(exhaustive at depth <= 2, sampled above), so a change that only affects an unsampled deep shape can escape.",
    "technique": "Coq proof of compile(normalize t) against denote; extracted model + extracted spec vs 28 run-time check paths of the real library",
    "design_ref": "DESIGN.md section 4 C16",
}
