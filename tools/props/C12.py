"""C12 A container cannot be mutated while iterated and is released when iteration ends.

Proof: coq/Lock/{Model,Bc,Proofs}.v + Properties/C12.v (iteration counts, guard-first mutators, structured programs
compiled to the Iter/Continue/Break/IterStop/Return skeleton; balance on every non-error exit; the error exit is
REFUTED for the interpreter as the code is and proved for a repaired one).
Tie: the finite product  container kind x iterating construct x mutating operation x alias x exit x nesting depth x
module/def  is rendered twice from one abstract description - as Starlark source run on the real evaluator (harness bin
`eval`: the program, then on the SAME module/evaluator: read the content, attempt the mutation, read the content) and as
a Gallina program run by vm_compute on both interpreters of Lock/Bc.v (Lock/Cases.v) - and compared with the
specification computed here (the loop outcome, content intact, later mutation succeeds with the reference result).
The way a def is left is a factor of its own ("def shape"): the bytecode compiler has one return path per shape of the def
and of the returned expression (InstrReturn / InstrReturnConst / InstrReturnCheckType when a return type is declared / the
implicit return at the end of the body) and the evaluator one call path per shape of the call site, so the exits
`return`, `return` with a failing return-type check and every other exit are crossed with: declared return type, annotated
parameters, kind of returned expression (constant, None, nothing, a local, an expression reading the iterated container, a
fresh list, a native iteration of the container), explicit/implicit return at the end of the def, position of the `return`
in the loop body, and the call path (direct, through a variable, lambda-wrapped, named / *args, nested def, native callback,
frozen module + load()).
Two more factors, each a block of the product: "overlap" - a second iteration of the SAME container (same object through one or
two names: nested for, for left by break, list/dict/2-clause comprehension, every iterating native) starts and ends inside the
iteration under test, one or two levels deep, BEFORE the mutation attempt (the lock is a counter: the attempt must still be refused,
Lock/Nested.v nested_keeps_locked / trace_blocked; a stop that resets the count is refuted there); "position" - the element at which
the body or the callback of a native consumer (every native with an `invoke_pos` call site in the sources: sorted/min/max(key=), map,
filter - check_callback_catalogue) attempts the mutation: first, middle, LAST of three, the only one of a one-element container
(Lock/Nested.v consumer_callback_blocked; a consumer that stops before the last element's callback is refuted there)."""
import itertools
import json
import os
import re

import sv

PROP = "C12"
HARNESS_BINS = ["eval"]
COQ_TARGETS = ["Properties/C12.vo", "Lock/Cases.vo"]
TRUSTED = ["tools/props/C12.py: the two renderers of one abstract program (Starlark source / Gallina term of Lock/Bc.v) and the "
           "reference semantics of the mutators used as specification",
           "cases.v route: the model is evaluated by vm_compute inside coqc (Lock/Cases.v)",
           "Lock/Bc.v abstracts the bytecode to a tree-shaped skeleton (a loop instruction carries its body; jumps are the "
           "signals Next/Brk/Cont/Ret/Error of a big-step interpreter); the iterator slot of a loop is identified with the container "
           "(for a list: its backing array, which cannot be replaced while the count is non-zero)",
           "harness bin eval (`then` sources evaluated on the same Evaluator and Module after a failure)",
           "Lock/Nested.v sees overlapping iterations and native consumers as traces of start / stop / attempt events on one container "
           "(the tie runs the corresponding programs on both interpreters of Lock/Bc.v and on the implementation)"]
ASSUMPTIONS = ["the static empty array (VALUE_EMPTY_ARRAY) is exempt from counting in the code; the model counts uniformly because a list "
               "backed by it is empty and its iteration ends before any user code runs (empty containers are part of the corpus)",
               "`return <expr>` evaluates <expr> after the InstrIterStop sequence; the model's return carries no expression (the tie "
               "returns constants, locals, expressions reading the iterated container and native iterations of it, none of which mutates)",
               "a return-type check that fails (InstrReturnCheckType) is an error raised after the frame's loops have been stopped: signal "
               "RetErr of Lock/Bc.v; parameter annotations and the call path are not in the model (one SCall per call, one more for a "
               "lambda wrapper): those factors are covered by the tie against the specification only",
               "Starlark has no exception handling: a mutation attempt during iteration can only be observed as an error that leaves "
               "the loop and is caught by the host, so 'during' observations coincide with the error exit",
               "the tie is exhaustive over the stated finite product (thorough tier) or a pairwise-covering sample of it (quick tier); "
               "programs outside the product's shapes are covered by the Coq theorems only through the modelled skeleton"]

# ------------------------------------------------------------------------------------------------
# the factors of the product

INIT = {"list": [1, 2, 3], "dict": [(1, 10), (2, 20), (3, 30)], "set": [1, 2, 3]}
LIT = {"list": "[1, 2, 3]", "dict": "{1: 10, 2: 20, 3: 30}", "set": "set([1, 2, 3])"}
LIT_EMPTY = {"list": "[]", "dict": "{}", "set": "set()"}

# name -> (Starlark statement with receiver R, Gallina op)
OPS = {
    "list": [("append", "R.append(7)", "(LAppend 7)"), ("clear", "R.clear()", "LClear"), ("extend", "R.extend([7, 8])", "(LExtend [7; 8])"),
             ("insert", "R.insert(1, 7)", "(LInsert 1 7)"), ("pop", "R.pop()", "LPop"), ("remove", "R.remove(2)", "(LRemove 2)"),
             ("setitem", "R[1] = 7", "(LSetAt 1 7)"), ("augitem", "R[1] += 5", "(LSetAtAug 1 5)"),
             ("addassign", "R += [7, 8]", "(LAddAssign [7; 8])")],
    "dict": [("clear", "R.clear()", "DClear"), ("pop", "R.pop(2)", "(DPop 2)"), ("popitem", "R.popitem()", "DPopitem"),
             ("setdefault", "R.setdefault(7, 70)", "(DSetdefault 7 70)"), ("update", "R.update({2: 21, 7: 70})", "(DUpdate [(2, 21); (7, 70)])"),
             ("setitem", "R[7] = 70", "(DSetAt 7 70)"), ("setitem-existing", "R[2] = 21", "(DSetAt 2 21)"),
             ("augitem", "R[2] += 5", "(DSetAtAug 2 5)"), ("bitorassign", "R |= {7: 70}", "(DBitOrAssign [(7, 70)])")],
    "set": [("add", "R.add(7)", "(SAdd 7)"), ("add-existing", "R.add(2)", "(SAdd 2)"), ("clear", "R.clear()", "SClear"),
            ("discard", "R.discard(2)", "(SDiscard 2)"), ("pop", "R.pop()", "SPop"), ("remove", "R.remove(2)", "(SRemove 2)"),
            ("update", "R.update([7, 8])", "(SUpdate [7; 8])")],
}
# methods reported by dir(value): which are mutators (must all be in OPS) and which are known not to mutate
METHOD_OF_OP = {"setitem": None, "augitem": None, "addassign": None, "setitem-existing": None, "bitorassign": None, "add-existing": "add"}
NON_MUTATING = {"list": {"index"}, "dict": {"get", "items", "keys", "values"},
                "set": {"difference", "intersection", "issubset", "issuperset", "symmetric_difference", "union", "isdisjoint"}}

LOOPS = ["for", "nested-for", "list-compr", "dict-compr", "list-compr-2nd-clause"]
CB_BUILTINS = ["sorted-key", "min-key", "max-key", "map", "filter"]
FREE_BUILTINS = ["any", "all", "enumerate", "zip", "list", "tuple", "sorted", "reversed", "set", "extend", "set-update", "dict-update", "dict"]
EXITS = {"for": ["exhaustion", "continue", "break", "return", "fail", "mutate"],
         "nested-for": ["exhaustion", "continue", "break", "return", "fail", "mutate"],
         "list-compr": ["exhaustion", "continue", "fail", "mutate"],
         "dict-compr": ["exhaustion", "continue", "fail", "mutate"],
         "list-compr-2nd-clause": ["exhaustion", "continue", "fail", "mutate"]}
for _b in CB_BUILTINS:
    EXITS[_b] = ["exhaustion", "fail", "mutate"]
for _b in FREE_BUILTINS:
    EXITS[_b] = ["exhaustion"]
EXITS["any"] = ["early-stop"]
BUILTIN_COQ = {"sorted-key": "BSorted", "min-key": "BMin", "max-key": "BMax", "map": "BMap", "filter": "BFilter", "any": "BAny", "all": "BAll",
               "enumerate": "BEnumerate", "zip": "BZip", "list": "BListOf", "tuple": "BTupleOf", "sorted": "BSorted", "reversed": "BReversed",
               "set": "BSetOf", "extend": "BExtend", "set-update": "BUpdate", "dict-update": "BUpdate", "dict": "BDictOf"}


# ------------------------------------------------------------------------------------------------
# factor "overlap": a second iteration of the SAME container (through the same or another name) that starts and ends inside the
# iteration under test, before the mutation attempt.  name -> (Starlark lines with N = the iterated name, Gallina statement)
INNERS = {
    "for": (["for j in N:", "    pass"], "SFor 0 BNil"),
    "for-break": (["for j in N:", "    if j == 2:", "        break"], "SFor 0 (blk [SIf 1 (blk [SBreak]) BNil])"),
    "list-compr": (["_q = [j for j in N]"], "SFor 0 BNil"),
    "dict-compr": (["_q = {j: 0 for j in N}"], "SFor 0 BNil"),
    "list-compr-2": (["_q = [j for j in N for k in M]"], "SFor 0 (blk [SFor 0 BNil])"),
    "sorted": (["_q = sorted(N)"], "SBuiltin BSorted None 0 BNil"),
    "list": (["_q = len(list(N))"], "SBuiltin BListOf None 0 BNil"),
    "tuple": (["_q = tuple(N)"], "SBuiltin BTupleOf None 0 BNil"),
    "min": (["_q = min(N)"], "SBuiltin BMin None 0 BNil"),
    "max": (["_q = max(N)"], "SBuiltin BMax None 0 BNil"),
    "any": (["_q = any(N)"], "SBuiltin BAny (Some 1%nat) 0 BNil"),
    "all": (["_q = all(N)"], "SBuiltin BAll None 0 BNil"),
    "enumerate": (["_q = enumerate(N)"], "SBuiltin BEnumerate None 0 BNil"),
    "zip": (["_q = zip(N, M)"], "SBuiltin BZip None 0 BNil"),
    "reversed": (["_q = reversed(N)"], "SBuiltin BReversed None 0 BNil"),
    "set": (["_q = set(N)"], "SBuiltin BSetOf None 0 BNil"),
    "extend": (["_q = [0]", "_q.extend(N)"], "SBuiltin BExtend None 0 BNil"),
    "map-filter": (["_q = filter(lambda e: e != 2, map(lambda e: e, N))"], "SBuiltin BMap None 0 BNil"),
    "sorted-key-nested": (["_q = sorted(N, key=lambda e: len(list(M)))"], "SBuiltin BSorted None 0 (blk [SBuiltin BListOf None 0 BNil])"),
}
INNER_MAIN = ["for-break", "list-compr", "sorted"]      # crossed with every operation; the others with a few operations
# the natives that call a Starlark callable per element of what they iterate: repo file -> number of `invoke_pos(` call sites
# (min_max.rs: min/max with key=, twice in one body; other.rs: sorted with key=; extra.rs: filter, map) - all in CB_BUILTINS
CALLBACK_SITES = {"starlark/src/stdlib/funcs/min_max.rs": 2, "starlark/src/stdlib/funcs/other.rs": 1, "starlark/src/stdlib/extra.rs": 2}


def init_of(c):
    if c.get("empty"):
        return []
    return INIT[c["kind"]][:c.get("size", 3)]


def lit_of(c):
    v = init_of(c)
    if c["kind"] == "list":
        return "[%s]" % ", ".join(str(e) for e in v)
    if c["kind"] == "dict":
        return "{%s}" % ", ".join("%d: %d" % e for e in v)
    return "set([%s])" % ", ".join(str(e) for e in v)


def inner_render(c, n0, n1):
    """The overlapping iteration of a case: (Starlark lines, Gallina statements); n0/n1 = the two names of the container in scope."""
    name = c.get("inner")
    if not name:
        return [], []
    N, M = (n1, n0) if c.get("ialias") else (n0, n1)
    lines, coq = INNERS[name]
    lines = [re.sub(r"\bN\b", N, re.sub(r"\bM\b", M, l)) for l in lines]
    if c.get("idepth", 1) == 2:         # one more level: the inner iteration runs inside a for over the other name
        lines = ["for k2 in %s:" % M] + ind(lines)
        coq = "SFor 0 (blk [%s])" % coq
    return lines, [coq]


# ------------------------------------------------------------------------------------------------
# "def shape": how the def that contains the loop is declared, left and called (only for ctx == "def")

RTYPES = ["", "int", "None", "list[int]", "typing.Any"]
# (declared return type, kind of returned expression, explicit return statement at the end of the def)
RET = [("", "const", 0), ("", "const", 1), ("", "none", 0), ("", "bare", 0), ("", "bare", 1), ("", "local", 0), ("", "expr", 1),
       ("", "list", 0), ("", "listx", 0),
       ("int", "const", 1), ("int", "local", 1), ("int", "expr", 1),
       ("None", "none", 0), ("None", "bare", 0), ("None", "bare", 1), ("None", "none", 1),
       ("list[int]", "list", 1), ("list[int]", "listx", 1),
       ("typing.Any", "const", 0), ("typing.Any", "bare", 1), ("typing.Any", "local", 0), ("typing.Any", "expr", 0), ("typing.Any", "listx", 1)]
# a return whose value does not have the declared type (error raised by InstrReturnCheckType)
RET_BAD = [("int", "bad", 1), ("None", "bad", 0), ("None", "bad", 1), ("list[int]", "bad", 1), ("list[int]", "badelem", 1)]
# exits other than return: what the def does after the loop (tail = 0: falls off the end, the implicit return)
RET_TAIL = [("", "const", 0), ("", "const", 1), ("", "local", 1), ("", "expr", 1), ("int", "const", 1), ("int", "expr", 1),
            ("None", "none", 0), ("None", "bare", 1), ("list[int]", "list", 1), ("list[int]", "listx", 1),
            ("typing.Any", "const", 0), ("typing.Any", "const", 1)]
RPOS = ["if", "direct", "else", "after-compr", "nested-if"]
CALLS = ["direct", "var", "lambda", "named", "star", "nested-def", "native-cb", "frozen"]
CALLS_TAIL = ["direct", "lambda", "named", "frozen"]
PTYPE = {"list": "list[int]", "dict": "dict[int, int]", "set": "set[int]"}
SHAPE_OPS = {"list": ["append", "setitem"], "dict": ["setitem"], "set": ["add"]}     # (every operation is in the base product)
SHAPE_DEFAULT = {"rtype": "", "rval": "const", "tail": 0, "rpos": "if", "ptype": 0, "call": "direct"}


def shape_blocks():
    """The def-shape part of the product as Cartesian blocks: name -> list of (factor name, values); a factor whose name is a
    tuple sets several fields of the description at once (values that only make sense together)."""
    kindop = [(k, o) for k in ("list", "dict", "set") for o in SHAPE_OPS[k]]
    cev = []
    for construct in LOOPS:
        for ex in EXITS[construct]:
            if ex.startswith("return"):
                continue
            for via in (["inline", "callee"] if (construct in ("for", "nested-for") and ex in ("fail", "mutate")) else ["inline"]):
                cev.append((construct, ex, via))
    return {
        "return": [(("kind", "op"), kindop), ("construct", ["for", "nested-for"]), ("exit", ["return"]), ("via", ["inline"]), ("ctx", ["def"]),
                   ("depth", [1, 2, 3]), ("alias", [0, 1]), (("rtype", "rval", "tail"), RET), ("rpos", RPOS), ("ptype", [0, 1]), ("call", CALLS)],
        "return-badtype": [(("kind", "op"), kindop), ("construct", ["for", "nested-for"]), ("exit", ["return-badtype"]), ("via", ["inline"]),
                           ("ctx", ["def"]), ("depth", [1, 2, 3]), ("alias", [1]), (("rtype", "rval", "tail"), RET_BAD), ("rpos", RPOS),
                           ("ptype", [0, 1]), ("call", CALLS)],
        "other-exits": [(("kind", "op"), kindop), (("construct", "exit", "via"), cev), ("ctx", ["def"]), ("depth", [1, 2, 3]), ("alias", [0]),
                        (("rtype", "rval", "tail"), RET_TAIL), ("rpos", ["if"]), ("ptype", [0, 1]), ("call", CALLS_TAIL)],
    }


def family_blocks():
    """The two factors added to the base product, as Cartesian blocks (same treatment as the def-shape blocks):
    overlap-*: a second iteration of the same container (one or two names, one or two levels deep) comes and goes inside the
               iteration under test before the mutation attempt (or in every pass of the body, for the exits that are not errors);
    position:  the element at which the body / the callback of a native consumer attempts the mutation or fails (first, middle, LAST,
               the only one of a one-element container)."""
    allops = [(k, o[0]) for k in ("list", "dict", "set") for o in OPS[k]]
    fewops = [("list", "append"), ("list", "setitem"), ("list", "pop"), ("dict", "setitem"), ("set", "add")]
    cev = []
    for construct in ("for", "nested-for"):
        for via in ("inline", "callee"):
            for ipos in ("in-if", "each"):
                cev.append((construct, "mutate", via, ipos))
        for ex in ("exhaustion", "break"):
            cev.append((construct, ex, "inline", "each"))
    for construct in ("list-compr", "dict-compr", "list-compr-2nd-clause") + tuple(CB_BUILTINS):
        for ipos in ("in-if", "each"):
            cev.append((construct, "mutate", "inline", ipos))
    names = [(0, 0), (0, 1), (1, 0), (1, 1)]        # (the mutation goes through x / z, the inner iteration through x / z)
    where = [("module", 1), ("def", 1), ("def", 2)]
    pcv = [(b, "inline") for b in CB_BUILTINS + ["list-compr", "dict-compr", "for"]] + [("for", "callee")]
    return {
        "overlap-ops": [(("kind", "op"), allops), (("construct", "exit", "via", "ipos"), cev), ("inner", INNER_MAIN), (("alias", "ialias"), names),
                        ("idepth", [1, 2]), (("ctx", "depth"), where[2:])],
        "overlap-inner": [(("kind", "op"), fewops), (("construct", "exit", "via", "ipos"), cev), ("inner", sorted(INNERS)),
                          (("alias", "ialias"), names[:3]), ("idepth", [1, 2]), (("ctx", "depth"), where[:1])],
        "position": [(("kind", "op"), allops), (("size", "at"), [(3, 1), (3, 2), (3, 3), (1, 1)]), (("construct", "via"), pcv),
                     ("exit", ["mutate", "fail"]), ("alias", [0, 1]), (("ctx", "depth"), where)],
    }


def block_row(factors, choice):
    c = {}
    for (name, values), j in zip(factors, choice):
        if isinstance(name, tuple):
            c.update(zip(name, values[j]))
        else:
            c[name] = values[j]
    return c


def block_size(factors):
    n = 1
    for _, values in factors:
        n *= len(values)
    return n


def block_cases(factors):
    return [block_row(factors, ch) for ch in itertools.product(*[range(len(v)) for _, v in factors])]


def block_covering(rng, factors, tries=24, small=None):
    """Pairwise covering array of a Cartesian block, greedy: each row is the best of `tries` random rows that contain a
    still uncovered pair.  -> (rows as descriptions, number of pairs).  `small`: only the pairs in which one of the two factors has
    at most that many values are required (every value of a large factor still meets every value of each small factor)."""
    need = set()
    for a, b in itertools.combinations(range(len(factors)), 2):
        if small is not None and min(len(factors[a][1]), len(factors[b][1])) > small:
            continue
        for x in range(len(factors[a][1])):
            for y in range(len(factors[b][1])):
                need.add((a, x, b, y))
    total = len(need)
    pending = sorted(need)
    rng.shuffle(pending)
    rows = []
    while need:
        while pending[-1] not in need:
            pending.pop()
        a, x, b, y = pending[-1]
        best, bestn = None, -1
        for _ in range(tries):
            ch = [rng.randrange(len(v)) for _, v in factors]
            ch[a], ch[b] = x, y
            n = sum(1 for p, q in itertools.combinations(range(len(ch)), 2) if (p, ch[p], q, ch[q]) in need)
            if n > bestn:
                best, bestn = ch, n
        for p, q in itertools.combinations(range(len(best)), 2):
            need.discard((p, best[p], q, best[q]))
        rows.append(block_row(factors, best))
    return rows, total


def block_random(rng, factors, n):
    return [block_row(factors, [rng.randrange(len(v)) for _, v in factors]) for _ in range(n)]


def construct_class(c):
    if c in ("for", "nested-for", "dict-compr"):
        return c
    if c.startswith("list-compr"):
        return "list-compr"
    return "builtin:" + c


def exit_class(e, c=None):
    if e in ("fail", "mutate"):
        return "error"
    if e == "return" and c is not None and c.get("rtype"):
        return "return-typed"           # InstrReturnCheckType, not InstrReturn / InstrReturnConst
    return e


def product():
    """The whole finite product, as abstract case descriptions: the base product (default def shape) and the def-shape blocks."""
    out = base_product()
    for factors in list(shape_blocks().values()) + list(family_blocks().values()):
        out += block_cases(factors)
    return out


def product_size():
    return len(base_product()) + sum(block_size(f) for f in list(shape_blocks().values()) + list(family_blocks().values()))


def base_product():
    """kind x construct x exit x inline/callee x module/def x depth x op x alias, the def (if any) in its plainest shape."""
    out = []
    for kind in ("list", "dict", "set"):
        for construct in LOOPS + CB_BUILTINS + FREE_BUILTINS:
            if construct in ("dict-update", "dict") and kind != "dict":
                continue
            for ex in EXITS[construct]:
                vias = ["inline", "callee"] if (construct in ("for", "nested-for") and ex in ("fail", "mutate")) else ["inline"]
                for via in vias:
                    for ctxk in ("module", "def"):
                        if ex == "return" and ctxk == "module":
                            continue
                        for depth in (1, 2, 3):
                            for opi in range(len(OPS[kind])):
                                for alias in (0, 1):
                                    out.append({"kind": kind, "construct": construct, "exit": ex, "via": via, "ctx": ctxk, "depth": depth,
                                                "op": OPS[kind][opi][0], "alias": alias})
    return out


# ------------------------------------------------------------------------------------------------
# rendering: one description -> Starlark source (+ follow-up sources) and Gallina program

def op_entry(c):
    for e in OPS[c["kind"]]:
        if e[0] == c["op"]:
            return e
    raise KeyError(c["op"])


def ind(lines, n=1):
    return ["    " * n + l for l in lines]


def ret_value(rval, var, tail=False):
    """Text of the returned expression; `var` is the variable of the innermost loop (a local of the def)."""
    return {"const": "7", "none": "None", "bare": "", "local": "w" if tail else var, "expr": "len(x)" if tail else "len(x) + %s" % var,
            "list": "[len(x)]" if tail else "[%s]" % var, "listx": "list(x)", "bad": '"s"', "badelem": '["s"]'}[rval]


def render(c):
    """-> (src, then[3], coq_init, coq_prog, coq_op, mods)"""
    kind, construct, ex, via = c["kind"], c["construct"], c["exit"], c.get("via", "inline")
    rtype, rval, tail = c.get("rtype", ""), c.get("rval", "const"), c.get("tail", 0)
    rpos, ptype, callp = c.get("rpos", "if"), c.get("ptype", 0), c.get("call", "direct")
    ret_coq = "SReturn" if not rtype else ("SReturnT false" if ex == "return-badtype" else "SReturnT true")
    _, op_star, op_coq = op_entry(c)
    recv = "z" if c["alias"] else "x"
    empty = bool(c.get("empty"))
    at = c.get("at", 2)                 # the element (value; index at-1) at which the body acts
    ipos = c.get("ipos", "in-if")       # overlapping iteration: right before the action / at the start of every pass of the body
    in_lines, in_coq = inner_render(c, "x", "z")
    g_lines, g_coq_in = inner_render(c, "r", "q")
    if g_lines:
        g_lines = ["q = r"] + g_lines
    # statement executed at the element `at` (default: the second one, index 1)
    act_star = {"fail": 'fail("boom")', "mutate": op_star.replace("R", "r")}.get(ex)          # inside g(e, r)
    act_inline = {"fail": 'fail("boom")', "mutate": op_star.replace("R", recv)}.get(ex)     # inside the loop body
    act_coq = {"fail": "SFail", "mutate": "SMutate %s 0" % op_coq}.get(ex)
    data = ["x = %s" % lit_of(c), "z = x", "y = [10, 20]"]
    defs = ["def g0(e, r):", "    return e"]
    if act_star:
        if ipos == "each":
            defs += ["def g(e, r):"] + ind(g_lines) + ["    if e == %d:" % at, "        " + act_star, "    return e"]
            g_coq = "(SCall (blk [%s]))" % "; ".join(g_coq_in + ["SIf %d (blk [%s]) BNil" % (at - 1, act_coq)])
        else:
            defs += ["def g(e, r):", "    if e == %d:" % at] + ind(g_lines, 2) + ["        " + act_star, "    return e"]
            g_coq = "(SCall (blk [SIf %d (blk [%s]) BNil]))" % (at - 1, "; ".join(g_coq_in + [act_coq]))
    else:
        g_coq = "(SCall BNil)"
    gname = "g" if act_star else "g0"

    def body(var):
        """body of a for statement whose variable is `var`"""
        bl, bc = body0(var)
        if in_lines and ipos == "each" and not (via == "callee" and ex in ("fail", "mutate")):
            return in_lines + bl, in_coq + bc
        return bl, bc

    def body0(var):
        if ex == "exhaustion":
            return ["pass"], []
        if ex == "continue":
            return ["if %s == 1:" % var, "    continue", "pass"], ["SIf 0 (blk [SContinue]) BNil"]
        if ex == "break":
            return ["if %s == 2:" % var, "    break"], ["SIf 1 (blk [SBreak]) BNil"]
        if ex in ("return", "return-badtype"):
            rs = ("return " + ret_value(rval, var)).rstrip()
            if rpos == "direct":            # leaves at the first element
                return [rs], [ret_coq]
            if rpos == "else":
                return ["if %s == 1:" % var, "    pass", "else:", "    " + rs], ["SIf 0 BNil (blk [%s])" % ret_coq]
            if rpos == "after-compr":       # a comprehension over the same container has come and gone in the body
                return ["_q = [j for j in x]", "if %s == 2:" % var, "    " + rs], ["SFor 0 BNil", "SIf 1 (blk [%s]) BNil" % ret_coq]
            if rpos == "nested-if":
                return (["if %s != 1:" % var, "    if %s == 2:" % var, "        " + rs],
                        ["SIf 1 (blk [SIf 1 (blk [%s]) BNil]) BNil" % ret_coq])
            return ["if %s == 2:" % var, "    " + rs], ["SIf 1 (blk [%s]) BNil" % ret_coq]
        if via == "callee":
            return ["g(%s, %s)" % (var, recv)], [g_coq]
        if ipos == "each":
            return ["if %s == %d:" % (var, at), "    " + act_inline], ["SIf %d (blk [%s]) BNil" % (at - 1, act_coq)]
        return (["if %s == %d:" % (var, at)] + ind(in_lines) + ["    " + act_inline],
                ["SIf %d (blk [%s]) BNil" % (at - 1, "; ".join(in_coq + [act_coq]))])

    def blk(stmts):
        return "(blk [%s])" % "; ".join(stmts)

    if construct == "for":
        bl, bc = body("i")
        lines = ["for i in x:"] + ind(bl)
        coq = ["SFor 0 %s" % blk(bc)]
    elif construct == "nested-for":
        bl, bc = body("i")
        lines = ["for k in x:"] + ind(["for i in x:"] + ind(bl))
        coq = ["SFor 0 %s" % blk(["SFor 0 %s" % blk(bc)])]
    elif construct in ("list-compr", "dict-compr", "list-compr-2nd-clause"):
        elem = "i" if ex in ("exhaustion", "continue") else "%s(i, %s)" % (gname, recv)
        cond = " if i != 1" if ex == "continue" else ""
        skip = "Some 0%nat" if ex == "continue" else "None"
        elem_coq = "BNil" if ex in ("exhaustion", "continue") else blk([g_coq])
        if construct == "list-compr":
            lines = ["_r = [%s for i in x%s]" % (elem, cond)]
            coq = "compr [(0%%nat, %s)] %s" % (skip, elem_coq)
        elif construct == "dict-compr":
            lines = ["_r = {i: %s for i in x%s}" % (elem, cond)]
            coq = "compr [(0%%nat, %s)] %s" % (skip, elem_coq)
        else:
            lines = ["_r = [%s for k in y for i in x%s]" % (elem, cond)]
            coq = "compr [(1%%nat, None); (0%%nat, %s)] %s" % (skip, elem_coq)
        coq = ["@@" + coq]      # a block to be spliced
    elif construct in CB_BUILTINS:
        lam = "lambda e: %s(e, %s)" % (gname, recv)
        call = {"sorted-key": "sorted(x, key=%s)", "min-key": "min(x, key=%s)", "max-key": "max(x, key=%s)",
                "map": "map(%s, x)", "filter": "filter(%s, x)"}[construct] % lam
        lines = ["_r = " + call]
        coq = ["SBuiltin %s None 0 %s" % (BUILTIN_COQ[construct], blk([g_coq]))]
    else:
        call = {"any": "any(x)", "all": "all(x)", "enumerate": "enumerate(x)", "zip": "zip(x, y)", "list": "list(x)", "tuple": "tuple(x)",
                "sorted": "sorted(x)", "reversed": "reversed(x)", "set": "set(x)", "extend": "[0].extend(x)", "set-update": "set([0]).update(x)",
                "dict-update": "{0: 0}.update(x)", "dict": "dict(x)"}[construct]
        lines = ["_r = " + call]
        early = "(Some 1%nat)" if (construct == "any" and not empty) else "None"
        coq = ["SBuiltin %s %s 0 BNil" % (BUILTIN_COQ[construct], early)]

    def splice(stmts):
        """list of stmt texts (an entry '@@b' is a whole block b) -> block text"""
        if len(stmts) == 1 and stmts[0].startswith("@@"):
            return "(%s)" % stmts[0][2:]
        assert not any(s.startswith("@@") for s in stmts)
        return blk(stmts)

    for _ in range(c["depth"] - 1):
        lines = ["for a in y:"] + ind(lines)
        coq = ["SFor 1 %s" % splice(coq)]
    mods = []
    if c["ctx"] == "def":
        params = "x: %s, z: typing.Any, y: list[int]" % PTYPE[kind] if ptype else "x, z, y"
        head = "def f(%s)%s:" % (params, " -> " + rtype if rtype else "")
        fbody = (["w = 7"] if rval == "local" else []) + lines
        if tail:        # an explicit return statement ends the def (of the declared type also when the return in the loop is not)
            tval = {"int": "const", "None": "none", "list[int]": "list"}[rtype] if rval in ("bad", "badelem") else rval
            fbody.append(("return " + ret_value(tval, None, tail=True)).rstrip())
        fdef = [head] + ind(fbody)
        args = "x, z, y"
        if callp == "nested-def":
            fdef = ["def outer(x, z, y):"] + ind(fdef + ["return f(x, z, y)"])
        callee = {"nested-def": "outer"}.get(callp, "f")
        stmt = {"direct": "%s(%s)" % (callee, args), "nested-def": "%s(%s)" % (callee, args), "frozen": "%s(%s)" % (callee, args),
                "var": "h = f\nh(%s)" % args, "lambda": "(lambda: f(%s))()" % args, "named": "f(x=x, z=z, y=y)",
                "star": "f(*[x, z, y])", "native-cb": "_m = map(lambda _e: f(%s), [0])" % args}[callp]
        if callp == "frozen":
            mods = [{"name": "lib", "src": "\n".join(defs + fdef) + "\n"}]
            src = ['load("lib", "f")'] + data + [stmt]
        else:
            src = data + defs + fdef + [stmt]
        prog = blk(["SCall %s" % splice(coq)])
        if callp in ("lambda", "nested-def"):     # one more frame between the module and f
            prog = blk(["SCall %s" % prog])
    else:
        src = data + defs + lines
        prog = splice(coq)
    show = "emit(list(x))" if kind == "set" else "emit(x)"
    then = [show, op_star.replace("R", recv), show, "y.append(0)"]
    init = {"list": "VList [%s]", "dict": "VDict [%s]", "set": "VSet [%s]"}[kind] % (
        "; ".join("(%d, %d)" % e if kind == "dict" else str(e) for e in init_of(c)))
    return "\n".join(src) + "\n", then, "[%s; VList [10; 20]]" % init, prog, op_coq, mods


# ------------------------------------------------------------------------------------------------
# specification (reference semantics of the operations; the property)

def ref_apply(kind, op, v):
    """Reference result of the operation on an unlocked container: ('ok', new) | ('err', code)."""
    if kind == "list":
        l = list(v)
        if op == "append":
            return "ok", l + [7]
        if op == "clear":
            return "ok", []
        if op in ("extend", "addassign"):
            return "ok", l + [7, 8]
        if op == "insert":
            return "ok", l[:1] + [7] + l[1:]
        if op == "pop":
            return ("ok", l[:-1]) if l else ("err", 3)
        if op == "remove":
            if 2 not in l:
                return "err", 4
            l.remove(2)
            return "ok", l
        if op == "setitem":
            if len(l) < 2:
                return "err", 3
            l[1] = 7
            return "ok", l
        if op == "augitem":
            if len(l) < 2:
                return "err", 3
            l[1] += 5
            return "ok", l
    if kind == "dict":
        d = dict(v)
        if op == "clear":
            return "ok", []
        if op == "pop":
            if 2 not in d:
                return "err", 5
            d.pop(2)
        elif op == "popitem":       # Starlark: removes the FIRST pair
            if not d:
                return "err", 6
            d.pop(next(iter(d)))
        elif op == "setdefault":
            d.setdefault(7, 70)
        elif op == "update":
            d.update({2: 21, 7: 70})
        elif op == "setitem":
            d[7] = 70
        elif op == "setitem-existing":
            d[2] = 21
        elif op == "augitem":
            if 2 not in d:
                return "err", 5
            d[2] += 5
        elif op == "bitorassign":
            d.update({7: 70})
        return "ok", list(d.items())
    if kind == "set":
        s = list(v)
        if op == "add":
            return "ok", s + [7]
        if op == "add-existing":
            return "ok", s if 2 in s else s + [2]
        if op == "clear":
            return "ok", []
        if op == "discard":
            return "ok", [e for e in s if e != 2]
        if op == "pop":             # starlark-rust: SmallSet::pop removes the last element
            return ("ok", s[:-1]) if s else ("err", 6)
        if op == "remove":
            return ("ok", [e for e in s if e != 2]) if 2 in s else ("err", 4)
        if op == "update":
            return "ok", s + [7, 8]
    raise KeyError((kind, op))


def flat(kind, v):
    return [x for kv in v for x in kv] if kind == "dict" else list(v)


def pre_err(kind, op, v):
    """The read-only checks the code makes BEFORE it asks for mutable access (Lock/Model.v pre_check): error code or 0."""
    if kind == "list" and op == "remove" and 2 not in v:
        return 4
    if kind == "list" and op in ("setitem", "augitem") and len(v) < 2:
        return 3
    if kind == "dict" and op == "augitem" and 2 not in dict(v):
        return 5
    return 0


def spec(c):
    """What the property demands: (outcome of the program, content after it, outcome of the later mutation, content,
    outcome of a later mutation of the list iterated by the enclosing loops)."""
    init = init_of(c)
    r0 = {"fail": 2, "mutate": 1, "return-badtype": 11}.get(c["exit"], 0)
    if c["exit"] == "mutate" and pre_err(c["kind"], c["op"], init):
        r0 = pre_err(c["kind"], c["op"], init)      # refused before the lock is even looked at (nothing written either)
    if c.get("empty"):
        r0 = 0          # no element: no body runs
    st, v = ref_apply(c["kind"], c["op"], init)
    if st == "ok":
        return [r0, flat(c["kind"], init), 0, flat(c["kind"], v), 0]
    return [r0, flat(c["kind"], init), v, flat(c["kind"], init), 0]


# ------------------------------------------------------------------------------------------------
# running both sides

def err_code(out):
    if "ok" in out:
        return 0
    msg = out["err"].get("msg", "")
    if "mutates an iterable" in msg or "while iterating" in msg:
        return 1
    if out["err"].get("kind") == "Fail" or msg.startswith("fail:"):
        return 2
    if re.search(r"out of bound", msg):
        return 3
    if re.search(r"not found in list|not found in `", msg):
        return 4
    if re.search(r"[Kk]ey .* not found|not found in dict", msg):
        return 5
    if re.search(r"empty", msg):
        return 6
    if "does not match the type annotation" in msg and "for return type" in msg:
        return 11
    return "other:" + msg[:120]


def content_of(tr):
    if not tr:
        return None
    return [int(x) for x in re.findall(r"i(-?\d+)", tr[0])]


def impl_obs(r):
    if r is None or "panic" in r or "steps" not in r or len(r["steps"]) < 5:
        return None
    s = r["steps"]
    return [err_code(s[0]["out"]), content_of(s[1]["tr"]), err_code(s[2]["out"]), content_of(s[3]["tr"]), err_code(s[4]["out"])]


def run_model(ctx, triples):
    """triples: list of (init, prog, op) texts -> list of (faithful obs+count, repaired obs+count) or None."""
    nshard = min(sv.NPROC, max(1, (len(triples) + 39) // 40))     # coqc start-up dominates small batches
    files = []
    for s in range(nshard):
        part = triples[s::nshard]
        if not part:
            continue
        text = ("From Coq Require Import ZArith List.\nFrom SV Require Import Lock.Model Lock.Bc Lock.Cases.\n"
                "Import ListNotations.\nOpen Scope Z_scope.\n")
        for k in range(0, len(part), 150):
            rows = ["(%s, %s, %s)" % t for t in part[k:k + 150]]
            text += "Eval vm_compute in (run_cases_flat [\n%s]).\n" % ";\n".join(rows)
        files.append(("lock_%d" % s, text))
    outs = sv.coq_eval_files(ctx, files, timeout=600)
    res = [None] * len(triples)
    log = ""
    for s, (rc, out) in enumerate(outs):
        part_n = len(triples[s::nshard])
        vals = [row for v in sv.coq_values(out) for row in v] if rc == 0 else []
        if rc != 0 or len(vals) != part_n:
            log += out[-600:]
            continue
        for j, v in enumerate(vals):
            # v = [[r0; r2; cnt; r_outer]; c1; c3; [r0'; r2'; cnt'; r_outer']; c1'; c3']
            fa = [v[0][0], list(v[1]), v[0][1], list(v[2]), v[0][3]]
            rp = [v[3][0], list(v[4]), v[3][1], list(v[5]), v[3][3]]
            res[s + j * nshard] = (fa, v[0][2], rp, v[3][2])
    return res, log


def classify(c, impl, sp):
    cc, kc = construct_class(c["construct"]), c["kind"]
    if impl[0] == sp[0] and impl[1] == sp[1] and impl[2] == 1 and sp[2] != 1 and impl[3] == impl[1]:
        # (sp[2] is 0, or - one-element containers - the error the later operation meets on an unlocked container)
        return "C12/lock-retained/exit=%s/container=%s/construct=%s" % (exit_class(c["exit"], c), kc, cc)
    if impl[:4] == sp[:4] and impl[4] == 1:
        # the container under test was released (or never locked by a bytecode loop) but the list iterated by the enclosing for statements was not
        return "C12/lock-retained/exit=%s/container=list/construct=for" % exit_class(c["exit"], c)
    if sp[0] == 1 and impl[0] == 0:
        return "C12/mutation-succeeded-during-iteration/container=%s/construct=%s/op=%s" % (kc, cc, c["op"])
    if impl[1] != sp[1]:
        return "C12/content-changed-during-iteration/container=%s/construct=%s/op=%s" % (kc, cc, c["op"])
    if impl[0] != sp[0]:
        return "C12/loop-outcome/container=%s/construct=%s/exit=%s" % (kc, cc, c["exit"])
    return "C12/later-mutation/container=%s/op=%s" % (kc, c["op"])


def shape_text(c):
    if c["ctx"] != "def":
        return ""
    g = lambda k: c.get(k, SHAPE_DEFAULT[k])
    return " f(%s)%s returning %s%s at %s%s, called %s" % (
        "annotated parameters" if g("ptype") else "plain parameters", " -> " + g("rtype") if g("rtype") else "", g("rval"),
        " (+ explicit return at the end)" if g("tail") else "", g("rpos"), "", g("call"))


def family_text(c):
    t = ""
    if c.get("size") == 1:
        t += " of one element"
    if "at" in c:
        t += " (the body acts at element %d of %d)" % (c["at"], c.get("size", 3))
    if c.get("inner"):
        t += " [overlapping iteration of the same container through %s, %d level(s) deep, %s: %s, finished before the attempt]" % (
            "the other name" if c.get("ialias") != c.get("alias") else "the same name", c.get("idepth", 1),
            "in every pass of the body" if c.get("ipos") == "each" else "right before the action", c["inner"])
    return t


def evaluate(ctx, cases, chunk=40000):
    """Runs the cases on implementation and model (in chunks, to bound memory in the exhaustive tier) -> (failures, statistics)."""
    failures, st, cache = [], None, {}
    for k in range(0, max(1, len(cases)), chunk):
        f1, s1 = evaluate_chunk(ctx, cases[k:k + chunk], cache)
        failures += f1
        if st is None:
            st = s1
        else:
            for key, v in s1.items():
                if isinstance(v, dict):
                    for kk, vv in v.items():
                        st[key][kk] = st[key].get(kk, 0) + vv
                else:
                    st[key] += v
    st["model_programs"] = len(cache)
    return failures, st


def evaluate_chunk(ctx, cases, cache):
    rendered = [render(c) for c in cases]
    # every program of the product ends within some dozens of ticks; the bound only matters when a mutation that must be refused is
    # accepted and the loop then runs away (e.g. an insert before the current position in every pass): reported as unexpected outcome
    hc = [dict({"src": r[0], "then": r[1], "opts": {"max_ticks": 100000}}, **({"mods": r[5]} if r[5] else {})) for r in rendered]
    rc, log, res = sv.run_harness_sharded(ctx, "eval", hc, timeout=900)
    ctx.log("implementation ran %d programs (rc=%s)" % (len(hc), rc))
    failures = []
    # GC factor: the same programs with a collection forced at every GC safepoint (hook H1).  The iteration lock lives in
    # the container, which a collection copies: whatever is refused, accepted or released without collections must be
    # refused, accepted or released in the same way with them.
    hc_gc = [dict(h, opts=dict(h["opts"], gc_every=1)) for h in hc]
    rc_gc, log_gc, res_gc = sv.run_harness_sharded(ctx, "eval", hc_gc, timeout=900)
    ctx.log("implementation ran %d programs again with a collection at every safepoint (rc=%s)" % (len(hc_gc), rc_gc))
    if rc_gc != 0:
        failures.append({"key": "C12/harness-crash/gc", "what": "eval harness under forced collections exited with %s: %s" % (rc_gc, log_gc[-300:]),
                         "replay": {"rc": rc_gc}})
    else:
        for c, r, x, xg in zip(cases, rendered, res, res_gc):
            a, b = impl_obs(x), impl_obs(xg)
            # a deviation that collections INTRODUCE into a run that meets the specification without them; a run that
            # deviates already (F4: a lock retained after an error escapes a loop - a collection resets the count of a list
            # but not the borrow flag of a dict/set) is reported or listed by the comparison below
            if a == spec(c) and b != a:
                tag = "panic" if isinstance(xg, dict) and "panic" in xg else "differs"
                failures.append({"key": "C12/gc-changes-lock-behaviour/%s/container=%s/construct=%s/ctx=%s" % (tag, c["kind"], construct_class(c["construct"]), c["ctx"]),
                                 "what": "%s over a %s (%s), operation %s: with a collection forced at every safepoint the program behaves differently: "
                                         "without %s, with %s; specification %s" % (c["construct"], c["kind"], c["ctx"], c["op"], a, b if b is not None else json.dumps(xg)[:300], spec(c)),
                                 "replay": {"case": c, "src": r[0], "then": r[1], "mods": r[5], "opts": {"gc_every": 1}, "impl_plain": a, "impl_gc": b}})
    if rc != 0:
        failures.append({"key": "C12/harness-crash", "what": "eval harness exited with %s: %s" % (rc, log[-300:]), "replay": {"rc": rc}})
    order, mlog = [], ""
    for r in rendered:
        t = (r[2], r[3], r[4])
        if t not in cache:
            cache[t] = None
            order.append(t)
    if order:
        mres, mlog = run_model(ctx, order)
        for t, m in zip(order, mres):
            cache[t] = m
        ctx.log("Coq model ran %d distinct programs (both interpreters)" % len(order))
    st = {"agree_spec": 0, "model_faithful": 0, "model_repaired": 0, "retained": 0, "during_attempts": 0, "after_attempts": 0,
          "model_programs": len(order), "by_exit": {}, "by_construct": {}, "by_kind": {}, "by_rtype": {}, "by_call": {}, "by_rval": {},
          "typed_return_in_loop": 0, "overlap": 0, "position": {}}
    for c, r, x in zip(cases, rendered, res):
        impl = impl_obs(x)
        sp = spec(c)
        m = cache[(r[2], r[3], r[4])]
        rep = {"case": c, "src": r[0], "then": r[1], "mods": r[5], "coq": {"init": r[2], "prog": r[3], "op": r[4]}, "impl": impl, "spec": sp,
               "model_faithful": m[0] if m else None, "model_repaired": m[2] if m else None}
        st["by_exit"][c["exit"]] = st["by_exit"].get(c["exit"], 0) + 1
        st["by_construct"][c["construct"]] = st["by_construct"].get(c["construct"], 0) + 1
        st["by_kind"][c["kind"]] = st["by_kind"].get(c["kind"], 0) + 1
        if c.get("inner"):
            st["overlap"] += 1
        if "at" in c:
            pk = "single" if c.get("size") == 1 else {1: "first", 2: "middle", 3: "last"}[c["at"]]
            st["position"][pk] = st["position"].get(pk, 0) + 1
        if c["ctx"] == "def":
            for fld, dst in (("rtype", "by_rtype"), ("call", "by_call"), ("rval", "by_rval")):
                v = c.get(fld, SHAPE_DEFAULT[fld]) or "(none)"
                st[dst][v] = st[dst].get(v, 0) + 1
            if c["exit"].startswith("return") and c.get("rtype"):
                st["typed_return_in_loop"] += 1
        if impl is None or any(isinstance(v, str) for v in (impl[0], impl[2], impl[4])) or impl[1] is None or impl[3] is None:
            rep["raw"] = x
            tag = "panic" if isinstance(x, dict) and "panic" in x else "unexpected-outcome"
            failures.append({"key": "C12/%s/container=%s/construct=%s/exit=%s/op=%s" % (tag, c["kind"], construct_class(c["construct"]), exit_class(c["exit"], c), c["op"]),
                             "what": "%s over a %s, exit=%s, operation %s: the program could not be observed as planned (crash, panic or an unplanned error): "
                                     "%s; specification %s" % (c["construct"], c["kind"], c["exit"], c["op"], json.dumps(x)[:300] if impl is None else impl, sp),
                             "replay": rep})
            continue
        if m is None:
            failures.append({"key": "C12/model-run-failed", "what": "the Coq model could not be evaluated: " + mlog[-300:], "replay": rep})
            continue
        st["after_attempts"] += 1
        if c["exit"] == "mutate":
            st["during_attempts"] += 1
        mf, mr = impl == m[0], impl == m[2]
        st["model_faithful"] += mf
        st["model_repaired"] += mr
        if impl == sp:
            st["agree_spec"] += 1
            if not (mf or mr):
                failures.append({"key": "C12/model-differs/container=%s/construct=%s" % (c["kind"], construct_class(c["construct"])),
                                 "what": "implementation agrees with the specification but neither interpreter of the Coq model does: impl=%s "
                                         "faithful=%s repaired=%s" % (impl, m[0], m[2]), "replay": rep})
            continue
        key = classify(c, impl, sp)
        if "/lock-retained/" in key:
            st["retained"] += 1
        what = ("%s: %s over a %s%s, exit=%s (%s, %s%s, nesting depth %d), operation %s through %s: implementation %s, specification %s "
                "[program outcome, content after it, outcome of the later mutation, content, outcome of a later mutation of the enclosing loops' list]; Coq model as-is %s (iteration count left %s), "
                "repaired %s" % (key, c["construct"], c["kind"], family_text(c), c["exit"], c.get("via"), c["ctx"], shape_text(c), c["depth"], c["op"],
                                 "an alias" if c["alias"] else "the same name", impl, sp, m[0], m[1], m[2]))
        if not (mf or mr):
            what += " -- and the model predicts neither"
        failures.append({"key": key, "what": what, "replay": rep})
    return failures, st


# ------------------------------------------------------------------------------------------------

FACTORS = ["kind", "construct", "exit", "via", "ctx", "depth", "op", "alias"]


def covering_sample(ctx, prod, n_min):
    """Every pair of factor values that occurs in the product occurs in the sample (greedy), topped up at random."""
    idx = list(range(len(prod)))
    ctx.rng.shuffle(idx)
    need = set()
    pairs_of = []
    for c in prod:
        ps = [((a, c[a] if a != "op" else (c["kind"], c["op"])), (b, c[b] if b != "op" else (c["kind"], c["op"])))
              for a, b in itertools.combinations(FACTORS, 2)]
        pairs_of.append(ps)
        need.update(ps)
    chosen, chosen_set = [], set()
    for i in idx:
        new = [p for p in pairs_of[i] if p in need]
        if new:
            chosen.append(i)
            chosen_set.add(i)
            need.difference_update(new)
        if not need:
            break
    for i in idx:
        if len(chosen) >= n_min:
            break
        if i not in chosen_set:
            chosen.append(i)
            chosen_set.add(i)
    return [prod[i] for i in chosen], len(need)


def load_corpus():
    p = os.path.join(sv.ROOT, "corpus", "C12", "boundary.jsonl")
    if not os.path.exists(p):
        return []
    return [json.loads(l) for l in open(p) if l.strip() and not l.startswith("#")]


def check_dir(ctx):
    """dir(value) of each container kind: every method must be classified (mutator in the product / known non-mutator)."""
    src = "emit(dir([]))\nemit(dir({}))\nemit(dir(set()))\n"
    rc, log, res = sv.run_harness(ctx, "eval", [{"src": src, "opts": {}}], tag="dir")
    broken, seen = [], {}
    try:
        tr = res[0]["steps"][0]["tr"]
        for kind, t in zip(("list", "dict", "set"), tr):
            names = set(json.loads(t))
            seen[kind] = sorted(names)
            muts = {METHOD_OF_OP.get(o[0], o[0]) for o in OPS[kind]} - {None}
            unknown = names - muts - NON_MUTATING[kind]
            missing = muts - names
            if unknown:
                broken.append(("dir-classification", "%s has methods that are neither in the mutator catalogue nor known non-mutators: %s" % (kind, sorted(unknown))))
            if missing:
                broken.append(("dir-classification", "%s no longer has the mutators %s" % (kind, sorted(missing))))
    except Exception as e:  # noqa: BLE001
        broken.append(("dir-classification", "could not read dir(): %s %s" % (e, str(res)[:200])))
    return broken, seen


def check_callback_catalogue():
    """The natives that invoke a Starlark callable per element are found in the implementation's own sources (every `invoke_pos(`
    under starlark/src/stdlib and the container method files): the catalogue CB_BUILTINS of the product must be complete."""
    root = os.path.join(sv.REPO, "starlark", "src")
    seen = {}
    for sub in ("stdlib", os.path.join("values", "types")):
        for d, _, files in os.walk(os.path.join(root, sub)):
            for f in files:
                if not f.endswith(".rs"):
                    continue
                path = os.path.join(d, f)
                txt = re.sub(r"//[^\n]*", "", open(path, encoding="utf-8", errors="replace").read())
                n = len(re.findall(r"\.invoke_pos\(", txt))
                if n:
                    seen[os.path.relpath(path, sv.REPO)] = n
    if seen != CALLBACK_SITES:
        return [("callback-catalogue", "natives that call back into Starlark per element: expected %s, the sources have %s - extend CB_BUILTINS "
                 "(factor `position` of the product) to the new consumer" % (CALLBACK_SITES, seen))], seen
    return [], seen


def correspond(ctx):
    base = base_product()
    blocks = shape_blocks()
    fam = family_blocks()
    nprod = len(base) + sum(block_size(f) for f in list(blocks.values()) + list(fam.values()))
    corpus = load_corpus()
    shape_rows = {}
    if ctx.quick():
        cases, uncovered = covering_sample(ctx, base, 2000)
        # every def-shape block gets its own pairwise covering array: within a block the exit is fixed (return / failing typed
        # return) or one factor among the others, so a pair of the block is a triple (exit, A, B) of the whole product
        for name, factors in blocks.items():
            rows, npairs = block_covering(ctx.rng, factors)
            extra = block_random(ctx.rng, factors, {"return": 160, "return-badtype": 40, "other-exits": 100}[name])
            shape_rows[name] = {"size": block_size(factors), "pairs": npairs, "covering_rows": len(rows), "random_rows": len(extra)}
            cases = cases + rows + extra
        # the overlap / position blocks: pairwise covering array (overlap-*: every value of a large factor with every value of each
        # factor of at most 5 values; position: all pairs) topped up at random
        for name, factors in fam.items():
            rows, npairs = block_covering(ctx.rng, factors, small=None if name == "position" else 5)
            extra = block_random(ctx.rng, factors, 60)
            shape_rows[name] = {"size": block_size(factors), "pairs": npairs, "covering_rows": len(rows), "random_rows": len(extra)}
            cases = cases + rows + extra
        exhaustive = False
    else:
        cases = list(base)
        for name, factors in blocks.items():
            shape_rows[name] = {"size": block_size(factors), "exhaustive": True}
            cases += block_cases(factors)
        for name, factors in fam.items():
            shape_rows[name] = {"size": block_size(factors), "exhaustive": True}
            cases += block_cases(factors)
        uncovered, exhaustive = 0, True
    ctx.log("product=%d programs (base %d + def-shape / overlap / position blocks %s); running %d (+%d corpus); pairs left uncovered=%d"
            % (nprod, len(base), {k: v["size"] for k, v in shape_rows.items()}, len(cases), len(corpus), uncovered))
    broken, dirs = check_dir(ctx)
    cb_broken, cb_seen = check_callback_catalogue()
    broken += cb_broken
    failures, st = evaluate(ctx, corpus + cases)
    ctx.log("agree-with-spec=%d lock-retained=%d match-model-as-is=%d match-model-repaired=%d failures=%d"
            % (st["agree_spec"], st["retained"], st["model_faithful"], st["model_repaired"], len(failures)))
    if uncovered:
        broken.append(("covering-sample", "%d factor pairs not covered" % uncovered))
    ex = render(cases[0])
    ex2 = render(cases[-1])
    cov = {
        "evaluations": 5 * (len(cases) + len(corpus)),
        "programs": len(cases) + len(corpus),
        "product_size": nprod,
        "base_product_size": len(base),
        "def_shape_blocks": shape_rows,
        "typed_return_in_loop_programs": st["typed_return_in_loop"],
        "distinct_nontrivial": len({json.dumps(c, sort_keys=True) for c in cases if c["exit"] != "exhaustion" or c["depth"] > 1}),
        "rule": "finite product kind{list,dict,set} x construct{for, nested for over the same value, list/dict comprehension (1st/2nd clause), "
                "sorted/min/max(key=)/map/filter with callback, any/all/enumerate/zip/list/tuple/sorted/reversed/set/extend/update/dict} x "
                "exit{exhaustion, continue, break, return, fail, mutation attempt} x inline/callee x module/def x nesting depth 1..3 x every "
                "mutator of dir(value) + item/augmented assignment x same name/alias (def in its plainest shape), PLUS three def-shape "
                "blocks for the loops inside a def: [return] and [return whose value fails the declared return type] x (declared return "
                "type {none, int, None, list[int], typing.Any}, returned expression {constant, None, nothing, local, expression reading "
                "the container, fresh list, list(container)}, explicit/implicit return at the end) x position of the return {if, "
                "unconditional, else branch, after a comprehension over the same container, nested if} x annotated parameters x call "
                "path {direct, variable, lambda, named, *args, nested def, native callback, frozen+load} x for/nested-for x depth 1..3 x "
                "2 operations per kind x alias; [every other exit] x (return type, what ends the def) x parameters x call path {direct, "
                "lambda, named, frozen+load}; PLUS three blocks: [overlap-ops] every operation x (construct, exit, inline/callee, place of the inner "
                "iteration {right before the mutation attempt, in every pass of the body}) x a second iteration of the SAME container "
                "{for+break, comprehension, sorted} that starts and ends inside the iteration under test x (name of the mutation, name of "
                "the inner iteration) x 1/2 inner levels; [overlap-inner] 5 operations x the same x every inner construct {for, for+break, "
                "list/dict/2-clause comprehension, sorted, list, tuple, min, max, any, all, enumerate, zip, reversed, set, extend, "
                "map+filter, sorted(key=) whose callback iterates again}; [position] every operation x element at which the body / the "
                "callback acts {first, middle, last of 3, the only one of 1} x {sorted/min/max(key=), map, filter, list/dict "
                "comprehension, for inline/callee} x {mutation attempt, fail} x alias x module/def/depth; quick = greedy pairwise-covering sample of the base product topped up at random + one "
                "pairwise covering array per def-shape / overlap / position block (a pair inside a block is a triple with the exit) topped up at random, "
                "thorough = exhaustive; 5 observations per program (program outcome, content, later mutation outcome, content, later mutation of the list iterated by the enclosing loops); "
                "non-trivial = not a plain exhaustion at depth 1; distinct by description",
        "exhaustive": exhaustive,
        "traces_validated_against_impl": st["model_faithful"] if st["model_faithful"] >= st["model_repaired"] else st["model_repaired"],
        "agree_with_specification": st["agree_spec"],
        "lock_retained_cases": st["retained"],
        "matches_model_as_is": st["model_faithful"],
        "matches_model_repaired": st["model_repaired"],
        "mutation_attempts_during_iteration": st["during_attempts"],
        "mutation_attempts_after_iteration": st["after_attempts"],
        "model_programs": st["model_programs"],
        "input_distribution": {"exit": st["by_exit"], "construct": st["by_construct"], "kind": st["by_kind"],
                               "def_return_type": st["by_rtype"], "def_call_path": st["by_call"], "def_returned_expression": st["by_rval"]},
        "dir": dirs,
        "callback_call_sites": cb_seen,
        "overlap_programs": st["overlap"],
        "position_programs": st["position"],
        "corpus": len(corpus),
        "samples": [{"case": cases[0], "src": ex[0], "then": ex[1], "coq": ex[3]}, cases[len(cases) // 2],
                    {"case": cases[-1], "src": ex2[0], "mods": ex2[5], "then": ex2[1], "coq": ex2[3]}],
    }
    return {"coverage": cov, "failures": failures, "broken": broken}


def search(ctx, broken):
    """A proof obligation / pin / tie is broken: the exhaustive product against the specification."""
    failures, st = evaluate(ctx, load_corpus() + product())
    return {"failures": failures, "coverage": {"evaluations": 4 * st["after_attempts"], "exhaustive": True}}


def replay(ctx, rep):
    c = (rep.get("replay") or {}).get("case")
    if not c:
        return {"coverage": {}, "failures": []}
    failures, st = evaluate(ctx, [c])
    return {"coverage": {"evaluations": 4, "distinct_nontrivial": 1, "samples": [c]}, "failures": failures}


META = {
    "category": "proof",
    "level_text": "Full for the model, with one refuted clause carried as a finding. Coq (Properties/C12.v, closed under the global context): "
                  "every mutator of list/dict/set (methods, item and augmented assignment) is refused, store untouched, while the container's "
                  "iteration count is non-zero (any alias); for every structured program (for, nested for over the same container, "
                  "comprehension clauses, break, continue, return through any nesting - plain or, in a def with a declared return type, "
                  "followed by the InstrReturnCheckType step (SReturnT) -, calls, consuming builtins) compiled to the "
                  "Iter/Continue/Break/IterStop/Return skeleton, every non-error exit leaves every count as on entry; a return whose "
                  "type check fails leaves them as on entry too (Lock/Proofs.v return_check_failure_released, not among the pinned "
                  "statements); native consumers release on every exit including errors. The lock is a counter (Lock/Nested.v): after n "
                  "starts and m < n stops of iterations of one container the count is entry + n - m and every request is refused; for any "
                  "interleaving of starts, stops and attempts every attempt made while an iteration is in progress is refused, content "
                  "intact; the callback of a native consumer is refused at every element (first, middle, last, only) and the count is "
                  "restored afterwards; the two weakenings (iter_stop resets the count / a consumer stops before the last element's "
                  "callback) are refuted by vm_compute witnesses, and the tie carries both as factors (overlap, position). The clause 'released when an error propagates out of the loop' is REFUTED for the "
                  "interpreter as the code is (run_block returns on InstrControl::Err without iter_stop; vm_compute witness) and PROVED for a "
                  "repaired interpreter that unwinds the active iterators. The tie runs the finite product (exhaustive in the thorough tier) "
                  "on the real evaluator with follow-up evaluation on the same module and compares it with both interpreters of the model and "
                  "with the specification; the refuted clause shows up as KNOWN-FINDING lines keyed by (container, construct) and disappears "
                  "when the implementation is repaired. The way of leaving the loop is quantified over the compiler's return paths and the "
                  "evaluator's call paths (def-shape blocks: declared return type, annotated parameters, returned expression, position of "
                  "the return, explicit/implicit final return, 8 call paths incl. frozen module + load()): of these only 'typed return, "
                  "check passes/fails' and 'one more frame' exist in the Coq skeleton; parameter annotations, the kind of returned "
                  "expression and the call path are covered by the tie against the specification only.",
    "level_note": "Trusted: Coq kernel; Lock/Bc.v as abstraction of the bytecode (tree-shaped skeleton, big-step signals for jumps, iterator "
                  "slot = container); the two renderers and reference operation semantics in tools/props/C12.py; harness bin eval. Not "
                  "modelled: the static empty array exemption (unobservable; empty containers are in the corpus), `return <expr>` evaluated "
                  "after the IterStop sequence (the expression itself; the tie uses non-mutating expressions that read or natively iterate "
                  "the container), parameter type checks and call paths of a def, errors raised by report_forward_progress inside InstrContinue (same exit path as any error).",
    "technique": "Coq model + invariant proof (multiset of held locks) over compiled structured programs; refutation by vm_compute witness; "
                 "exhaustive differential tie of a finite product against model and specification",
    "design_ref": "DESIGN.md section 4 C12, section 9 F4",
}
