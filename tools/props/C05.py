"""C05 Parsing is total: any input yields an AST or a located error, never a crash.

Proof (coq/Lex/{Model,Spec,Proofs}.v, coq/Span/{Model,Proofs}.v, coq/Properties/C05.v): the lexer's mode
state machine (logos scanner rules, indentation stack, paren depth, string / bytes / f-string scanners with the
code's own offset arithmetic, escapes from the extracted table) is total with progress, every token span is
ordered, inside the file and on character boundaries, INDENT/DEDENT balance, escape decoding is total;
the one error span that is *not* on a boundary in the code (f-string escape, F2) is proved refuted with its
witness; span nesting of a bottom-up recursive-descent tree; dialect monotonicity of validate.rs's checks.

Tie + crash search (this module): the `lex` harness runs the real `Lexer` and `AstModule::parse` (under
catch_unwind, in sharded child processes, with a wall-clock watchdog) on structure-aware generated inputs
and reports tokens with spans, error spans, a whole-AST span walk, and the accept/reject + tree digest under
a set of dialects.  The extracted Coq model is run on the same texts: token kinds, payloads, spans and the
error kind/span must be equal.  Everything the property states is checked directly on the implementation."""
import importlib.util
import json
import os
import re

import sv

PROP = "C05"
HARNESS_BINS = ["lex"]
COQ_TARGETS = ["Properties/C05.vo", "Span/ParserSpansProofs.vo", "Lex/Cases.vo", "Extract/LexX.vo"]
TRUSTED = ["extraction: ExtrOcamlBasic only; ocaml/lex_driver.ml (int <-> N transport, UTF-8 hex printing, hand-written)",
           "logos 0.15 code generation is modelled by a hand-written maximal-munch scanner (Lex/Model.v scan_tok) whose "
           "regex/token rules are pinned to the `#[regex]`/`#[token]` attributes by the translator; agreement is checked by the tie only",
           "harness bin lex (AST walker written against the public starlark_syntax::syntax::ast types)"]
ASSUMPTIONS = ["the parser's span construction is proved on the span-tracking version (coq/Span/ParserSpans.v) of C06's parser model "
               "(coq/Parse, expression grammar + one-line `expr` / `target = expr` statements); statements outside that fragment "
               "(def/if/for/load/return, type annotations, f-strings, bytes, `...`) are covered by the generic Span nesting lemma only; "
               "the tie of the model's spans to the real parser's spans is the AST walk of the harness on the implementation "
               "(no model-vs-implementation comparison of spanned trees yet)",
               "panics/aborts/stack overflows cannot be exhibited by a Coq model; they are searched (child processes, bisected)",
               "inputs are valid UTF-8 (AstModule::parse takes a String); raw byte inputs go through String::from_utf8 / from_utf8_lossy"]

_spec = importlib.util.spec_from_file_location("extract_items_lexer", os.path.join(sv.ROOT, "tools", "extract_items", "lexer.py"))
_lx = importlib.util.module_from_spec(_spec)
_spec.loader.exec_module(_lx)

F2_KEY = "C05/error-span-not-char-boundary/fstring-escape-multibyte"

# ------------------------------------------------------------------------------------------------
# dialects: 8 flags (def lambda load kwonly posonly load_reexport top_level_stmt f_strings) + types 0/1/2

STANDARD, EXTENDED, ALLOPT = "111001000", "111101102", "111111112"


def d_le(a, b):
    return all(x <= y for x, y in zip(a, b))


def flips(code):
    out = []
    for i in range(9):
        alts = "012" if i == 8 else "01"
        for a in alts:
            if a != code[i]:
                out.append(code[:i] + a + code[i + 1:])
    return out


def dialect_set(rng, size):
    if size > 8192:
        return [STANDARD, EXTENDED, ALLOPT]
    ds = [STANDARD, EXTENDED, ALLOPT, "000000000"]
    if size <= 2048:
        ds += flips(STANDARD) + flips(ALLOPT)
    for _ in range(3):
        a = "".join(rng.choice("01") for _ in range(8)) + rng.choice("012")
        b = "".join(max(x, rng.choice("01")) for x in a[:8]) + max(a[8], rng.choice("012"))
        ds += [a, b]
    seen, out = set(), []
    for d in ds:
        if d not in seen:
            seen.add(d)
            out.append(d)
    return out


# ------------------------------------------------------------------------------------------------
# seeds

_SEEDS = None


def seeds():
    """Every .star/.bzl file and every test snippet (Rust string literals of the lexer/grammar tests) of the tree."""
    global _SEEDS
    if _SEEDS is not None:
        return _SEEDS
    files, snippets = [], []
    for root, dirs, fs in os.walk(sv.REPO):
        dirs[:] = [d for d in dirs if d not in ("target", ".git", "node_modules")]
        for f in sorted(fs):
            p = os.path.join(root, f)
            if f.endswith((".star", ".bzl", ".bxl")):
                try:
                    t = open(p, encoding="utf-8").read()
                except Exception:  # noqa: BLE001
                    continue
                if t.strip():
                    files.append(t)
            elif f.endswith(".golden") and ("lexer_tests" in root or "grammar_tests" in root or "def_tests" in root):
                try:
                    t = open(p, encoding="utf-8").read()
                except Exception:  # noqa: BLE001
                    continue
                m = re.search(r"Program:\n(.*?)\n\n(?:Tokens|Error|AST|Tokens:|Result)", t, re.S)
                if m:
                    snippets.append(m.group(1))
    for rel in ("starlark_syntax/src/lexer_tests.rs", "starlark_syntax/src/syntax/grammar_tests.rs", "starlark_syntax/src/syntax/def.rs",
                "starlark_syntax/src/syntax/call.rs", "starlark_syntax/src/syntax/type_expr.rs"):
        p = os.path.join(sv.REPO, rel)
        if not os.path.exists(p):
            continue
        t = open(p, encoding="utf-8").read()
        for m in re.finditer(r'r#"(.*?)"#', t, re.S):
            snippets.append(m.group(1))
        for m in re.finditer(r'(?<![#r])"((?:[^"\\\n]|\\.)*)"', t):
            s = m.group(1)
            try:
                s = bytes(s, "utf-8").decode("unicode_escape").encode("latin-1", "ignore").decode("utf-8", "ignore") if "\\" in s else s
            except Exception:  # noqa: BLE001
                continue
            if len(s) >= 2:
                snippets.append(s)
    files.sort(key=len)
    _SEEDS = (files, sorted(set(snippets)))
    return _SEEDS


# ------------------------------------------------------------------------------------------------
# generators

WIDE = ["é", "ß", "\u0301", "\u200d", "€", "中", "\ufeff", "\u2028", "😀", "𝒳", "\U0010ffff", "\x7f", "\x00", "\x0b", "\x0c", "\x85", "\xa0"]
ESC_LETTERS = list("nrtabfvxuU01234567\\'\"\n\rqz{} ") + ["é", "中", "😀"]


def _tables():
    return _lx.tables(sv.REPO)


def rand_text(rng, n):
    kind = rng.random()
    out = []
    for _ in range(n):
        r = rng.random()
        if kind < 0.3 or r < 0.5:
            out.append(chr(rng.choice([rng.randint(32, 126), rng.randint(0, 127), 10, 32, 9, 13, 34, 39, 92, 123, 125, 35])))
        elif r < 0.8:
            out.append(rng.choice(WIDE))
        else:
            c = rng.choice([rng.randint(0x80, 0x7ff), rng.randint(0x800, 0xd7ff), rng.randint(0xe000, 0xffff), rng.randint(0x10000, 0x10ffff)])
            out.append(chr(c))
    return "".join(out)


def rand_ident(rng):
    return rng.choice(["x", "y", "foo", "_a1", "f", "r", "b", "rb", "br", "fr", "rf", "e", "E", "x1", "None", "True", "lambda_", "in_", "not_"])


def rand_number(rng):
    return rng.choice(["0", "1", "42", "007", "0x1F", "0X", "0b101", "0b2", "0o17", "0o8", "1.", ".5", "1.5e3", "1e", "1e+", "1e-5", "1E5", "00.5", "0.",
                       "123456789012345678901234567890", "0xg", "1_000", "1..2", "1...", ".", "..", "...", "0e0", "9" * rng.randint(1, 40)])


def rand_string_piece(rng):
    body = []
    for _ in range(rng.randint(0, 6)):
        r = rng.random()
        if r < 0.35:
            body.append("\\" + rng.choice(ESC_LETTERS) + rng.choice(["", "", "0", "41", "zz", "é", "0041", "d800", "0010ffff", "00110000", "FFFFFFFF"]))
        elif r < 0.5:
            body.append(rng.choice(WIDE))
        elif r < 0.6:
            body.append(rng.choice(["{", "}", "{{", "}}", "{x}", "{x!r}", "{x!s}", "{ x }", "{x!}", "{a[1]}", "{f(1)}", "{{x}}", "{'a'}", '{"a"}', "{x:>3}", "{x!=y}",
                                    "{x }", "{\n}", "{(}", "{)}", "{]}", "{f\"{y}\"}", "{#}"]))
        elif r < 0.7:
            body.append(rng.choice(["\n", "\r\n", "\r", "\t", "'", '"', "''", '""']))
        else:
            body.append(rng.choice(["a", "bc", " ", "#", "x=1"]))
    q = rng.choice(["'", '"', "'''", '"""'])
    pre = rng.choice(["", "", "r", "b", "br", "rb", "f", "fr", "rf", "R", "B", "F", "u"])
    end = q if rng.random() < 0.85 else rng.choice(["", q[0], "\\"])
    return pre + q + "".join(body) + end


def token_soup(rng, n, tables):
    sp = tables["spellings"]
    res = tables["reserved"]
    out = []
    indent = 0
    for _ in range(n):
        r = rng.random()
        if r < 0.35:
            out.append(rng.choice(sp))
        elif r < 0.5:
            out.append(rand_ident(rng))
        elif r < 0.58:
            out.append(rand_number(rng))
        elif r < 0.7:
            out.append(rand_string_piece(rng))
        elif r < 0.73:
            out.append(rng.choice(res))
        elif r < 0.85:
            indent = max(0, indent + rng.choice([-4, -2, -1, 0, 0, 1, 2, 4]))
            out.append(rng.choice(["\n", "\n", "\r\n", "\\\n", "\\\r\n", "\n\n", "\n#c\n", "\n  # c\r\n"]) + rng.choice([" ", " ", " ", "\t"]) * indent)
        elif r < 0.9:
            out.append(rng.choice(WIDE + ["\\", "!", "$", "?", "`", "@", "\r", "\t", "\x0c"]))
        else:
            out.append("#" + rand_text(rng, rng.randint(0, 5)).replace("\n", " "))
        if rng.random() < 0.6:
            out.append(" ")
    return "".join(out)


def mutate(rng, s, tables):
    if not s:
        return rand_text(rng, 5)
    for _ in range(rng.choice([1, 1, 2, 3, 6])):
        i = rng.randint(0, len(s))
        k = rng.random()
        if k < 0.15:
            j = min(len(s), i + rng.randint(1, 20))
            s = s[:i] + s[j:]
        elif k < 0.3:
            s = s[:i] + rng.choice(WIDE) + s[i:]
        elif k < 0.45:
            s = s[:i] + rng.choice(tables["spellings"] + ["\\", "\n", "\r\n", "\t", "    ", " ", "#", "\r", "!", "\\\n"]) + s[i:]
        elif k < 0.55:
            j = min(len(s), i + rng.randint(1, 40))
            s = s[:j] + s[i:j] + s[j:]
        elif k < 0.65:
            s = s[:i] + rand_string_piece(rng) + s[i:]
        elif k < 0.72:
            s = s.replace("\n", "\r\n") if rng.random() < 0.5 else s.replace("\n", "\r", 1)
        elif k < 0.8:
            # change the indentation of one line
            ls = s.split("\n")
            j = rng.randrange(len(ls))
            ls[j] = rng.choice(["", " ", "  ", "\t", "   ", "        "]) + ls[j].lstrip(" ") if rng.random() < 0.7 else " " + ls[j]
            s = "\n".join(ls)
        elif k < 0.88:
            s = s[:i]   # truncate: unterminated everything
        elif k < 0.94:
            j = s.find('"', i)
            if j >= 0:
                s = s[:j] + rng.choice(['f"', 'b"', 'r"', 'rb"', 'fr"', '"""', "'"]) + s[j + 1:]
        else:
            j = min(len(s), i + 1)
            s = s[:i] + rng.choice(["(", "[", "{", ")", "]", "}", ":", "lambda ", "*", "**", "/", "=", "->"]) + s[j:]
    return s


def corner_cases(rng, full):
    """Systematic corner cases: every escape head x follower width x literal kind, unterminated literals,
    line endings, continuations, tabs/form feeds, f-string shapes."""
    out = []
    followers = ["", "0", "4", "41", "zz", "g", "é", "中", "😀", "\n", "'", '"', "{", "}", "0041", "00e9", "d800", "dfff", "e000", "0010ffff", "00110000", "ffffffff", "1234", "400", "377", "8"]
    heads = list("nrtabfvxuU0123457\\'\"qz{}") + ["\n", "\r", "\r\n", "é", "中", "😀", ""]
    pre = ["", "r", "b", "br", "rb", "f", "fr"]
    quotes = ['"', "'", '"""', "'''"]
    for p in pre:
        for q in (quotes if full else quotes[:2] + quotes[2:3]):
            for h in heads:
                fs = followers if full else rng.sample(followers, 5) + ["é", "😀"]
                for f in fs:
                    body = "a\\" + h + f
                    out.append("x = " + p + q + body + q)
                    if full or rng.random() < 0.2:
                        out.append("x = " + p + q + body)            # unterminated
                        out.append("x = " + p + q + "é" + body + "é" + q + " # c")
    ends = ["", "\n", "\r\n", "\r", "\\", "\\\n", " ", "\t", "\x0c", "#", "é"]
    opens = ['"', "'", '"""', "'''", 'f"', "f'", 'f"""', 'b"', "b'''", 'r"', 'rb"', 'fr"', 'f"{', 'f"{x', 'f"{x!', 'f"{x!r', 'f"{x}', 'f"{{', 'f"}', 'f"{\'', 'f"{f\'',
             'f"{f\'{', "(", "[", "{", "((", "x = (1,", "def f(", "def f():", "def f():\n", "def f():\n  ", "if x:\n  y\n ", "lambda", "lambda x", "x = [i for", "load(",
             "load('a',", "x.", "x[", "x[1:", "not", "-", "x if", "x if y", "x if y else", "1 <", "for", "for x in", "return", "a = b =", "a +=", "*", "**", "@", "x: ", "def f(x:", "def f() ->"]
    for o in opens:
        for e in ends:
            out.append(o + e)
            out.append("a = 1\n" + o + e)
            out.append("if a:\n    " + o + e)
    # indentation shapes
    for a in range(0, 5):
        for b in range(0, 5):
            for c in range(0, 5):
                out.append("if x:\n" + " " * a + "y\n" + " " * b + "z\n" + " " * c + "w")
    for ws in ["\t", " \t", "\t ", "  \t  ", "\x0c", " \x0c", "\r", " \r ", "\r\r\n"]:
        out += ["if x:\n" + ws + "y\n", ws + "x\n", "x\n" + ws + "\n", "x\n" + ws + "# c\n" + ws + "y", "(\n" + ws + "x)", "x = 1" + ws + "\n", "x" + ws + "=" + ws + "1"]
    for nl in ["\n", "\r\n", "\r", "\n\r", "\r\r\n"]:
        out += ["x = 1" + nl + "y = 2" + nl, "x = \\" + nl + "1", "if x:" + nl + "  y" + nl + "z", '"""a' + nl + 'b"""', '"a' + nl + 'b"', '"a\\' + nl + 'b"', "# c" + nl + "x",
                "x # c" + nl, "(" + nl + "1" + nl + ")", 'f"""a' + nl + '{x}"""', 'f"a' + nl + '"', 'f"{x' + nl + '}"', "x" + nl + "  # c" + nl + "  # d" + nl, nl, nl + nl, " " + nl + " "]
    return out


def nesting_cases(rng, depths):
    out = []
    for n in depths:
        out += ["(" * n + "1" + ")" * n, "[" * n + "]" * n, "{" * n + "1:2" + "}" * n, "(" * n, "[" * n + "1", ")" * n, "]" * n + "}" * n,
                "x = " + "[" * n + "i for i in y" + "]" * n, "f(" * n + "1" + ")" * n, "x" + "[0]" * n, "x" + ".a" * n, "x" + "(1)" * n,
                "not " * n + "x", "-" * n + "x", "~+-" * n + "1", "x = " + "lambda: " * n + "1", "1 if x else " * n + "2", "x = " + "1 + " * n + "1",
                "x = " + "(1, " * n + "2" + ")" * n, "x = " + "{1: " * n + "2" + "}" * n, " or ".join(["x"] * n), "x = " + "a and " * n + "b", "x" + " < y" * min(n, 3),
                "".join(" " * i + "if x:\n" for i in range(n)) + " " * n + "pass\n",
                "".join(" " * i + "def f%d():\n" % i for i in range(n)) + " " * n + "return 1\n",
                "".join(" " * i + "for a in b:\n" for i in range(n)) + " " * n + "break\n",
                "".join(" " * (2 * i) + "if x:\n" for i in range(n)) + " " * (2 * n) + "pass\n" + "".join(" " * (2 * (n - i - 1)) + "y = 1\n" for i in range(n)),
                "if x:\n" + "".join(" " * (i + 1) + "y\n" for i in range(n)),
                "x = " + "".join("f'{" if i % 2 == 0 else 'f"{' for i in range(n)) + "1" + "".join("}'" if (n - 1 - i) % 2 == 0 else '}"' for i in range(n)),
                "x = f'" + "{(" * n + "1" + ")}" * n + "'", "x = f'" + "{x}" * n + "'", "x = f'" + "{{" * n + "}}" * n + "'",
                "def f(" + ", ".join("a%d" % i for i in range(n)) + "): pass", "f(" + ", ".join("a%d=%d" % (i, i) for i in range(n)) + ")",
                "x = [" + ", ".join(["1"] * n) + "]", "load('m', " + ", ".join("'a%d'" % i for i in range(n)) + ")",
                "x: " + "list[" * n + "int" + "]" * n + " = 1", "def f(x: " + "a[" * n + "b" + "]" * n + ") -> " + "c | " * n + "d: pass",
                "x = 1" + "; x = 1" * n, "x = 1 " + "\\\n" * n + "+ 2", "\n" * n, "#c\n" * n + "x", "(" + "\n" * n + ")", "if x:\n" + "  #c\n" * n + "  y\n"]
    return out


def big_cases(rng, files, tables, count, limit=65536):
    out = []
    for _ in range(count):
        k = rng.random()
        target = rng.choice([4096, 16384, 32768, limit - 1, limit])
        if k < 0.4 and files:
            s = ""
            while len(s.encode()) < target:
                s += rng.choice(files) + "\n"
            s = s.encode()[:target].decode("utf-8", "ignore")
            if rng.random() < 0.5:
                s = mutate(rng, s, tables)
        elif k < 0.55:
            s = "x = " + rng.choice(['"', "'''", 'b"', 'f"', 'r"']) + rng.choice(["a", "é", "\\n", "😀", "{x}", "\\x41"]) * (target // 4)
            s += rng.choice(['"', "'''", ""])
        elif k < 0.7:
            s = token_soup(rng, target // 6, tables)
        elif k < 0.8:
            s = "x = " + " + ".join(["y"] * (target // 4))
        elif k < 0.9:
            s = rand_text(rng, target // 3)
        else:
            s = "# " + "c" * target + "\nx = 1\n" + "    \n" * 100
        out.append(s.encode()[:limit].decode("utf-8", "ignore"))
    return out


def corpus_cases():
    d = os.path.join(sv.ROOT, "corpus", PROP)
    out = []
    if os.path.isdir(d):
        for f in sorted(os.listdir(d)):
            if f.endswith(".json"):
                out += json.load(open(os.path.join(d, f)))["cases"]
    return out


def gen_cases(ctx):
    rng = ctx.rng
    tables = _tables()
    files, snippets = seeds()
    small = [f for f in files if len(f) <= 3000]
    cases = []   # (origin, text or bytes)

    def add(origin, s):
        cases.append((origin, s))

    for s in corpus_cases():
        add("corpus", s)
    for s in snippets:
        add("snippet", s)
    for s in files:
        if len(s.encode()) <= 65536:
            add("seed", s)
    cc = corner_cases(rng, not ctx.quick())
    for s in (cc if not ctx.quick() else rng.sample(cc, min(len(cc), 8000))):
        add("corner", s)
    for s in nesting_cases(rng, [1, 2, 3, 10, 50, 100, 199, 200]):
        add("nesting", s)
    for _ in range(ctx.n(8000, 60000)):
        add("soup", token_soup(rng, rng.choice([1, 2, 3, 5, 8, 13, 30, 80]), tables))
    for _ in range(ctx.n(8000, 60000)):
        base = rng.choice(snippets) if rng.random() < 0.5 or not small else rng.choice(small)
        add("mutant", mutate(rng, base, tables))
    for _ in range(ctx.n(4000, 30000)):
        add("utf8", rand_text(rng, rng.choice([1, 2, 3, 5, 10, 30, 100])))
    for _ in range(ctx.n(1500, 10000)):
        add("bytes", bytes(rng.getrandbits(8) if rng.random() < 0.6 else rng.choice(b" \n\"'\\{}#()[]xf=:") for _ in range(rng.choice([1, 2, 4, 8, 32, 128]))))
    for s in big_cases(rng, files, tables, ctx.n(80, 600)):
        add("big", s)
    return cases


# ------------------------------------------------------------------------------------------------
# evaluation

MODEL_LIMIT = 6000   # bytes: larger texts are checked on the implementation only


def to_case(rng, origin, s):
    if isinstance(s, bytes):
        try:
            s = s.decode("utf-8")
        except UnicodeDecodeError:
            return {"hex": s.hex(), "d": [STANDARD, ALLOPT], "o": origin}
    s = "".join(ch for ch in s if not 0xD800 <= ord(ch) <= 0xDFFF)
    return {"src": s, "d": dialect_set(rng, len(s)), "o": origin}


def run_impl(ctx, cases, timeout=1500):
    """Sharded child processes; a shard that dies (abort, stack overflow, signal, watchdog) loses its buffered
    results, so its cases are re-run by recursive halving down to the offending input(s)."""
    if not os.environ.get("SV_CASE_TIMEOUT_MS"):
        sv.ENV["SV_CASE_TIMEOUT_MS"] = "30000"
    rc, log, res = sv.run_harness_sharded(ctx, "lex", cases, timeout=timeout)
    crashes = []
    pending = [i for i, r in enumerate(res) if r is None]
    if not pending:
        return res, crashes
    import concurrent.futures
    import threading
    lock = threading.Lock()
    counter = [0]

    def resolve(idx):
        if not idx:
            return
        with lock:
            counter[0] += 1
            tag = "bisect%d" % counter[0]
        rc1, log1, r1 = sv.run_harness(ctx, "lex", [cases[i] for i in idx], tag=tag, timeout=600)
        missing = []
        for i, r in zip(idx, r1):
            if r is None:
                missing.append(i)
            else:
                res[i] = r
        if not missing:
            return
        if len(idx) == 1:
            with lock:
                crashes.append((idx[0], rc1, log1[-300:]))
            return
        mid = len(idx) // 2
        resolve(idx[:mid])
        resolve(idx[mid:])

    blocks = sv.NPROC
    size = (len(pending) + blocks - 1) // blocks
    parts = [pending[b * size:(b + 1) * size] for b in range(blocks)]
    with concurrent.futures.ThreadPoolExecutor(max_workers=blocks) as ex:
        list(ex.map(resolve, [p for p in parts if p]))
    crashes.sort()
    return res, crashes


def run_model(ctx, texts):
    """texts: list of (id, str).  Returns ({id: canonical string}, error or None)."""
    okd, exe = sv.ocaml_driver("Extract/LexX.vo", "lex_model", "lex_driver")
    if not okd:
        return {}, "could not build the extracted model: " + exe[-400:]
    names = _tables()["token_names"]
    lines = ["%d %s" % (i, " ".join("%x" % ord(ch) for ch in t)) for i, t in texts]
    okr, outl = sv.run_driver_sharded(ctx, exe, lines, "lex", timeout=900)
    out = {}
    done = 0
    for l in outl:
        if l.startswith("done "):
            done += int(l.split()[1])
            continue
        if "\t" not in l:
            continue
        i, v = l.split("\t", 1)
        out[int(i)] = re.sub(r"(^|;)T(\d+) ", lambda m: m.group(1) + names[int(m.group(2))] + " ", v)
    if not okr or done != len(lines):
        return out, "extracted model driver failed (%d of %d cases): %s" % (done, len(lines), outl[-2:])
    return out, None


def coq_crosscheck(ctx, model, texts, k=120):
    """Re-run a sample of the texts inside Coq (Lex/Cases.v, vm_compute) and compare the spans with what the
    extracted OCaml model printed: checks extraction + ocaml/lex_driver.ml themselves."""
    short = [(i, t) for i, t in texts if len(t) <= 200 and i in model]
    if not short:
        return 0, []
    sample = ctx.rng.sample(short, min(k, len(short)))
    rows = ["[" + "; ".join(str(ord(ch)) for ch in t) + "]" for _, t in sample]
    text = ("From Coq Require Import NArith List.\nFrom SV Require Import Lex.Model Lex.Cases.\nImport ListNotations.\nOpen Scope N_scope.\n"
            "Eval vm_compute in (map spans_of [\n%s]).\n" % ";\n".join(rows))
    (rc, out), = sv.coq_eval_files(ctx, [("lex_sample", text)], timeout=600)
    vals = sv.coq_values(out) if rc == 0 else None
    if not vals or len(vals[0]) != len(sample):
        return 0, [("cases-v-route", "coqc failed on the sample: " + out[-300:])]
    bad = []
    for (i, t), v in zip(sample, vals[0]):
        spans, err = v
        toks = [x for x in model[i].split("|")[0].split(";") if x]
        mspans = [(int(x.split(" ")[1]), int(x.split(" ")[2])) for x in toks]
        e = model[i].split("|")[1]
        merr = None if e == "-" else (int(e.split(" ")[1]), int(e.split(" ")[2]))
        cspans = [tuple(x) for x in spans]
        cerr = None if err == "None" else tuple(err[1])
        if cspans != mspans or cerr != merr:
            bad.append(("cases-v-route", "Coq vm_compute and the extracted model differ on %r: %s %s vs %s %s" % (t, cspans[:6], cerr, mspans[:6], merr)))
    return len(sample), bad[:3]


def span_mode():
    """0: lex_fstring_content computes the escape error span as (end-1, end) (F2); 1: repaired (model: from the backslash)."""
    try:
        rep = json.load(open(os.path.join(sv.BUILD, "extract_report.json")))
        return 1 if rep["items"]["LexC.fstring_escape_span_begin"]["value"].startswith("1") else 0
    except Exception:  # noqa: BLE001
        return 0


def same_but_escape_begin(src, ic, m):
    """Repaired tree only: the model places the begin of the f-string escape error at the backslash; a repair may
    choose another boundary between the backslash and the end.  Everything else must be equal."""
    if ic.split("|")[0] != m.split("|")[0]:
        return False
    a, b = ic.split("|")[1].split(" "), m.split("|")[1].split(" ")
    if len(a) != 3 or len(b) != 3 or a[0] != "InvalidEscapeSequence" or b[0] != a[0] or a[2] != b[2]:
        return False
    bs = src.encode("utf-8")
    lo, mlo, hi = int(a[1]), int(b[1]), int(a[2])
    return mlo <= lo <= hi and (lo == len(bs) or (bs[lo] & 0xC0) != 0x80)


def case_text(c):
    return c["src"] if "src" in c else c.get("hex", "")


def impl_canon(r):
    e = r["lex"]["e"]
    return r["lex"]["t"] + "|" + ("-" if e is None else "%s %d %d" % (e[0], e[1], e[2]))


def is_f2(src, r, model):
    """The known defect, narrowly: the error of `lex_fstring_content` for a failed escape whose last consumed
    character is multi-byte; span = (end-1, end) with `end` a boundary; the faithful model computes the same span."""
    e = r["lex"]["e"]
    if not e or e[0] != "InvalidEscapeSequence" or "`\\`" not in e[3]:
        return False
    b = src.encode("utf-8")
    lo, hi = e[1], e[2]
    if hi != lo + 1 or hi > len(b):
        return False

    def boundary(i):
        return i == len(b) or (b[i] & 0xC0) != 0x80
    if not boundary(hi) or boundary(lo):
        return False
    if model is not None and model != impl_canon(r):
        return False
    # inside an f-string: the last FStringStart is not closed in the token stream
    toks = [t.split(" ")[0] for t in r["lex"]["t"].split(";") if t]
    depth = 0
    for t in toks:
        if t == "FStringStart":
            depth += 1
        elif t == "FStringEnd":
            depth -= 1
    return depth > 0


def first_diff(a, b):
    ta, tb = a.replace("|", ";|").split(";"), b.replace("|", ";|").split(";")
    for i, (x, y) in enumerate(zip(ta, tb)):
        if x != y:
            return i, x, y
    return min(len(ta), len(tb)), (ta[len(tb)] if len(ta) > len(tb) else "<end>"), (tb[len(ta)] if len(tb) > len(ta) else "<end>")


def panic_key(msg):
    m = re.sub(r"[0-9]+", "N", str(msg))
    m = re.sub(r"[^A-Za-z ]+", " ", m).split()
    return "C05/panic/" + "-".join(m[:6]).lower()


def evaluate(ctx, raw_cases, with_model=True):
    rng = ctx.rng
    cases = [to_case(rng, o, s) for o, s in raw_cases]
    res, crashes = run_impl(ctx, cases)
    ctx.log("harness done on %d cases (%d crashed)" % (len(cases), len(crashes)))
    failures = []
    for i, rc, log in crashes:
        c = cases[i]
        failures.append({"key": "C05/crash/exit-%s" % rc, "what": "the process died (exit status %s: abort, stack overflow, signal or time limit) on input %r %s"
                         % (rc, case_text(c)[:200], log.strip()[-120:]), "replay": {"case": c, "rc": rc}})
    model_in = []
    if with_model:
        for i, (c, r) in enumerate(zip(cases, res)):
            if r and "src" in c and "lex" in r and r["lex"] and len(c["src"].encode()) <= MODEL_LIMIT:
                model_in.append((i, c["src"]))
    model, merr = run_model(ctx, model_in) if model_in else ({}, None)
    broken = []
    if merr:
        broken.append(("model-run", merr))
    ctx.log("extracted Coq model evaluated on %d texts" % len(model))
    n_cross = 0
    if model_in and not merr:
        n_cross, cb = coq_crosscheck(ctx, model, model_in)
        broken += cb
        ctx.log("cases.v route: %d texts re-run inside Coq" % n_cross)
    mode = span_mode()
    grams, msgs, sizes, origins = set(), set(), {}, {}
    evals = 0
    compared = 0
    accepted = 0
    for i, (c, r) in enumerate(zip(cases, res)):
        src = c.get("src")
        origins[c["o"]] = origins.get(c["o"], 0) + 1
        if r is None:
            continue
        if "panic" in r:
            failures.append({"key": panic_key(r["panic"]), "what": "panic %r on input %r" % (r["panic"][:200], case_text(c)[:300]),
                             "replay": {"case": c, "impl": r}})
            continue
        n = r["len"]
        b = 0 if n == 0 else n.bit_length()
        sizes["<=2^%d" % b] = sizes.get("<=2^%d" % b, 0) + 1
        evals += 1 + len(r["p"])
        toks = [t.split(" ", 1)[0] for t in r["lex"]["t"].split(";") if t]
        for j in range(len(toks) - 2):
            grams.add((toks[j], toks[j + 1], toks[j + 2]))
        m = model.get(i)
        # (a) span facts on the implementation: these are the property itself
        seen_codes = set()
        for fact in r["bad"]:
            code, detail = fact.split("|", 1)
            if code in seen_codes:
                continue
            seen_codes.add(code)
            if code == "error-span-not-char-boundary" and src is not None and is_f2(src, r, m):
                key = F2_KEY
            else:
                key = "C05/%s/%s" % (code, (r["lex"]["e"] or ["parser"])[0] if code.startswith("error") else detail.split(" ")[0])
            failures.append({"key": key, "what": "%s: %s on input %r (specification: spans lie inside the file, on character boundaries, inside the parent, "
                             "and cover their own text); model says %s" % (code, detail, case_text(c)[:300], (m or "n/a")[-120:]),
                             "replay": {"case": c, "impl": {"lex": r["lex"], "bad": r["bad"]}, "model": m}})
        # (b) dialect monotonicity
        ps = r["p"]
        for p in ps:
            if not p["ok"]:
                msgs.add(re.sub(r"[`'\"].*", "", p["msg"])[:60])
            else:
                accepted += 1
        pairs = [(p1, p2) for p1 in ps if p1["ok"] for p2 in ps if p1 is not p2 and d_le(p1["d"], p2["d"])]
        pairs.sort(key=lambda pq: sum(1 for k in range(9) if pq[0]["d"][k] != pq[1]["d"][k]))   # report the closest pair
        for p1, p2 in pairs:
            if True:
                if not p2["ok"] or p2["h"] != p1["h"]:
                    flag = [k for k in range(9) if p1["d"][k] != p2["d"][k]]
                    failures.append({"key": "C05/dialect-not-monotone/%s" % ("rejects" if not p2["ok"] else "tree-changes"),
                                     "what": "accepted under dialect %s but %s under the larger dialect %s (flags differing: %s): %r %s"
                                     % (p1["d"], "rejected" if not p2["ok"] else "a different tree", p2["d"], flag, case_text(c)[:300], p2.get("msg", "")),
                                     "replay": {"case": c, "d1": p1, "d2": p2}})
                    break
        # (d) tie with the Coq model
        if m is not None:
            compared += 1
            ic = impl_canon(r)
            if ic != m and not (mode == 1 and same_but_escape_begin(src, ic, m)):
                k, x, y = first_diff(ic, m)
                failures.append({"key": "C05/model-differs/%s" % (x.strip("|").split(" ")[0] or "token"),
                                 "what": "lexer and Coq model disagree at lexeme %d on %r: implementation `%s`, model `%s`" % (k, src[:300], x, y),
                                 "replay": {"case": c, "impl": ic, "model": m}})
    stats = {"evaluations": evals, "grams": grams, "msgs": msgs, "sizes": sizes, "origins": origins, "compared": compared, "accepted": accepted, "crosschecked": n_cross,
             "cases": cases, "res": res}
    return failures, broken, stats


def correspond(ctx):
    raw = gen_cases(ctx)
    ctx.log("generated %d inputs" % len(raw))
    failures, broken, st = evaluate(ctx, raw)
    ctx.log("evaluations=%d model-compared=%d accepted-parses=%d distinct 3-grams=%d distinct messages=%d failures=%d"
            % (st["evaluations"], st["compared"], st["accepted"], len(st["grams"]), len(st["msgs"]), len(failures)))
    cases = st["cases"]
    samples = []
    for o in ("corner", "soup", "mutant", "nesting"):
        for c in cases:
            if c["o"] == o:
                samples.append({"origin": o, "src": case_text(c)[:120]})
                break
    cov = {
        "evaluations": st["evaluations"],
        "distinct_nontrivial": len(st["grams"]) + len(st["msgs"]),
        "rule": "one evaluation = one run of the real Lexer or of AstModule::parse under one dialect on one input (with the full span walk); "
                "distinct_nontrivial = distinct token-kind 3-grams of the real token streams + distinct error messages (text before the first quote) seen",
        "distinct_token_3grams": len(st["grams"]),
        "distinct_error_messages": len(st["msgs"]),
        "inputs": len(cases),
        "traces_validated_against_impl": st["compared"],
        "model_sample_rerun_inside_coq": st["crosschecked"],
        "accepted_parses": st["accepted"],
        "input_distribution": {"origin": st["origins"], "size_bytes": st["sizes"]},
        "max_nesting": 200,
        "exhaustive": False,
        "samples": samples,
    }
    return {"coverage": cov, "failures": failures, "broken": broken}


def offset_sweep(ctx, src):
    """Insert 1..4-byte characters at every position of a disagreeing input (DESIGN C05 search)."""
    out = []
    for i in range(len(src) + 1):
        for ch in ("a", "é", "中", "😀"):
            out.append(("sweep", src[:i] + ch + src[i:]))
    return out[:4000]


def search(ctx, broken):
    old = ctx.tier
    ctx.tier = "thorough"
    try:
        raw = gen_cases(ctx)
        failures, _, st = evaluate(ctx, raw)
        if not failures:
            # sweep around the corpus and corner cases with multi-byte insertions
            extra = []
            for o, s in raw:
                if o in ("corpus",) and isinstance(s, str) and len(s) < 60:
                    extra += offset_sweep(ctx, s)
            if extra:
                f2, _, _ = evaluate(ctx, extra[:100000])
                failures += f2
    finally:
        ctx.tier = old
    return {"failures": failures, "coverage": {"evaluations": st["evaluations"]}}


def replay(ctx, rep):
    c = rep.get("replay", {}).get("case")
    if not c:
        return {"coverage": {}, "failures": []}
    raw = [(c.get("o", "replay"), c["src"] if "src" in c else bytes.fromhex(c["hex"]))]
    failures, broken, st = evaluate(ctx, raw)
    return {"coverage": {"evaluations": st["evaluations"], "distinct_nontrivial": 1, "samples": [c]}, "failures": failures, "broken": broken}


META = {
    "category": "proof",
    "level_text": "Partial. Proved in Coq for all inputs (Properties/C05.v, 27 statements closed under the global context): the lexer model "
                  "(logos scanner rules, indentation stack, paren depth, string/bytes/f-string scanners with the code's own offset "
                  "arithmetic, extracted escape table) never runs out of fuel length+1 (every round of Lexer::next consumes a character); all "
                  "token spans are ordered, non-overlapping, within the file and on character boundaries; INDENT/DEDENT balance and the "
                  "indentation stack stays strictly increasing; escape decoding yields scalar values / bytes or an error (lone surrogates, "
                  ">0x10FFFF, \\x + non-hex are errors); `#[token]` lexemes cover exactly their spelling, identifiers a maximal identifier run, "
                  "string literals end right after their closing quote; every error span is within the file and ends on a boundary, and "
                  "starts on one except the f-string escape error, for which the boundary claim is proved REFUTED with the witness "
                  "x = f\"\\x\u00e9\" (finding F2, span 9..10) while the translator reads `start + it.pos() - 1` from the source, and proved "
                  "to HOLD for all inputs once the source computes the span from the backslash (same pinned statements, both modes compile); "
                  "span nesting at every depth for bottom-up recursive-descent trees over the lexer's monotone tokens; PARSER SPANS ON THE MODEL "
                  "(Span/ParserSpans.v = C06's recursive-descent/Pratt parser model with lexeme offsets and `last_end` threaded exactly as "
                  "parser_rd.rs does, every node annotated with its `node.ast(l, r)` span; all constructors of Parse/Ast.v: literals, "
                  "identifiers, tuples with/without parentheses, list/dict displays and comprehensions, dot, call with positional/named/*/** "
                  "arguments, index, index2, slice, lambda incl. parameters with defaults, unary, not, binary operators incl. `not in`, "
                  "conditional expression, and the one-line statements `expr` / `target = expr`): (a) erasing the spans gives exactly "
                  "Parse.Model.parse for every token list, table and fuel (so C06's grammar theorem applies to the span-tracking parser); "
                  "(c) every node's span is (begin of the first, end of the last lexeme) of a non-empty run of lexemes, a leaf is exactly its "
                  "own lexeme, children are laid out in source order over disjoint consecutive sub-runs of the parent's run, the statement "
                  "covers all lexemes of the line, and the only consumed lexemes outside an expression's span are enclosing parentheses; "
                  "(b) hence for every lexeme list with monotone in-file spans (what the lexer theorem provides) every node is ordered and "
                  "inside the file, inside its parent, siblings are ordered and non-overlapping, identifier/literal leaves have exactly "
                  "their token's span. These are theorems about the MODEL of the parser; the tie to the real parser's spans remains the AST "
                  "walk of the harness (nesting / boundaries / exact-text spans checked on the real AST of generated inputs), there is no "
                  "spanned-tree comparison between model and implementation yet. Dialect monotonicity "
                  "of validate.rs + the two parser gates, tree unchanged. NOT provable on a model and therefore searched on the real code: "
                  "absence of panics/aborts/stack overflows/hangs in lexer+parser (child processes with bisection, nesting to 200, sizes to "
                  "64 KiB), span nesting / char boundaries / exact-text spans of the real AST, monotonicity of the real parser on the dialect lattice.",
    "level_note": "Trusted: Coq kernel; extraction + ocaml/lex_driver.ml; translator; the hand-written scanner standing for logos-generated "
                  "code; harness AST walker. The parser's spans are proved on coq/Span/ParserSpans.v, a hand translation of the span bookkeeping of "
                  "parser_rd.rs on top of C06's parser model (proved to erase to it); statements other than one-line expression/assignment "
                  "statements are not in that model. "
                  "The tie is differential testing on generated inputs.",
    "technique": "Coq model of the lexer state machine with explicit UTF-8 byte offsets + invariant proofs; extracted model vs real Lexer; "
                 "structure-aware crash/span search on the real parser in child processes; dialect lattice differential",
    "design_ref": "DESIGN.md section 4 C05, section 9 F2",
}
