"""C06 The parser builds the tree the grammar prescribes, and printing it round-trips.

Proof : coq/Parse/{Tokens,Ast,Model,Grammar,Print,Proofs,ProofsFull,PrintProofs}.v + Properties/C06.v
        (Model = parser_rd.rs: Pratt loop with the binding powers re-extracted from the source on every run;
         Grammar = the stratified reference grammar; Print = ast.rs Display).
Tie   : the `parse` harness bin parses every generated text with the real `AstModule::parse`, dumps the real
        lexer's token stream, a canonical S-expression of the AST (own walker), the Display text, the re-parse
        of the Display text and its Display again.  The Coq model (extracted, ocaml/parse_driver.ml) parses the
        same token stream; CPython's `ast` (tools/pyref/c06_ast.py) parses the same text.
        Checked per case: implementation tree == model tree == reference-grammar tree (== CPython tree on the
        shared subset), accept/reject agreement, Display tokens == model printer tokens, parse(Display(t)) == t
        (f-strings desugared) and Display is a fixed point.
        Literal payloads: a literal-focused generator (LitGen) starts from intended VALUES holding every character class
        the printer escapes or the lexer treats specially, spells them in every style, and places them in every
        syntactic place; checked per case: payloads of the first parse == intended values, payloads after
        print + re-parse == payloads of the first parse.  The Coq model of fmt_string_literal / the bytes printer and of
        the lexer's decoding (Parse/Escape.v; C06_string_literal_roundtrip, C06_bytes_literal_roundtrip) is run inside Coq
        on the literal texts, payloads and Display texts observed on the implementation (literal_model_tie).
"""
import glob
import warnings
import itertools
import json
import os
import re
import sys

import sv

sys.path.insert(0, os.path.join(sv.ROOT, "tools", "pyref"))
import c06_ast  # noqa: E402

PROP = "C06"
warnings.filterwarnings("ignore", category=SyntaxWarning)
HARNESS_BINS = ["parse"]
COQ_TARGETS = ["Properties/C06.vo", "Parse/Cases.vo", "Extract/ParseX.vo"]
TRUSTED = ["extraction: ExtrOcamlBasic only; ocaml/parse_driver.ml (token names <-> constructors, S-expression writer, hand-written); "
           "OCaml 4.13.1 ocamlopt",
           "harness/src/bin/parse.rs (own AST walker -> S-expression; token dump of the real lexer)",
           "the lexer (C05's subject) is used as is: model and implementation read the same token stream",
           "tools/pyref/c06_ast.py over CPython 3.11 `ast` (validates the reference grammar on the shared subset; not part of a proof)",
           "literal generator (tools/props/C06.py LitGen): the intended value of each generated literal is the specification's value; "
           "CPython's ast.literal_eval cross-checks it at generation time for the spellings Python shares",
           "coq/Parse/EscapeCases.v rows_of_text (hex text -> rows handed to the Coq literal model; glue of the tie, not part of a theorem)"]
ASSUMPTIONS = ["statements (def/if/for/return/load, indentation) are not modelled in Coq: they are covered by the CPython comparison "
               "and the print/re-parse round trip only",
               "in the tree-level theorems (C06_print_parse_roundtrip etc.) a literal is an opaque token; that its payload survives printing "
               "is the separate character-level theorem C06_string_literal_roundtrip / C06_bytes_literal_roundtrip over the Coq model of "
               "fmt_string_literal (arms re-extracted from ast.rs on every run) and of lexer.rs string / escape / bytes_string / escape_bytes "
               "(double-quoted, non-raw: the form the printer writes); the other spellings (single / triple quotes, raw, f-string text, "
               "brace doubling of the f-string format) are covered by the literal-focused differential cases only",
               "the model/implementation tie is differential testing over exhaustive operator pairs x contexts, exhaustive "
               "argument/parameter orders, grammar-directed random expressions and token-level mutations",
               "documented Starlark/Python differences are excluded from the CPython comparison: chained comparisons, `is`, `**`, "
               "walrus, unparenthesised tuples with a trailing comma, a[i,j,k]/a[i,] subscripts, starred targets, sets, generator "
               "expressions, argument orders Python accepts after *args/**kwargs, True/False/None as keywords"]

BIN = ["or", "and", "==", "!=", "<", ">", "<=", ">=", "in", "not in", "|", "^", "&", "<<", ">>", "+", "-", "*", "/", "//", "%"]
PRE = ["not", "-", "+", "~"]
MODEL_TOKENS = {"Identifier", "Int", "Float", "String", "Or", "And", "Not", "In", "If", "Else", "Lambda", "For", "EqualEqual",
                "BangEqual", "LessThan", "GreaterThan", "LessEqual", "GreaterEqual", "Pipe", "Caret", "Ampersand", "LessLess",
                "GreaterGreater", "Plus", "Minus", "Star", "Percent", "Slash", "SlashSlash", "Tilde", "StarStar", "Equal", "Dot",
                "Comma", "Colon", "OpeningRound", "ClosingRound", "OpeningSquare", "ClosingSquare", "OpeningCurly", "ClosingCurly"}
PAYLOAD = {"Identifier", "Int", "Float", "String"}
OPERATOR_TOKENS = {"Or", "And", "Not", "In", "If", "Lambda", "EqualEqual", "BangEqual", "LessThan", "GreaterThan", "LessEqual",
                   "GreaterEqual", "Pipe", "Caret", "Ampersand", "LessLess", "GreaterGreater", "Plus", "Minus", "Star", "Percent",
                   "Slash", "SlashSlash", "Tilde"}

CONTEXTS = ["{0}", "f({0})", "f(k = {0})", "f(*{0})", "f(**{0})", "f(x, {0}, y)", "g.h({0})", "x[{0}]", "x[{0}:]", "x[:{0}]",
            "x[::{0}]", "x[{0}:{0}:{0}]", "[x for x in y if {0}]", "[x for x in {0}]", "{{x: y for x in z if {0}}}", "lambda: {0}",
            "lambda p = {0}: p", "u if {0} else v", "u if v else {0}", "{{{0}: {0}}}", "[{0}, {0}]", "({0})", "({0},)", "x = {0}",
            "{0}, {0}", "x[{0}, {0}]", "(lambda q: q)({0})"]
QUICK_CONTEXTS = CONTEXTS


# ------------------------------------------------------------------------------------------------
# generators

def pair_forms():
    """Every ordered pair of operators (21 binaries, 4 prefixes, the conditional, lambda) in minimal-parenthesis form."""
    out = []
    for o1 in BIN:
        for o2 in BIN:
            out.append("a %s b %s c" % (o1, o2))
    for p in PRE:
        for o in BIN:
            out.append("%s a %s b" % (p, o))
            out.append("a %s %s b" % (o, p))
        for q in PRE:
            out.append("%s %s a" % (p, q))
    for o in BIN:
        out += ["a %s b if c else d" % o, "a if b %s c else d" % o, "a if b else c %s d" % o,
                "lambda: a %s b" % o, "a %s lambda: b" % o, "lambda p: p %s lambda q: q" % o]
    for p in PRE:
        out += ["%s a if b else c" % p, "a if %s b else c" % p, "a if b else %s c" % p, "%s lambda: a" % p, "lambda: %s a" % p]
    out += ["a if b else c if d else e", "a if b if c else d else e", "(a if b else c) if d else e", "a if (b if c else d) else e",
            "lambda: a if b else c", "a if b else lambda: c", "a if lambda: b else c", "lambda: lambda: a", "(lambda: a) if b else c",
            "lambda x: x, y", "lambda x, y: (x, y)", "lambda: (yield_)", "a.b.c", "a.b(c)[d].e", "-a.b", "(-a).b", "- -a", "+-~a",
            "~a[b]", "-a(b)", "(-a)(b)", "(-a)[b]", "(-a)[b:c]", "-(a + b)", "(a)", "((a))", "()", "(a,)", "(a, b)", "(a, b,)",
            "[]", "[a]", "[a,]", "[a, b]", "{}", "{a: b}", "{a: b,}", "{a: b, c: d}", "1 .real", "(1).real", "1.5.real", "a[b][c]",
            "a[:]", "a[::]", "a[b:]", "a[:b]", "a[b:c]", "a[b:c:d]", "a[::d]", "a[b::d]", "a[:c:d]", "a[b::]", "a[b:c:]",
            "a not in b", "not a in b", "not a not in b", "a in not b", "a not b", "a not in not b", "not not a",
            "[a for a in b]", "[a for a in b if c]", "[a for a in b for c in d]", "[a for a in b if c if d]", "[a for a, b in c]",
            "[a for (a, b) in c]", "[a for [a, b] in c]", "[a for a.b in c]", "[a for a[0] in c]", "[a for a | b in c]",
            "[a for a in b or c]", "[a for a in b if c else d]", "[a for a in lambda: b]", "[a if b else c for d in e]",
            "[lambda: a for b in c]", "{a: b for c in d}", "{a: b for c in d if e}", "[a for a in b,]", "[a for a, in b]",
            "a = b", "a, b = c", "a.b = c", "a[b] = c", "(a, b) = c", "[a, b] = c", "a + b = c", "f(a) = c", "a = b = c", "(a) = b",
            "a, b = c, d", "a = b,", "a, = b", "a,", "a, b", "a, b,", "(a, b), c = d", "a = lambda: b", "a = b if c else d",
            "f()", "f(a)", "f(a,)", "f(a, b)", "f(,)", "f(a b)", "f(a = b)", "f(a = b,)", "f(*a)", "f(**a)", "f(a, *b, **c)",
            "f(a, b = c, *d, **e)", "f(a = b, c)", "f(*a, b)", "f(**a, b)", "f(**a, *b)", "f(*a, *b)", "f(**a, **b)", "f(a = b, a = c)",
            "f(*a, b = c)", "f(**a, b = c)", "f(a.b = c)", "f((a) = c)", "f(a == b)", "f(a if b else c)", "f(a for a in b)",
            "f(a)(b)", "f(a).b(c)", "f(g(h(a)))", "f(a not in b)", "f(not a)", "f(lambda: a)", "f(lambda a: a, b)", "f(a[b], c.d, e(f))"]
    return out


def triple_forms():
    return ["a %s b %s c %s d" % t for t in itertools.product(BIN, repeat=3)]


ARG_KINDS = ["a%d", "k%d = v", "*s%d", "**d%d"]
PARAM_KINDS = ["p%d", "p%d = 1", "*", "*a%d", "**k%d", "/"]


def order_forms(maxlen):
    """All argument orders and all lambda parameter orders up to `maxlen` items."""
    out = []
    for n in range(0, maxlen + 1):
        for combo in itertools.product(range(len(ARG_KINDS)), repeat=n):
            out.append(("args", "f(%s)" % ", ".join((ARG_KINDS[k] % i) if "%d" in ARG_KINDS[k] else ARG_KINDS[k] for i, k in enumerate(combo))))
        for combo in itertools.product(range(len(PARAM_KINDS)), repeat=n):
            ps = ", ".join((PARAM_KINDS[k] % i) if "%d" in PARAM_KINDS[k] else PARAM_KINDS[k] for i, k in enumerate(combo))
            out.append(("params", "lambda %s: 0" % ps))
            out.append(("defparams", "def f(%s): pass" % ps))
    out += [("args", "f(k = 1, k = 2)"), ("args", "f(k = 1, j = 2, k = 3)"), ("params", "lambda p, p: 0"), ("params", "lambda p, *p: 0"),
            ("params", "lambda p, **p: 0"), ("params", "lambda *p, **p: 0"), ("defparams", "def f(p, p): pass")]
    return out


NAMES = ["a", "b", "c", "d", "e", "x", "y", "z", "foo", "_bar", "True", "None"]
ATOMS = NAMES + ["0", "1", "2", "42", "1.5", "0.25", '"s"', '"two words"', '""']


class ExprGen:
    """Random derivations of the shared expression grammar (always valid in Starlark and in Python)."""

    def __init__(self, rng):
        self.rng = rng

    def test(self, d):
        r = self.rng.random()
        if d > 0 and r < 0.08:
            return self.lam(d)
        e = self.level(0, d)
        if d > 0 and r > 0.85:
            e = "%s if %s else %s" % (e, self.level(0, d - 1), self.test(d - 1))
        return e

    def lam(self, d):
        n = self.rng.randint(0, 3)
        ps = []
        shape = self.rng.choice(["plain", "defaults", "star", "kw", "args"])
        for i in range(n):
            ps.append("p%d" % i + (" = " + self.test(d - 1) if shape == "defaults" and i >= n // 2 else ""))
        if shape == "star" and n > 0:
            ps.insert(self.rng.randint(0, n - 1), "*")
        if shape == "args":
            ps.append("*va")
        if shape in ("kw", "args") and self.rng.random() < 0.5:
            ps.append("**kw")
        return "lambda %s: %s" % (", ".join(ps), self.test(d - 1))

    LEVELS = [["or"], ["and"], None, ["==", "!=", "<", ">", "<=", ">=", "in", "not in"], ["|"], ["^"], ["&"], ["<<", ">>"],
              ["+", "-"], ["*", "/", "//", "%"]]

    def level(self, k, d):
        if k == 10:
            return self.unary(d)
        if k == 2:
            if d > 0 and self.rng.random() < 0.12:
                return "not " + self.level(2, d - 1)
            return self.level(3, d)
        ops = self.LEVELS[k]
        if k == 3:
            if d > 0 and self.rng.random() < 0.2:
                return "%s %s %s" % (self.level(4, d - 1), self.rng.choice(ops), self.level(4, d - 1))
            return self.level(4, d)
        e = self.level(k + 1, d)
        while d > 0 and self.rng.random() < 0.16:
            e = "%s %s %s" % (e, self.rng.choice(ops), self.level(k + 1, d - 1))
        return e

    def unary(self, d):
        if d > 0 and self.rng.random() < 0.12:
            return self.rng.choice(["-", "+", "~"]) + self.unary(d - 1)
        return self.primary(d)

    def primary(self, d):
        e = self.atom(d)
        while d > 0 and self.rng.random() < 0.25:
            k = self.rng.random()
            if k < 0.3:
                e += "." + self.rng.choice(["attr", "m", "x"])
            elif k < 0.6:
                e += "(%s)" % self.args(d - 1)
            elif k < 0.8:
                e += "[%s]" % self.test(d - 1)
            else:
                parts = [self.test(d - 1) if self.rng.random() < 0.6 else "" for _ in range(3)]
                e += "[%s:%s%s]" % (parts[0], parts[1], (":" + parts[2]) if self.rng.random() < 0.5 else "")
        return e

    def args(self, d):
        out = [self.test(d) for _ in range(self.rng.randint(0, 2))]
        out += ["k%d = %s" % (i, self.test(d)) for i in range(self.rng.randint(0, 2))]
        if self.rng.random() < 0.15:
            out.append("*" + self.test(d))
        if self.rng.random() < 0.15:
            out.append("**" + self.test(d))
        return ", ".join(out)

    def atom(self, d):
        if d <= 0 or self.rng.random() < 0.55:
            a = self.rng.choice(ATOMS)
            return a
        k = self.rng.random()
        if k < 0.3:
            return "(%s)" % self.test(d - 1)
        if k < 0.42:
            n = self.rng.randint(0, 3)
            items = [self.test(d - 1) for _ in range(n)]
            return "(%s%s)" % (", ".join(items), "," if n == 1 or (n > 1 and self.rng.random() < 0.2) else "")
        if k < 0.58:
            items = [self.test(d - 1) for _ in range(self.rng.randint(0, 3))]
            return "[%s%s]" % (", ".join(items), "," if items and self.rng.random() < 0.2 else "")
        if k < 0.7:
            items = ["%s: %s" % (self.test(d - 1), self.test(d - 1)) for _ in range(self.rng.randint(0, 2))]
            return "{%s}" % ", ".join(items)
        if k < 0.9:
            return "[%s%s]" % (self.test(d - 1), self.clauses(d - 1))
        return "{%s: %s%s}" % (self.test(d - 1), self.test(d - 1), self.clauses(d - 1))

    def target(self):
        k = self.rng.random()
        if k < 0.5:
            return self.rng.choice(["i", "j", "k"])
        if k < 0.7:
            return "i, j"
        if k < 0.8:
            return "(i, j)"
        if k < 0.9:
            return "[i, (j, k)]"
        return self.rng.choice(["o.f", "o[0]"])

    def clauses(self, d):
        s = " for %s in %s" % (self.target(), self.level(0, d))
        while self.rng.random() < 0.35:
            if self.rng.random() < 0.5:
                s += " for %s in %s" % (self.target(), self.level(0, d))
            else:
                s += " if %s" % self.level(0, d)
        return s


class StmtGen:
    """Small programs over all statement forms and indentation shapes (shared with Python)."""

    def __init__(self, rng):
        self.rng = rng
        self.eg = ExprGen(rng)

    def expr(self):
        return self.eg.test(self.rng.randint(0, 2))

    def small(self, in_def, in_for):
        k = self.rng.random()
        if k < 0.25:
            return self.expr()
        if k < 0.5:
            return "%s = %s" % (self.rng.choice(["v", "v, w", "(v, w)", "[v, w]", "o.f", "o[0]", "o[i].f"]), self.expr())
        if k < 0.65:
            return "%s %s %s" % (self.rng.choice(["v", "o.f", "o[0]"]), self.rng.choice(["+=", "-=", "*=", "/=", "//=", "%=", "&=", "|=", "^=", "<<=", ">>="]), self.expr())
        if k < 0.75:
            return "pass"
        if k < 0.85 and in_def:
            return self.rng.choice(["return", "return " + self.expr(), "return %s, %s" % (self.expr(), self.expr())])
        if k < 0.95 and in_for:
            return self.rng.choice(["break", "continue"])
        return self.expr()

    def simple_line(self, in_def, in_for):
        parts = [self.small(in_def, in_for) for _ in range(1 if self.rng.random() < 0.8 else 2)]
        return "; ".join(parts) + (";" if self.rng.random() < 0.05 else "")

    def suite(self, ind, d, in_def, in_for):
        """returns text after the colon (including the newline structure)"""
        if self.rng.random() < 0.25:
            return " " + self.simple_line(in_def, in_for) + "\n"
        step = self.rng.choice(["  ", "    ", " ", "        "])
        body = "\n"
        for _ in range(self.rng.randint(1, 3)):
            if self.rng.random() < 0.15:
                body += "\n" if self.rng.random() < 0.5 else (ind + step + "# comment\n")
            body += self.stmt(ind + step, d - 1, in_def, in_for)
        return body

    def stmt(self, ind, d, in_def, in_for):
        k = self.rng.random()
        if d <= 0 or k < 0.45:
            return ind + self.simple_line(in_def, in_for) + "\n"
        if k < 0.65:
            s = ind + "if %s:%s" % (self.expr(), self.suite(ind, d, in_def, in_for))
            for _ in range(self.rng.randint(0, 2)):
                s += ind + "elif %s:%s" % (self.expr(), self.suite(ind, d, in_def, in_for))
            if self.rng.random() < 0.5:
                s += ind + "else:%s" % self.suite(ind, d, in_def, in_for)
            return s
        if k < 0.82:
            return ind + "for %s in %s:%s" % (self.eg.target(), self.eg.level(0, 1), self.suite(ind, d, in_def, True))
        ps = self.rng.choice(["", "p", "p, q = 1", "p, *, q", "p, *a, **k", "*a", "**k", "p, q = 1, *a, r, s = 2, **k", "p, /, q", "p = (1, 2)"])
        return ind + "def fn%d(%s):%s" % (self.rng.randint(0, 9), ps, self.suite(ind, d, True, False))

    def program(self):
        return "".join(self.stmt("", self.rng.randint(1, 3), False, False) for _ in range(self.rng.randint(1, 4)))


TOKEN_POOL = ["a", "b", "c", "1", '"s"', "or", "and", "not", "in", "if", "else", "lambda", "for", "==", "!=", "<", ">", "<=", ">=", "|",
              "^", "&", "<<", ">>", "+", "-", "*", "/", "//", "%", "~", "**", "=", ".", ",", ":", "(", ")", "[", "]", "{", "}"]


def split_tokens(src):
    return re.findall(r'"[^"]*"|[A-Za-z_][A-Za-z0-9_]*|\d+\.\d+|\d+|==|!=|<=|>=|<<|>>|//|\*\*|[-+*/%|^&~=.,:()\[\]{}<>]', src)


def mutate(rng, src):
    ts = split_tokens(src)
    for _ in range(rng.choice([1, 1, 1, 2, 3])):
        k = rng.random()
        if not ts:
            ts = [rng.choice(TOKEN_POOL)]
        i = rng.randrange(len(ts))
        if k < 0.3:
            del ts[i]
        elif k < 0.6:
            ts.insert(i, rng.choice(TOKEN_POOL))
        elif k < 0.85:
            ts[i] = rng.choice(TOKEN_POOL)
        else:
            j = rng.randrange(len(ts))
            ts[i], ts[j] = ts[j], ts[i]
    return " ".join(ts)


def corpus_files():
    out = []
    for pat in ("**/*.star", "**/*.bzl", "**/*.sky"):
        out += glob.glob(os.path.join(sv.REPO, pat), recursive=True)
    out = [p for p in sorted(set(out)) if "/target/" not in p and "/.git/" not in p]
    return out


# ------------------------------------------------------------------------------------------------
# literal-focused generator: string / bytes / f-string literals whose VALUES contain every character class that the
# printer (ast.rs fmt_string_literal, Display for AstLiteral::Bytes) escapes or that the lexer (lexer.rs string(),
# bytes_string(), escape(), lex_fstring_content()) treats specially.  The generator starts from the intended VALUE,
# spells it in several ways, and records the payloads the tree must hold (`expect`), so the check can tell
# "the first parse built the wrong payload" from "print / re-parse changed the payload".

LIT_CLASSES = [
    ("lf", ["\n"]), ("cr", ["\r"]), ("tab", ["\t"]), ("nul", ["\0"]), ("backslash", ["\\"]), ("dquote", ['"']), ("squote", ["'"]),
    ("c0", [chr(i) for i in range(1, 32) if i not in (9, 10, 13)]), ("del", ["\x7f"]),
    ("lbrace", ["{"]), ("rbrace", ["}"]),
    ("nel", ["\x85"]), ("c1", [chr(i) for i in range(0x80, 0xa0) if i != 0x85]),
    ("latin1", ["\xe9", "\xa0", "\xad", "\xff"]),
    ("bmp", ["\u0416", "\u65e5", "\ud7ff", "\ue000", "\ufeff", "\uffff", "\u200b", "\u202e", "\u0100"]),
    ("astral", ["\U0001f600", "\U00010000", "\U0010ffff", "\U000e0001"]),
    ("combining", ["\u0301", "\u200d", "\u20e3", "\ufe0f"]),
    ("ls", ["\u2028"]), ("ps", ["\u2029"]),
    ("crlf", ["\r\n"]), ("lfcr", ["\n\r"]), ("crcr", ["\r\r"]),
    ("space", [" "]), ("text", ["ab", "two words", "Z"]),
    ("digit", ["0", "7", "8", "00"]),                                     # right after \0 / octal / hex escapes
    ("escape-letter", ["n", "r", "t", "x", "u", "U", "a", "x41", "N"]),  # right after a backslash VALUE
    ("hash", ["#"]), ("percent", ["%s", "%"]), ("quotes3", ['"""', "'''", '""', "''"]), ("bang", ["!r", "!"]),
]
SHORT_ESC = {"\n": "\\n", "\r": "\\r", "\t": "\\t", "\\": "\\\\", "\a": "\\a", "\b": "\\b", "\f": "\\f", "\v": "\\v",
             '"': '\\"', "'": "\\'"}
STR_STYLES = ["short", "short", "hex", "oct", "uni", "mixed", "rawctl", "contin", "rawcr"]
PY_STYLES = {"short", "hex", "oct", "uni", "mixed", "contin"}   # spelled the same way in Python: CPython cross-checks the intended value
QUOTES = ['"', "'", '"""', "'''"]


def cps(s):
    return " ".join("U+%04X" % ord(c) for c in s) if isinstance(s, str) else s


def _num_escape(c, oct_ok=False):
    o = ord(c)
    if oct_ok and o < 0o1000:
        return "\\%03o" % o
    return "\\x%02x" % o if o < 0x100 else ("\\u%04x" % o if o < 0x10000 else "\\U%08x" % o)


def _plain_ok(v, i, q, allow_ctl):
    """may v[i] stand for itself between the quotes q?"""
    c = v[i]
    if c in "\\\r\0":
        return False
    if c == "\n":
        return len(q) == 3
    if c == q[0]:
        if len(q) == 1:
            return False
        return i != len(v) - 1 and v[i + 1] != c and (i == 0 or v[i - 1] != c)
    if ord(c) < 32 or ord(c) == 127:
        return allow_ctl or c == "\t"
    return True


def spell_str(rng, v, style, q, brace=False):
    """Source text (without prefix) of a non-raw string literal with value v.  brace=True: f-string text
    (`{`/`}` doubled)."""
    out = []
    for i, c in enumerate(v):
        nxt = v[i + 1] if i + 1 < len(v) else ""
        if brace and c in "{}" and not (style == "hex" and rng.random() < 0.3):
            out.append(c + c)     # with style hex sometimes \x7b: the lexer decodes the escape into the text, the parser doubles it
            continue
        st = rng.choice(["short", "hex", "oct", "uni", "plain"]) if style == "mixed" else style
        plain = _plain_ok(v, i, q, allow_ctl=(style in ("rawctl", "rawcr")))
        if st == "hex":
            s = c if (c.isascii() and c.isalnum()) else _num_escape(c)
        elif st == "oct":
            s = c if (c.isascii() and c.isalnum()) or (ord(c) >= 0o1000 and plain) else _num_escape(c, oct_ok=True)
        elif st == "uni":
            s = _num_escape(c) if ord(c) > 126 else None
        else:
            s = None
        if s is None:
            if st == "plain" and plain:
                s = c
            elif c == "\0":
                s = "\\0" if (nxt == "" or nxt not in "01234567") and rng.random() < 0.7 else rng.choice(["\\000", "\\x00"])
            elif c in SHORT_ESC and (c not in "\"'" or not plain or rng.random() < 0.3):
                s = SHORT_ESC[c] if not (c in "\n\t" and plain and rng.random() < 0.5) else c
            elif plain:
                s = c
            else:
                s = _num_escape(c)
        out.append(s)
        if style == "contin" and rng.random() < 0.3:
            out.append("\\\n")
        if style == "rawcr" and rng.random() < 0.4:
            out.append(rng.choice(["\r", "\r", "\\\r\n"]))   # a raw CR is dropped by the lexer; backslash CR LF is a continuation
    if style == "rawcr" and len(q) == 3:
        out = [("\r\n" if s == "\n" else s) for s in out]
    return q + "".join(out) + q


def spell_raw(v, q, fstring=False):
    """Body of a raw literal r<q>...<q> with value v, or None when v has no raw spelling.  lexer.rs string(raw):
    a backslash keeps itself and the next character, except that it is dropped before either quote character
    (in an f-string, lex_fstring_content: only before the f-string's own quote character)."""
    out = []
    i = 0
    while i < len(v):
        c = v[i]
        if c == "\\":
            if i + 1 >= len(v):
                return None
            n = v[i + 1]
            if n in "\"'\0" or (n == "\n" and len(q) == 1) or (fstring and (n in "{}\r" or not n.isascii())):
                return None
            out.append(c + n)
            i += 2
            continue
        if c in "\r\0" or (c == "\n" and len(q) == 1) or (ord(c) < 32 and c not in "\t\n"):
            return None
        if c == q[0]:
            if len(q) == 3:
                return None
            out.append("\\" + c)
        elif fstring and c in "{}":
            out.append(c + c)
        else:
            out.append(c)
        i += 1
    return q + "".join(out) + q


def spell_bytes(rng, v, style, q):
    """Source text (without prefix) of a non-raw bytes literal with value v (a bytes object); None if impossible."""
    if style in ("utf8raw", "uesc"):
        try:
            t = v.decode("utf-8")
        except UnicodeDecodeError:
            return None
        if t.isascii():
            return None
        out = []
        for i, c in enumerate(t):
            if not c.isascii():
                out.append(c if style == "utf8raw" else ("\\u%04x" % ord(c) if ord(c) < 0x10000 else "\\U%08x" % ord(c)))
            elif c.isalnum() or c == " ":
                out.append(c)
            else:
                out.append("\\x%02x" % ord(c))
        return q + "".join(out) + q
    out = []
    for i, b in enumerate(v):
        c = chr(b)
        nxt = chr(v[i + 1]) if i + 1 < len(v) else ""
        st = rng.choice(["short", "hex", "oct"]) if style == "mixed" else style
        if st == "hex":
            s = "\\x%02x" % b
        elif st == "oct":
            s = "\\%03o" % b
        elif b == 0:
            s = "\\0" if (nxt == "" or nxt not in "01234567") else "\\000"
        elif c in SHORT_ESC and (c not in "\"'" or c == q[0] or rng.random() < 0.3):
            s = SHORT_ESC[c] if not (c in "\n\t" and len(q) == 3 and rng.random() < 0.5) else c
        elif 0x20 <= b <= 0x7e:
            s = c
        else:
            s = "\\x%02x" % b
        out.append(s)
    body = "".join(out)
    if len(q) == 3 and (body.endswith(q[0]) or q in body):
        return None
    return q + body + q


FSTRING_EXPRS = ["y", "y", "y!r", "y!s", "y.z", "y[0]", "y + 1", "g(y, 2)", "(y, z)", "[i for i in y]", "y if z else w", "-y"]


class LitGen:
    """(literal source, payloads the tree must hold, does CPython read it the same way)"""

    def __init__(self, rng):
        self.rng = rng

    def values(self, nrand):
        rng = self.rng
        singles = [(name, m) for name, ms in LIT_CLASSES for m in ms]
        pairs = [(n1 + "+" + n2, rng.choice(m1) + rng.choice(m2)) for n1, m1 in LIT_CLASSES for n2, m2 in LIT_CLASSES]
        padded = []
        for name, m in singles:
            padded += [(name + "/mid", "a" + m + "b"), (name + "/end", "ab" + m), (name + "/start", m + "ab"), (name + "/twice", m + "-" + m)]
        rnd = []
        for _ in range(nrand):
            parts = [rng.choice(rng.choice(LIT_CLASSES)[1]) for _ in range(rng.choice([2, 3, 3, 4, 5, 6, 8]))]
            rnd.append(("random", "".join(parts)))
        return singles, pairs, padded, rnd

    def str_lit(self, v, style=None, q=None):
        rng = self.rng
        style = style or rng.choice(STR_STYLES + ["raw", "raw"])
        q = q or rng.choice(QUOTES)
        if style == "raw":
            s = spell_raw(v, q)
            if s is None:
                return None
            return "r" + s, [v], False, "raw" + q
        src = spell_str(rng, v, style, q)
        py = style in PY_STYLES
        if py:
            # generator self-check: the spelling means the intended value (CPython reads these escapes the same way)
            import ast as _ast
            try:
                got = _ast.literal_eval(src)
            except Exception:  # noqa: BLE001
                got = None
            if got != v:
                raise AssertionError("literal generator: %r spelled %r is read by CPython as %r" % (v, src, got))
        return src, [v], py, style + q

    def bytes_lit(self, v, style=None, q=None):
        rng = self.rng
        style = style or rng.choice(["short", "hex", "oct", "mixed", "utf8raw", "uesc", "raw"])
        q = q or rng.choice(QUOTES)
        if style == "raw":
            try:
                t = v.decode("ascii")
            except UnicodeDecodeError:
                return None
            s = spell_raw(t, q)
            if s is None:
                return None
            return rng.choice(["rb", "br"]) + s, ["bytes:" + v.hex()], False, "rawbytes" + q
        s = spell_bytes(rng, v, style, q)
        if s is None:
            return None
        src = "b" + s
        if style in ("short", "hex", "oct", "mixed"):
            import ast as _ast
            try:
                got = _ast.literal_eval(src)
            except Exception:  # noqa: BLE001
                got = None
            if got != v:
                raise AssertionError("literal generator: %r spelled %r is read by CPython as %r" % (v, src, got))
        return src, ["bytes:" + v.hex()], False, "bytes-" + style + q

    def fstring_lit(self, texts, style=None, q=None):
        """texts: k+1 text values around k replacement fields"""
        rng = self.rng
        q = q or rng.choice(QUOTES)
        raw = style == "raw"
        style = style or rng.choice(["short", "short", "hex", "uni", "rawctl", "rawcr"])
        src, fmt, inner = "", "", []
        for i, t in enumerate(texts):
            if raw:
                s = spell_raw(t, q, fstring=True)
            else:
                s = spell_str(rng, t, style, q, brace=True)
            if s is None:
                return None
            body = s[len(q):len(s) - len(q)]
            if len(q) == 3 and not raw and body.endswith(q[0]):
                return None
            src += body
            fmt += t.replace("{", "{{").replace("}", "}}")
            if i + 1 < len(texts):
                e = rng.choice(FSTRING_EXPRS)
                if rng.random() < 0.15:
                    oq = "'" if q[0] == '"' else '"'
                    e = "d[%sk%s]" % (oq, oq)
                    inner.append("k")
                src += "{" + e + "}"
                fmt += "{!r}" if e.endswith("!r") else "{}"
        return ("fr" if raw else "f") + q + src + q, [fmt] + inner, False, "fstring-" + (style or "") + q


LIT_CONTEXTS = [  # (name, template, strings only)
    ("assign", "x = {0}\n", False), ("call", "f({0})\n", False), ("kwarg", "f(k = {0})\n", False),
    ("dictkey", "d = {{{0}: 1}}\n", False), ("dictkv", "d = {{{0}: {0}, 2: {0}}}\n", False), ("index", "v = d[{0}]\n", False),
    ("default", "def g(a = {0}, b = {0}, *c, **k):\n    pass\n", False), ("lambda-default", "h = lambda a = {0}: a\n", False),
    ("docstring", "def g():\n    {0}\n    return 1\n", False), ("module-docstring", "{0}\nx = 1\n", False),
    ("list", "v = [{0}, {0}]\n", False), ("concat", "v = {0} + {0} * 2\n", False), ("method", "v = {0}.join(y)\n", False),
    ("cond", "v = {0} if {0} else {0}\n", False), ("compr", "v = [c for c in {0} if c != {0}]\n", False),
    ("return", "def g():\n    return {0}\n", False), ("nested-suite", "def g():\n    if x:\n        for i in y:\n            z = {0}\n    return 0\n", False),
    ("format-arg", 'v = "{{}}|{{!r}}".format({0}, {0})\n', False), ("percent", "v = {0} % (1, {0})\n", False),
    ("augassign", "x += {0}\n", False), ("tuple", "v = ({0},)\n", False), ("compare", "v = {0} in {0}\n", False),
    ("load-module", 'load({0}, "a")\n', True), ("load-their", 'load("m", b = {0})\n', True),
    ("load-all", 'load({0}, "a", b = {0}, c = {0})\n', True),
]


def lit_place(template, src, payload):
    """(module text, expected payloads in tree order) for a literal placed in every {0} of the template"""
    pieces = template.split("{0}")
    text, exp = "", []
    for i, p in enumerate(pieces):
        p = p.replace("{{", "{").replace("}}", "}")
        text += p
        exp += re.findall(r'"([^"\\]*)"', p)
        if i + 1 < len(pieces):
            text += src
            exp += payload
    return text, exp


BYTE_CLASSES = [[0], [9], [10], [13], [34], [39], [92], [0x20, 0x41, 0x7e, 0x30, 0x37, 0x6e, 0x78], [1, 7, 8, 11, 12, 27, 31], [0x7f],
                [0x80, 0x85, 0x9f], [0xa0, 0xc3, 0xe9, 0xff], [0x7b, 0x7d]]


def gen_literal_cases(ctx, add, deep=False):
    rng = ctx.rng
    lg = LitGen(rng)
    mult = 3 if deep else 1
    singles, pairs, padded, rnd = lg.values(ctx.n(1500, 40000) * mult)
    str_ctx = LIT_CONTEXTS
    any_ctx = [c for c in LIT_CONTEXTS if not c[2]]

    def put(lit, ctxs, tag, dialects=("A",)):
        if lit is None:
            return 0
        src, payload, py, how = lit
        for name, tpl, _ in ctxs:
            text, exp = lit_place(tpl, src, payload)
            add(text, "literals", shared=False, model=False, d=rng.choice(dialects), tokens=False, expect=exp,
                lit={"class": tag, "spelling": how, "context": name})
        return len(ctxs)

    def some_ctx(pool, k):
        return [pool[0]] + rng.sample(pool[1:], k)

    # (a) every member of every class alone: every spelling x quote (exhaustive), in `x = L` and two other places
    for tag, v in singles:
        for style in ["short", "hex", "oct", "uni", "mixed", "rawctl", "contin", "rawcr", "raw"]:
            for q in QUOTES:
                put(lg.str_lit(v, style, q), some_ctx(str_ctx, ctx.n(1, 3)), tag, ("A", "A", "E", "S"))
    # (b) around ordinary text, (c) every ordered pair of classes, (d) random combinations
    for tag, v in padded:
        for style in ["short", "hex", "mixed", "rawcr", "raw"]:
            put(lg.str_lit(v, style), some_ctx(str_ctx, 1), tag, ("A", "A", "E", "S"))
    for tag, v in pairs:
        for _ in range(ctx.n(2, 4)):
            put(lg.str_lit(v), some_ctx(str_ctx, 1), tag, ("A", "A", "E", "S"))
    for tag, v in rnd:
        put(lg.str_lit(v), [rng.choice(str_ctx)], tag, ("A", "A", "E", "S"))
        if rng.random() < 0.5:
            put(lg.str_lit(v), [rng.choice(str_ctx)], tag)
    # (e) bytes literals: every byte value alone (exhaustive), every ordered pair of byte classes, random
    for b in range(256):
        for style in ["short", "hex", "oct", "raw"]:
            put(lg.bytes_lit(bytes([b]), style), some_ctx(any_ctx, 1), "byte")
        put(lg.bytes_lit(bytes([0x61, b, 0x62]), "short"), [any_ctx[0]], "byte/mid")
        put(lg.bytes_lit(bytes([b, 0x30]), "mixed"), [any_ctx[0]], "byte/before-digit")
    for c1 in BYTE_CLASSES:
        for c2 in BYTE_CLASSES:
            for _ in range(2):
                put(lg.bytes_lit(bytes([rng.choice(c1), rng.choice(c2)])), [rng.choice(any_ctx)], "byte-pair")
    for tag, v in singles + rng.sample(pairs, min(len(pairs), 300 * mult)):
        for style in ["utf8raw", "uesc", "short"]:
            put(lg.bytes_lit(v.encode("utf-8"), style), [rng.choice(any_ctx)], "bytes-utf8:" + tag)
    for _ in range(ctx.n(600, 15000) * mult):
        v = bytes(rng.choice(rng.choice(BYTE_CLASSES)) for _ in range(rng.randint(1, 8)))
        put(lg.bytes_lit(v), [rng.choice(any_ctx)], "bytes-random")
    # (f) f-strings: the classes in the text parts, between / around replacement fields
    for tag, v in singles:
        for style in ["short", "hex", "uni", "rawctl", "rawcr", "raw"]:
            for q in QUOTES:
                texts = rng.choice([[v], [v, ""], ["", v], [v, v], ["a", v, "b"]])
                put(lg.fstring_lit(texts, style, q), some_ctx(any_ctx, 1) if not ctx.quick() else [rng.choice(any_ctx[:1] * 3 + any_ctx)], "fstring:" + tag)
    for tag, v in padded + pairs:
        texts = rng.choice([[v], [v, ""], ["", v], [v, v], ["a", v, "b"]])
        put(lg.fstring_lit(texts), [rng.choice(any_ctx)], "fstring:" + tag)
    for tag, v in rnd[: len(rnd) // 2]:
        k = rng.randint(0, 3)
        cut = sorted(rng.randint(0, len(v)) for _ in range(k))
        texts = [v[a:b] for a, b in zip([0] + cut, cut + [len(v)])]
        put(lg.fstring_lit(texts), [rng.choice(any_ctx)], "fstring:random")
    # (g) modules holding several different literals
    pool = singles + padded + pairs
    for _ in range(ctx.n(800, 20000) * mult):
        text, exp, loads = "", [], True
        for _ in range(rng.randint(2, 5)):
            v = rng.choice(pool)[1]
            kind = rng.choice(["str", "str", "bytes", "fstring"])
            lit = lg.str_lit(v) if kind == "str" else (lg.bytes_lit(v.encode("utf-8")) if kind == "bytes" else lg.fstring_lit([v, rng.choice(pool)[1]]))
            if lit is None:
                continue
            name, tpl, _ = rng.choice(str_ctx if kind == "str" else any_ctx)
            t, e = lit_place(tpl, lit[0], lit[1])
            text += t
            exp += e
        if text:
            add(text, "literals", shared=False, model=False, d="A", tokens=False, expect=exp,
                lit={"class": "module", "spelling": "several", "context": "several"})


def sx_payloads(sx):
    """the literal payloads of an S-expression of the harness, in tree order: str / f-string format / load names as
    Python strings, bytes as 'bytes:<hex>'"""
    out = []
    for m in re.finditer(r'"(?:[^"\\]|\\.)*"|\(bytes ([0-9a-f]*)\)', sx):
        out.append("bytes:" + m.group(1) if m.group(1) is not None else json.loads(m.group(0)))
    return out


def sx_shape(sx):
    return re.sub(r'"(?:[^"\\]|\\.)*"|\(bytes [0-9a-f]*\)', "@", sx)


def show_payload(p):
    return "%r (%s)" % (p, cps(p)) if not p.startswith("bytes:") else p


def cp_class(o, is_bytes):
    """the character class of a code point / byte: the characters printer or lexer single out are named exactly"""
    if o in ((0, 9, 10, 13, 0x22, 0x27, 0x5c, 0x7f) if is_bytes else (0, 9, 10, 13, 0x22, 0x27, 0x5c, 0x7b, 0x7d, 0x7f, 0x85, 0x2028, 0x2029)):
        return ("0x%02x" % o) if is_bytes else ("U+%04X" % o)
    if o < 0x20:
        return "c0"
    if o < 0x7f:
        return "ascii"
    if is_bytes:
        return "high"
    return "c1" if o < 0xa0 else ("latin1" if o < 0x100 else ("bmp" if o < 0x10000 else "astral"))


def payload_diff_class(p1, p2):
    """narrow classification of the first differing payload pair: kind + the class of the first character / byte of the
    original value inside the changed region (common prefix and suffix removed; for a pure insertion the one before it)"""
    for a, b in zip(p1, p2):
        if a != b:
            isb = a.startswith("bytes:")
            if isb != b.startswith("bytes:"):
                return "kind"
            x, y = (list(bytes.fromhex(a[6:])), list(bytes.fromhex(b[6:]))) if isb else ([ord(c) for c in a], [ord(c) for c in b])
            i = next((i for i in range(min(len(x), len(y))) if x[i] != y[i]), min(len(x), len(y)))
            k = 0
            while k < min(len(x), len(y)) - i and x[len(x) - 1 - k] == y[len(y) - 1 - k]:
                k += 1
            region = x[i:len(x) - k]
            o = region[0] if region else (x[i - 1] if i > 0 else (x[i] if i < len(x) else None))
            return ("bytes/" if isb else "str/") + (cp_class(o, isb) if o is not None else "end")
    return "count"


LEX_EDGE_TEXTS = [  # double-quoted texts around the edges of escape decoding (several are rejected): lexer model vs lexer
    '"\\x4"', '"\\xg0"', '"\\x4g"', '"\\x41g"', '"\\xAB"', '"\\xab"', '"\\u12"', '"\\u00E9"', '"\\ud7ff"', '"\\ud800"', '"\\udfff"',
    '"\\ue000"', '"\\U0010ffff"', '"\\U00110000"', '"\\Ufffffff0"', '"\\U0001F600"', '"\\U0001f60"', '"\\8"', '"\\9a"', '"\\400"',
    '"\\777"', '"\\1234"', '"\\18"', '"\\0"', '"\\08"', '"\\q"', '"\\N{DASH}"', '"a\\\rb"', '"a\\\r\nb"', '"a\\\nb"', '"a\rb"',
    '"a\r\nb"', '"\\\'"', '"\\""', '"\\\\"', '"\\"', '"\\a\\b\\f\\v\\n\\r\\t"', '"\\z\u00e9"', '"\\\u00e9"', '"\\x"', '"\\u"', '"\\U"',
    '""', '"\\x00\\x7f\\x80\\xff"', '"\\000\\177\\200\\377"', '"\\G"', '"\\xfg"', '"\\u{41}"',
]
LEX_EDGE_BYTES = [
    'b"\\400"', 'b"\\377"', 'b"\\378"', 'b"\\u00e9"', 'b"\\U0001f600"', 'b"\u00e9"', 'b"\U0001f600"', 'b"\\xff"', 'b"\\xFF"', 'b"\\x4"',
    'b"\\q"', 'b"\\\u00e9"', 'b"\\ud800"', 'b"\\0"', 'b"\\08"', 'b"\\8"', 'b"a\rb"', 'b"a\\\r\nb"', 'b"a\\\nb"', 'b"\\\'\\""', 'b""',
    'b"\\a\\b\\f\\v\\n\\r\\t\\\\"', 'b"\u2028\x85\x7f"', 'b"\\x"', 'b"\\U00110000"', 'b"\\777"',
]


def hexrow(xs):
    return "".join("%x " % x for x in xs)


def literal_model_tie(ctx, deep=False, only=None):
    """The Coq model of the printer's escaping and of the lexer's decoding (coq/Parse/Escape.v, the subject of
    C06_string_literal_roundtrip / C06_bytes_literal_roundtrip) against the implementation: for `x = <literal>` the model's
    lexer must read the literal text as the payload the real parser holds (or reject it when the real parser does), the
    model's printer must write the text Display writes, and the model must read that text back."""
    rng = ctx.rng
    lg = LitGen(rng)
    singles, pairs, padded, rnd = ([], [], [], []) if only is not None else lg.values(ctx.n(150, 3000) * (3 if deep else 1))
    lits = list(only or [])   # (kind, literal source text)
    for tag, v in singles:
        for style in (["short", "hex", "oct", "mixed", "rawcr", "rawctl", "contin"] if not ctx.quick() or deep
                      else ["short", "hex", rng.choice(["oct", "mixed"]), rng.choice(["rawcr", "rawctl", "contin"])]):
            lits.append(("str", lg.str_lit(v, style, '"')[0]))
    for tag, v in rng.sample(padded, min(len(padded), ctx.n(100, 2000))) + rng.sample(pairs, min(len(pairs), ctx.n(150, 3000))) + rnd:
        lits.append(("str", lg.str_lit(v, rng.choice(["short", "hex", "oct", "uni", "mixed", "rawcr", "rawctl", "contin"]), '"')[0]))
    if only is None:
        lits += [("str", t) for t in LEX_EDGE_TEXTS]
    for b in range(256 if only is None else 0):
        for style in (["short", "hex", "oct"] if not ctx.quick() or deep else ["short", rng.choice(["hex", "oct"])]):
            lits.append(("bytes", lg.bytes_lit(bytes([b]), style, '"')[0]))
        lits.append(("bytes", lg.bytes_lit(bytes([b, 0x30 + b % 10, b]), "mixed", '"')[0]))
    for tag, v in singles:
        for style in ["utf8raw", "uesc"]:
            lit = lg.bytes_lit(v.encode("utf-8"), style, '"')
            if lit:
                lits.append(("bytes", lit[0]))
    for _ in range(ctx.n(150, 3000) if only is None else 0):
        v = bytes(rng.choice(rng.choice(BYTE_CLASSES)) for _ in range(rng.randint(1, 8)))
        lits.append(("bytes", lg.bytes_lit(v, rng.choice(["short", "hex", "oct", "mixed"]), '"')[0]))
    if only is None:
        lits += [("bytes", t) for t in LEX_EDGE_BYTES]
    cases = [{"src": "x = %s\n" % t, "d": "A", "tokens": False, "rt": False, "kind": "literal-model"} for _, t in lits]
    rc, log, res = sv.run_harness_sharded(ctx, "parse", cases, timeout=600)
    failures, broken, rows, rowmeta = [], [], [], []
    if rc != 0:
        failures.append({"key": "harness-crash", "what": "parse harness exited with %s: %s" % (rc, log[-300:]), "replay": {"rc": rc}})
    n_print = n_lex = n_rej = 0
    for (kind, text), c, r in zip(lits, cases, res):
        if r is None or "panic" in (r or {}):
            failures.append({"key": "panic", "what": "no result / panic for %r: %s" % (c["src"], r), "replay": {"case": c, "impl": r}})
            continue
        tcp = [ord(ch) for ch in text]
        if not r["ok"]:
            n_rej += 1
            rows.append("%s %s;" % ("r" if kind == "str" else "s", hexrow(tcp)))
            rowmeta.append((c, r, "lexer model accepts a literal the implementation rejects"))
            continue
        pl = sx_payloads(r["sx"])
        if len(pl) != 1 or pl[0].startswith("bytes:") != (kind == "bytes"):
            failures.append({"key": "literal:parsed-value-differs/kind", "what": "%r: payloads %s" % (c["src"], pl), "replay": {"case": c, "impl": r}})
            continue
        val = list(bytes.fromhex(pl[0][6:])) if kind == "bytes" else [ord(ch) for ch in pl[0]]
        n_lex += 1
        rows.append("%s %s, %s;" % ("l" if kind == "str" else "m", hexrow(tcp), hexrow(val)))
        rowmeta.append((c, r, "lexer model reads the literal differently from the implementation (payload %s)" % show_payload(pl[0])))
        disp = r["display"]
        if not (disp.startswith("x = ") and disp.endswith("\n")):
            failures.append({"key": "print:literal-statement-shape", "what": "%r printed as %r" % (c["src"], disp), "replay": {"case": c, "impl": r}})
            continue
        n_print += 1
        rows.append("%s %s, %s;" % ("p" if kind == "str" else "q", hexrow(val), hexrow([ord(ch) for ch in disp[4:-1]])))
        rowmeta.append((c, r, "printer model writes a different text than Display %r for payload %s, or the lexer model does not read it back"
                        % (disp, show_payload(pl[0]))))
    files = []
    nshard = min(ctx.n(3, 12), max(1, len(rows) // 400))
    for sh in range(nshard):
        part = rows[sh::nshard] + ["l 22 22 , 1 ;"]     # positive control: a wrong row that must be reported
        text = ("From Coq Require Import NArith List String.\nFrom SV Require Import Parse.Escape Parse.EscapeCases.\n"
                "Import ListNotations.\nOpen Scope N_scope.\n")
        chunk, base, size = [], 0, 0     # a string literal of more than a few thousand characters overflows coqc's stack
        for j, row in enumerate(part + [None]):
            if row is None or size + len(row) > 4000:
                if chunk:
                    text += 'Eval vm_compute in (map (N.add %d) (bad_rows "%s"%%string)).\n' % (base, "\n".join(chunk))
                chunk, base, size = [], j, 0
            if row is not None:
                chunk.append(row)
                size += len(row) + 1
        files.append(("lit_%d" % sh, text))
    mism = 0
    for (rc2, out), sh in zip(sv.coq_eval_files(ctx, files, timeout=600), range(nshard)):
        vals = sv.coq_values(out) if rc2 == 0 else None
        if vals is None:
            broken.append(("literal-model-tie", "coqc failed on the literal rows: " + out[-300:]))
            continue
        bad = [int(x) for v in vals for x in v]
        control = len(rows[sh::nshard])
        if control not in bad:
            broken.append(("literal-model-tie", "the deliberately wrong control row %d of shard %d was not reported: %s" % (control, sh, out[-300:])))
            continue
        for idx in [x for x in bad if x != control]:
            mism += 1
            c, r, why = rowmeta[sh + int(idx) * nshard]
            failures.append({"key": "literal:model-differs", "what": "%r: %s; Coq row: %s" % (c["src"], why, rows[sh + int(idx) * nshard][:300]),
                             "replay": {"case": c, "impl": r, "row": rows[sh + int(idx) * nshard]}})
    ctx.log("literal model tie: %d rows (%d lexer rows, %d rejected by both sides expected, %d printer rows), %d mismatches, %d of %d Coq runs failed"
            % (len(rows), n_lex, n_rej, n_print, mism, len(broken), nshard))
    return failures, broken, {"literal_model_rows": len(rows), "literal_model_lexer_rows": n_lex + n_rej, "literal_model_rejections": n_rej,
                              "literal_model_printer_rows": n_print, "literal_model_mismatches": mism}


def structure_grid():
    heads = ["if a:", "for x in y:", "def f():", "if a:\n  pass\nelse:", "if a:\n  pass\nelif b:", "for x in y:\n  pass\nif c:"]
    inl = ["pass", "x = 1", "x = 1; y = 2", "x = 1;", "f(x)", "if b: pass", "for z in w: pass", "def g(): pass",
           "if b: pass\nelse: pass", "if b: x = 1\nelse: x = 2", "if b:\n    pass", "for z in w:\n    pass", "def g():\n    pass",
           "x = 1; if b: pass", "if b: pass; x = 1", "lambda: 1", "x = lambda: 1"]
    out = []
    for h in heads:
        for b in inl:
            out.append(h + " " + b + "\n")                                  # on the header's line
            out.append(h + "\n  " + b.replace("\n", "\n  ") + "\n")            # as an indented block
            out.append(h + " " + b + "\nz = 3\n")
            for b2 in inl[:9]:
                out.append(h + " " + b + "\n  " + b2 + "\n")                  # a block after an inline suite
    for h1 in heads[:3]:
        for h2 in heads[:3]:
            for h3 in heads[:3]:
                out.append(h1 + " " + h2 + " " + h3 + " pass\n")
                out.append(h1 + "\n  " + h2 + " " + h3 + " pass\n")
                out.append(h1 + " " + h2 + "\n    " + h3 + " pass\n")
    return out


def structure_mutate(rng, prog):
    lines = prog.split("\n")
    if lines and lines[-1] == "":
        lines.pop()
    if len(lines) < 2:
        return None
    k = rng.random()
    ind = lambda l: len(l) - len(l.lstrip(" "))  # noqa: E731
    if k < 0.5:        # join a header with the line after it
        cand = [i for i in range(len(lines) - 1) if lines[i].rstrip().endswith(":") and lines[i + 1].strip()]
        if not cand:
            return None
        i = rng.choice(cand)
        lines[i:i + 2] = [lines[i] + " " + lines[i + 1].lstrip(" ")]
    elif k < 0.75:     # give a line the indentation of another line
        i, j = rng.randrange(len(lines)), rng.randrange(len(lines))
        if ind(lines[i]) == ind(lines[j]) or not lines[i].strip():
            return None
        lines[i] = " " * ind(lines[j]) + lines[i].lstrip(" ")
    elif k < 0.9:      # drop a line
        del lines[rng.randrange(len(lines))]
    else:              # swap two adjacent lines
        i = rng.randrange(len(lines) - 1)
        lines[i], lines[i + 1] = lines[i + 1], lines[i]
    return "\n".join(lines) + "\n"


def gen_cases(ctx, deep=False):
    rng = ctx.rng
    cases = []

    def add(src, kind, shared=True, model=True, d="A", tokens=True, **extra):
        c = {"src": src if src.endswith("\n") else src + "\n", "kind": kind, "shared": shared, "model": model, "d": d,
             "tokens": tokens, "rt": True}
        c.update(extra)
        cases.append(c)

    # hand-written boundary cases / minimised past failures first
    for p in sorted(glob.glob(os.path.join(sv.ROOT, "corpus", "C06", "*.txt"))):
        for line in open(p, encoding="utf-8"):
            line = line.rstrip("\n")
            if line and not line.startswith("#"):
                add(line.replace("\\n", "\n"), "corpus")
    for p in sorted(glob.glob(os.path.join(sv.ROOT, "corpus", "C06", "*.jsonl"))):
        for line in open(p, encoding="utf-8"):
            row = json.loads(line) if line.strip() else {}
            if "src" in row:
                add(row["src"], "literals", shared=False, model=False, tokens=False, expect=row["expect"],
                    lit={"class": "corpus", "spelling": "corpus", "context": os.path.basename(p)})
    gen_literal_cases(ctx, add, deep)
    forms = pair_forms()
    for f in forms:
        for c in CONTEXTS:
            add(c.format(f), "pairs")
    tri = triple_forms()
    tri_ctx = CONTEXTS if (deep or not ctx.quick()) else ["{0}"]
    for f in tri:
        for c in tri_ctx:
            add(c.format(f), "triples")
    for kind, src in order_forms(4 if (ctx.quick() and not deep) else 5):
        add(src, kind, shared=(kind != "args"), model=(kind != "defparams"))
    eg = ExprGen(rng)
    nrand = ctx.n(5000, 150000) * (3 if deep else 1)
    valid = []
    for _ in range(nrand):
        e = eg.test(rng.choice([1, 2, 2, 3, 3, 4, 5]))
        if len(e) > 600:
            continue
        valid.append(e)
        add(rng.choice(["{0}", "{0}", "v = {0}", "f({0})"]).format(e), "random")
    base = forms + valid[: len(valid) // 2]
    for _ in range(ctx.n(5000, 150000) * (3 if deep else 1)):
        add(mutate(rng, rng.choice(base)), "mutation", shared=False)
    sg = StmtGen(rng)
    for _ in range(ctx.n(1500, 30000)):
        prog = sg.program()
        add(prog, "statements", model=False, d="A" if "/, " in prog else rng.choice(["A", "A", "E"]))
    # statement STRUCTURE: programs outside the grammar that differ from a valid one only in line structure (a header
    # joined with the line after it, a line re-indented, dropped or swapped) plus a systematic grid of headers x suites.
    # Only Python-shared tokens occur, so CPython's accept/reject (and tree, when both accept) is the reference.
    for prog in structure_grid():
        add(prog, "structure", model=False, d="A")
    for _ in range(ctx.n(2500, 30000)):
        prog = structure_mutate(rng, sg.program())
        if prog:
            add(prog, "structure", model=False, d="A")
    for p in corpus_files():
        try:
            txt = open(p, encoding="utf-8").read()
        except Exception:  # noqa: BLE001
            continue
        cases.append({"src": txt, "kind": "file", "file": os.path.relpath(p, sv.REPO), "shared": False, "model": False, "d": "A",
                      "tokens": False, "rt": True})
    return cases


# ------------------------------------------------------------------------------------------------
# evaluation

def model_line(cid, toks):
    """tokens of the real lexer -> one driver line, or None when outside the model's alphabet."""
    toks = list(toks)
    while toks and toks[-1][0] == "Newline":
        toks.pop()
    if not toks:
        return None, None
    # a line that BEGINS with `if` / `for` is a compound statement with its suite on the same line (`if c: x`): no expression or
    # simple statement starts with these keywords, and compound statements are outside the model (tie with CPython only)
    if toks[0][0] in ("If", "For"):
        return None, None
    table, names = {}, []
    parts = []
    for name, payload in toks:
        if name not in MODEL_TOKENS:
            return None, None
        if name in PAYLOAD:
            if payload not in table:
                table[payload] = len(names) + 1
                names.append(payload)
            parts.append("%s:%d" % (name, table[payload]))
        else:
            parts.append(name)
    return "%d %s" % (cid, " ".join(parts)), (table, names)


def subst(s, names):
    return re.sub(r"#(\d+)", lambda m: names[int(m.group(1)) - 1], s)


def unwrap(sx):
    """(module X) -> X for a one-statement module"""
    if sx.startswith("(module ") and sx.endswith(")"):
        return sx[len("(module "):-1]
    return sx


def is_nontrivial(toks):
    return sum(1 for t in toks if t[0] in OPERATOR_TOKENS) >= 2


def evaluate(ctx, cases):
    rc, log, res = sv.run_harness_sharded(ctx, "parse", cases, timeout=1500)
    ctx.log("harness done on %d cases" % len(cases))
    failures = []
    if rc != 0:
        failures.append({"key": "harness-crash", "what": "parse harness exited with %s: %s" % (rc, log[-300:]), "replay": {"rc": rc}})
    st = {"evaluations": 0, "accepted": 0, "rejected": 0, "model_cases": 0, "py_cases": 0, "py_both_ok": 0, "roundtrips": 0,
          "nontrivial": set(), "py_informational": {}, "kinds": {}, "literal_cases": 0, "literal_payloads": 0, "literal_classes": set(),
          "literal_spellings": {}, "literal_contexts": {}}
    lines, meta = [], {}
    for i, (c, r) in enumerate(zip(cases, res)):
        st["kinds"][c["kind"]] = st["kinds"].get(c["kind"], 0) + 1
        if r is None or "panic" in (r or {}):
            failures.append({"key": "panic", "what": "no result / panic for %r: %s" % (c["src"][:200], r), "replay": {"case": c, "impl": r}})
            continue
        st["evaluations"] += 1
        st["accepted" if r["ok"] else "rejected"] += 1
        toks = r.get("tokens")
        if isinstance(toks, list) and is_nontrivial(toks):
            st["nontrivial"].add(c["src"])
        # (0) literal cases: the first parse must hold the payloads the generator intended (the specification's value of
        #     each literal; CPython read the same spelling the same way where the spelling is shared)
        if c.get("expect") is not None:
            st["literal_cases"] += 1
            lit = c.get("lit", {})
            st["literal_classes"].update(lit.get("class", "").split(":")[-1].split("/")[0].split("+"))
            st["literal_spellings"][lit.get("spelling")] = st["literal_spellings"].get(lit.get("spelling"), 0) + 1
            st["literal_contexts"][lit.get("context")] = st["literal_contexts"].get(lit.get("context"), 0) + 1
            if not r["ok"]:
                failures.append({"key": "literal:valid-literal-rejected", "what": "%r (%s) is rejected: %s; intended payloads %s"
                                 % (c["src"], lit, (r.get("err") or {}).get("msg"), [show_payload(p) for p in c["expect"]][:6]),
                                 "replay": {"case": c, "impl": r, "spec_payloads": c["expect"]}})
            else:
                got = sx_payloads(r["sx"])
                st["literal_payloads"] += len(got)
                if got != c["expect"]:
                    bad = [(show_payload(a), show_payload(b)) for a, b in zip(c["expect"], got) if a != b][:3]
                    failures.append({"key": "literal:parsed-value-differs/" + payload_diff_class(c["expect"], got), "what": "%r (%s): the tree holds a different literal value than the source "
                                     "spells (intended, parsed): %s%s" % (c["src"], lit, bad, "" if len(got) == len(c["expect"]) else
                                                                         " [%d payloads, %d intended]" % (len(got), len(c["expect"]))),
                                     "replay": {"case": c, "impl": r, "spec_payloads": c["expect"], "impl_payloads": got}})
        # (1) printing round trip on the implementation
        if r["ok"] and "re" in r:
            st["roundtrips"] += 1
            re_ = r["re"]
            tag = c.get("file") or c["src"][:300]
            if not re_["ok"]:
                failures.append({"key": "roundtrip:printed-text-rejected", "what": "Display of %r = %r does not parse: %s" % (tag, r["display"][:300], re_.get("err")),
                                 "replay": {"case": c, "impl": r}})
            elif not re_["same"] and sx_shape(r.get("sxd", r["sx"])) == sx_shape(re_.get("sx", "")):
                # same tree shape, a literal payload changed: the printer's escaping and the lexer's decoding disagree
                p1, p2 = sx_payloads(r.get("sxd", r["sx"])), sx_payloads(re_.get("sx", ""))
                bad = [(show_payload(a), show_payload(b)) for a, b in zip(p1, p2) if a != b][:3]
                failures.append({"key": "roundtrip:literal-value-differs/" + payload_diff_class(p1, p2), "what": "parse(Display(t)) holds a different literal value than t for %r: "
                                 "printed as %r; (value in t, value after print + re-parse): %s" % (tag, r["display"][:300], bad),
                                 "replay": {"case": c, "impl": r, "payloads_first_parse": p1, "payloads_after_roundtrip": p2,
                                            "spec_payloads": c.get("expect")}})
            elif not re_["same"]:
                failures.append({"key": "roundtrip:tree-differs", "what": "parse(Display(t)) != t for %r: display %r, first tree %s, second %s"
                                 % (tag, r["display"][:300], r.get("sxd", r["sx"])[:400], re_.get("sx", "")[:400]), "replay": {"case": c, "impl": r}})
            elif not re_["fix"]:
                failures.append({"key": "roundtrip:not-a-fixed-point", "what": "Display(parse(Display(t))) != Display(t) for %r: %r vs %r"
                                 % (tag, r["display"][:300], re_.get("display2", "")[:300]), "replay": {"case": c, "impl": r}})
        # (2) the Coq model on the same token stream
        if c.get("model") and isinstance(toks, list):
            line, tab = model_line(i, toks)
            if line is not None:
                lines.append(line)
                meta[i] = tab
        # (3) CPython on the same text
        if c.get("shared") or c["kind"] == "mutation":
            st["py_cases"] += 1
            py = c06_ast.canon(c["src"])
            impl_sx = r.get("sx") if r["ok"] else None
            if c.get("shared"):
                if py[0] == "ok" and r["ok"]:
                    st["py_both_ok"] += 1
                    if py[1] != impl_sx:
                        failures.append({"key": "cpython-tree-differs", "what": "%r: implementation %s, CPython %s" % (c["src"], impl_sx, py[1]),
                                         "replay": {"case": c, "impl": r, "cpython": py}})
                elif py[0] == "ok" and not r["ok"] and c["kind"] in ("random", "statements"):
                    failures.append({"key": "rejects-shared-grammar", "what": "%r: implementation rejects (%s), CPython parses %s" % (c["src"], r.get("err"), py[1]),
                                     "replay": {"case": c, "impl": r, "cpython": py}})
                elif py[0] == "reject" and r["ok"] and c["kind"] in ("random", "statements", "params", "defparams", "structure"):
                    failures.append({"key": "accepts-what-python-rejects", "what": "%r: implementation parses %s, CPython rejects (%s)" % (c["src"], impl_sx, py[1]),
                                     "replay": {"case": c, "impl": r, "cpython": py}})
                elif py[0] == "ok" and not r["ok"] and c["kind"] in ("params", "defparams"):
                    failures.append({"key": "rejects-shared-grammar", "what": "%r: implementation rejects (%s), CPython parses %s" % (c["src"], r.get("err"), py[1]),
                                     "replay": {"case": c, "impl": r, "cpython": py}})
                else:
                    k = "impl_%s/py_%s" % ("ok" if r["ok"] else "reject", py[0])
                    st["py_informational"][k] = st["py_informational"].get(k, 0) + 1
                    st.setdefault("py_examples", {}).setdefault(k, []).append(c["src"])
            else:
                if py[0] == "ok" and r["ok"]:
                    st["py_both_ok"] += 1
                    if py[1] != impl_sx:
                        failures.append({"key": "cpython-tree-differs", "what": "%r: implementation %s, CPython %s" % (c["src"], impl_sx, py[1]),
                                         "replay": {"case": c, "impl": r, "cpython": py}})
                else:
                    k = "mut:impl_%s/py_%s" % ("ok" if r["ok"] else "reject", py[0])
                    st["py_informational"][k] = st["py_informational"].get(k, 0) + 1
                    st.setdefault("py_examples", {}).setdefault(k, []).append(c["src"])
    # run the extracted model
    if lines:
        okd, exe = sv.ocaml_driver("Extract/ParseX.vo", "parse_model", "parse_driver")
        if not okd:
            failures.append({"key": "model-run-failed", "what": "could not build the extracted model: " + exe[-300:], "replay": {"log": exe}})
        else:
            okr, outl = sv.run_driver_sharded(ctx, exe, lines, "parse", timeout=900)
            done = sum(int(l.split()[1]) for l in outl if l.startswith("done "))
            if not okr or done != len(lines):
                failures.append({"key": "model-run-failed", "what": "extracted model driver failed (%d of %d cases): %s" % (done, len(lines), outl[-3:]),
                                 "replay": {"out": outl[-20:]}})
            ctx.log("extracted Coq model evaluated %d cases" % done)
            for l in outl:
                if l.startswith("done "):
                    continue
                f = l.split("\t")
                if len(f) != 6:
                    continue
                i = int(f[0])
                c, r = cases[i], res[i]
                table, names = meta[i]
                m, g, gf, pr, rt = f[1], f[2], f[3], f[4], f[5]
                if m == "UNMODELLED":
                    continue
                st["model_cases"] += 1
                m_ok = m.startswith("(")
                m_sx = subst(m, names) if m_ok else m
                g_sx = subst(g, names) if g.startswith("(") else g
                impl_sx = unwrap(r["sx"]) if r["ok"] else "REJECT"
                py = None

                def rep(extra=None):
                    d = {"case": c, "impl": r, "model": m_sx, "grammar": g_sx, "cpython": c06_ast.canon(c["src"])}
                    d.update(extra or {})
                    return d
                if m == "OOF" or g == "OOF":
                    failures.append({"key": "model-out-of-fuel", "what": "model ran out of fuel on %r" % c["src"], "replay": rep()})
                    continue
                if m_ok != r["ok"]:
                    failures.append({"key": "accept-reject:model-differs", "what": "%r: implementation %s, Coq model of parser_rd.rs %s, reference grammar %s"
                                     % (c["src"], impl_sx, m_sx, g_sx), "replay": rep()})
                elif m_ok and m_sx != impl_sx:
                    failures.append({"key": "tree:model-differs", "what": "%r: implementation %s, Coq model %s, reference grammar %s"
                                     % (c["src"], impl_sx, m_sx, g_sx), "replay": rep()})
                if (g.startswith("(") != r["ok"]) or (r["ok"] and g_sx != impl_sx):
                    failures.append({"key": "grammar:impl-differs", "what": "%r: implementation %s, reference grammar %s (Coq model %s)"
                                     % (c["src"], impl_sx, g_sx, m_sx), "replay": rep()})
                if gf.startswith("(") and not r["ok"] and m == "ERR15":
                    failures.append({"key": "spec:bare-tuple-expression-statement-rejected",
                                     "what": "%r: the specification's grammar (ExprStmt = Expression = Test {',' Test}) and CPython accept an "
                                             "unparenthesised tuple as an expression statement (%s); the implementation rejects it: %s"
                                             % (c["src"], subst(gf, names), (r.get("err") or {}).get("msg")), "replay": rep({"grammar_spec": subst(gf, names)})})
                elif gf.startswith("(") != g.startswith("("):
                    failures.append({"key": "grammar:strict-differs", "what": "%r: specification grammar %s, restricted grammar %s" % (c["src"], gf, g),
                                     "replay": rep()})
                if m_ok and r["ok"] and "re" in r and isinstance(r["re"].get("tokens"), list):
                    dt = list(r["re"]["tokens"])
                    while dt and dt[-1][0] == "Newline":
                        dt.pop()
                    want = []
                    for name, payload in dt:
                        want.append("%s:%d" % (name, table.get(payload, 0)) if name in PAYLOAD else name)
                    if " ".join(want) != pr and m_sx == impl_sx:
                        failures.append({"key": "print:model-differs", "what": "%r: Display %r tokens differ from the model printer: %s vs %s"
                                         % (c["src"], r["display"], " ".join(want), pr), "replay": rep({"print": pr})})
                    if rt != "SAME":
                        failures.append({"key": "print:model-roundtrip", "what": "%r: the model does not re-parse its own print: %s" % (c["src"], rt),
                                         "replay": rep({"print": pr})})
    return failures, st


def correspond(ctx):
    cases = gen_cases(ctx)
    ctx.log("generated %d cases" % len(cases))
    failures, st = evaluate(ctx, cases)
    ctx.log("evaluated=%d accepted=%d rejected=%d model=%d cpython=%d (both accept: %d) roundtrips=%d literal cases=%d (payloads compared: %d) failures=%d"
            % (st["evaluations"], st["accepted"], st["rejected"], st["model_cases"], st["py_cases"], st["py_both_ok"], st["roundtrips"],
               st["literal_cases"], st["literal_payloads"], len(failures)))
    lit_failures, lit_broken, lit_cov = literal_model_tie(ctx)
    failures += lit_failures
    samples = []
    seen = set()
    for c in cases:
        if c["kind"] not in seen and c["kind"] != "file":
            seen.add(c["kind"])
            samples.append({"kind": c["kind"], "src": c["src"]})
    cov = {
        "evaluations": st["evaluations"],
        "distinct_nontrivial": len(st["nontrivial"]),
        "rule": "every ordered pair of the 21 binary operators, 4 prefix operators, the conditional and lambda in %d syntactic contexts "
                "(exhaustive), every ordered triple of binary operators (exhaustive; all contexts in the thorough tier), every order of "
                "argument kinds / lambda and def parameter kinds up to length 4 (5 thorough) (exhaustive), grammar-directed random "
                "expressions, token-level mutations of valid inputs, random statement programs over all statement forms and indentation "
                "shapes, every .star/.bzl file under the repository; literal-focused cases: string / bytes / f-string literals whose "
                "VALUES hold every character class the printer escapes or the lexer treats specially (LF CR TAB NUL backslash both quotes, "
                "every other C0 control, DEL, braces, NEL and the C1 controls, Latin-1, BMP incl. the surrogate borders / BOM / U+FFFF, "
                "astral incl. U+10FFFF, combining marks / ZWJ, U+2028 / U+2029, CR LF / LF CR / CR CR pairs, digits and escape letters "
                "that could fuse with a preceding escape) - each member alone in every spelling x quote style (short / hex / octal / "
                "\\u escapes, mixed, raw control characters, line continuations, raw CR and CR LF in the source, raw strings; single, double, "
                "triple quotes), around ordinary text, every ordered pair of classes, random combinations; all 256 byte values in bytes "
                "literals; the classes in f-string text parts; in %d syntactic places (assignment, call and keyword arguments, dict keys "
                "and values, subscripts, default arguments, docstrings, load() module and symbol names, comprehensions, nested suites, "
                "...); per literal case the payloads of the first parse are compared with the value the generator intended (CPython reads "
                "the shared spellings the same way), and the payloads after print + re-parse with those of the first parse; "
                "non-trivial = the real lexer's token stream holds at least two "
                "operator tokens; distinct by source text" % (len(CONTEXTS), len(LIT_CONTEXTS)),
        "traces_validated_against_impl": st["model_cases"],
        "cpython_compared": st["py_cases"],
        "cpython_both_accept_trees_compared": st["py_both_ok"],
        "cpython_informational": st["py_informational"],
        "print_roundtrips_checked": st["roundtrips"],
        "literal_cases": st["literal_cases"], "literal_payloads_compared_with_intended_value": st["literal_payloads"],
        "literal_character_classes": sorted(st["literal_classes"]), "literal_spellings": st["literal_spellings"],
        "literal_contexts": st["literal_contexts"],
        "accepted": st["accepted"], "rejected": st["rejected"],
        "input_distribution": st["kinds"],
        "exhaustive": False,
        "samples": samples,
    }
    cov.update(lit_cov)
    return {"coverage": cov, "failures": failures, "broken": lit_broken}


def search(ctx, broken):
    """A proof obligation / pin / translator item / the tie broke: deep random expressions and all triples in all
    contexts against the reference grammar (Coq) and CPython."""
    old = ctx.tier
    try:
        cases = [c for c in gen_cases(ctx, deep=True) if c["kind"] != "file"]
        failures, st = evaluate(ctx, cases)
        if not any(b[0] in ("proof-build", "translator", "literal-model-tie") for b in broken):
            failures += literal_model_tie(ctx, deep=True)[0]     # needs Parse/EscapeCases.vo
    finally:
        ctx.tier = old
    return {"failures": failures, "coverage": {"evaluations": st["evaluations"], "model_cases": st["model_cases"],
                                               "literal_cases": st["literal_cases"]}}


def replay(ctx, rep):
    c = rep.get("replay", {}).get("case")
    if not c:
        return {"coverage": {}, "failures": []}
    if c.get("kind") == "literal-model":
        text = c["src"][4:-1]
        failures, broken, cov = literal_model_tie(ctx, only=[("bytes" if text.startswith("b") else "str", text)])
        cov.update({"evaluations": 1, "samples": [c]})
        return {"coverage": cov, "failures": failures, "broken": broken}
    failures, st = evaluate(ctx, [c])
    return {"coverage": {"evaluations": st["evaluations"], "distinct_nontrivial": len(st["nontrivial"]), "samples": [c]}, "failures": failures}


META = {
    "category": "proof",
    "level_text": "Full for the expression grammar, at the level of the Coq model of parser_rd.rs. Proved in Coq (Properties/C06.v, closed under "
                  "the global context, no axioms): (1) C06_pratt_eq_grammar: for every binding-power table satisfying the boolean predicate "
                  "table_ok - and the table re-extracted from parser_rd.rs on every run satisfies it by computation - the parser model "
                  "(Pratt loop with infix_binding_power, prefix `not`, two-token `not in`, chained-comparison rejection, both copies of the "
                  "loop, parse_bitor_expr, parse_argument's identifier look-ahead, all bracket/suffix/argument-list/lambda/comprehension "
                  "code, check_assign/check_call/lambda-parameter validation, the one-line expression / assignment statement) returns, "
                  "for EVERY token list and EVERY fuel, exactly what the stratified reference grammar returns: same tree, same rejection, "
                  "same out-of-fuel. It is lifted from the operator-layer theorem (C06_pratt_binary_partial, kept) by congruence lemmas "
                  "for every function of the shared grammar (proved once for an arbitrary bind-compatible relation; no functional "
                  "extensionality) and by C06_argument_reentry_eq (continue_primary ; continue_infix(c_arg) ; continue_ternary after a "
                  "consumed identifier = parse_test on the un-consumed stream). C06_parse_fuel_mono: any answer other than out-of-fuel is "
                  "the answer at every larger fuel, so the equality reads 'for all sufficiently large fuel' as well. "
                  "(2) C06_print_parse_roundtrip: for every expression e with printable e (all 21 constructors: names, literals, tuples, "
                  "list/dict displays, dot, calls with positional/named/*/** arguments, index, two-index, slices, lambda with every "
                  "parameter kind, not, unary + - ~, all 21 binary operators, conditional, list and dict comprehensions), parsing the "
                  "tokens of the Display model (every operator application parenthesised, unary receivers and int-before-dot "
                  "parenthesised) with fuel >= size gives e back; `printable` only asks what the parser guarantees of its own output "
                  "(check_args, check_params, comprehension starts with `for`, loop targets assignable and normalised). Corollaries "
                  "C06_print_fixpoint (printed text is a fixed point of parse-then-print), C06_print_injective (different printable trees "
                  "print differently), C06_print_parse_roundtrip_in_context (inside any bracket/comma/colon/else/for context), "
                  "C06_print_parse_roundtrip_stmt (also `target = value`), C06_print_parse_roundtrip_extracted (at the extracted tables with "
                  "the fuel the tie uses: size <= number of printed tokens). "
                  "(3) Literal payloads. In (1) and (2) a string literal is an opaque token (TString n), so those theorems are about token "
                  "structure; that the VALUE of a literal survives printing is proved separately at the level of characters "
                  "(Parse/Escape.v, Parse/EscapeProofs.v): C06_string_literal_roundtrip - for every escape table t with esc_table_ok t "
                  "(closing quote, backslash, LF, CR have an arm; every arm's text is backslash + a letter that `escape` decodes to exactly "
                  "that char without look-ahead, or \\xHH with that value) and EVERY list of code points s, the model of lexer.rs "
                  "string(triple=false, raw=false) / escape / escape_char reads print_string t s ++ rest back as (s, rest); "
                  "C06_string_escapes_extracted_ok - the arms of ast.rs fmt_string_literal, re-extracted on every run by a regular expression "
                  "that pins the whole function body (quote, one match over s.chars() whose last arm writes the char itself, quote), satisfy "
                  "esc_table_ok; corollaries C06_string_literal_fixpoint, C06_string_literal_print_injective, "
                  "C06_string_literal_roundtrip_extracted; C06_bytes_literal_roundtrip - the same for Display of AstLiteral::Bytes and "
                  "bytes_string / escape_bytes, for every list of bytes; C06_escape_cr_arm_needed - without the CR arm esc_table_ok fails and "
                  "the value a CR b is read back as a b. This covers string literals, load() module and symbol names and the desugared "
                  "f-string format (all printed by fmt_string_literal). "
                  "Still only TIED (tested, not proved): that the Coq model is parser_rd.rs and that Print.v is ast.rs Display - the "
                  "extracted model and reference grammar are run on the real lexer's token stream of every generated text and compared with "
                  "the real parser's tree / rejection, the model printer with Display's tokens, and the real parser is checked for "
                  "parse(Display(t)) = t and Display fixed point; CPython's ast gives an independent third opinion on the shared subset. "
                  "The literal models are tied too: the extracted-table printer model must write exactly the text Display writes and the "
                  "lexer model must read every generated double-quoted literal text (all escape kinds, edge and invalid escapes) as the "
                  "payload the real parser holds, evaluated inside Coq on rows observed on the implementation; and the literal-focused "
                  "differential cases compare, on the real parser and printer, the payloads of the first parse with the intended values and "
                  "the payloads after print + re-parse with those of the first parse, for every character class x spelling x syntactic place. "
                  "NOT proved and not modelled in Coq: statements other than the one-line expression / assignment statement "
                  "(def/if/for/return/load, indentation; covered by the CPython comparison and the real round trip only), f-string desugaring, minimal-parenthesis printing (min_paren_roundtrip of "
                  "DESIGN), and that every tree the parser returns is `printable` (checked per case by the tie). One deviation from the "
                  "specification's grammar is recorded as a known finding (bare tuple expression statement rejected; Coq witness "
                  "C06_bare_tuple_statement_refuted; this is why the full statement is against Grammar.parse_strict).",
    "level_note": "Trusted: Coq kernel; extraction (ExtrOcamlBasic only) + ocaml/parse_driver.ml; tools/extract.py + tools/extract_items/parser.py "
                  "(regexes over parser_rd.rs); harness bin parse (own AST walker); the real lexer (shared by model and implementation; C05's "
                  "subject); CPython 3.11 ast as validation of the reference grammar. The model makes explicit that parse_unary consumes "
                  "a token when it succeeds (guard) and uses explicit fuel for nesting; neither fires on generated inputs (OOF/guard "
                  "results are reported as failures). The tie is differential testing: a code change outside the generators' reach can escape.",
    "technique": "Coq proof that the lexer model inverts the printer's escaping for every string / bytes value over a source-extracted escape "
                 "table; value-directed literal generator (character classes x spellings x places) with intended-value oracle; "
                 "Coq proof of parser model = stratified grammar on all token lists (operator layer by level induction, lifted by relational "
                 "parametricity of the shared grammar code + argument re-entry lemma) over a table_ok-checked, source-extracted "
                 "binding-power table; Coq proof of the Display round trip by size induction; "
                 "extracted model vs implementation vs CPython on exhaustive operator pairs/triples x contexts",
    "design_ref": "DESIGN.md section 4 C06",
}
