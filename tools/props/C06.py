"""C06 The parser builds the tree the grammar prescribes, and printing it round-trips.

Proof : coq/Parse/{Tokens,Ast,Model,Grammar,Print,Proofs,ProofsFull,PrintProofs}.v + Properties/C06.v
        (Model = parser_rd.rs: Pratt loop with the binding powers re-extracted from the source on every run;
         Grammar = the stratified reference grammar; Print = ast.rs Display).
Tie   : the `parse` harness bin parses every generated text with the real `AstModule::parse`, dumps the real
        lexer's token stream, a canonical S-expression of the AST (own walker), the Display text, the re-parse
        of the Display text and its Display again.  The Coq model (extracted, ocaml/parse_driver.ml) parses the
        same token stream; CPython's `ast` (tools/pyref/c06_ast.py) parses the same text.
        Checked per case: implementation tree == model tree == reference-grammar tree (== CPython tree on the
        shared subset), accept/reject agreement, Display tokens == model printer tokens, parse(Display(t)) == t
        (f-strings desugared) and Display is a fixed point.
"""
import glob
import warnings
import itertools
import json
import os
import re
import sys

import sv

sys.path.insert(0, os.path.join(sv.ROOT, "tools", "pyref"))
import c06_ast  # noqa: E402

PROP = "C06"
warnings.filterwarnings("ignore", category=SyntaxWarning)
HARNESS_BINS = ["parse"]
COQ_TARGETS = ["Properties/C06.vo", "Parse/Cases.vo", "Extract/ParseX.vo"]
TRUSTED = ["extraction: ExtrOcamlBasic only; ocaml/parse_driver.ml (token names <-> constructors, S-expression writer, hand-written); "
           "OCaml 4.13.1 ocamlopt",
           "harness/src/bin/parse.rs (own AST walker -> S-expression; token dump of the real lexer)",
           "the lexer (C05's subject) is used as is: model and implementation read the same token stream",
           "tools/pyref/c06_ast.py over CPython 3.11 `ast` (validates the reference grammar on the shared subset; not part of a proof)"]
ASSUMPTIONS = ["statements (def/if/for/return/load, indentation) are not modelled in Coq: they are covered by the CPython comparison "
               "and the print/re-parse round trip only",
               "the model/implementation tie is differential testing over exhaustive operator pairs x contexts, exhaustive "
               "argument/parameter orders, grammar-directed random expressions and token-level mutations",
               "documented Starlark/Python differences are excluded from the CPython comparison: chained comparisons, `is`, `**`, "
               "walrus, unparenthesised tuples with a trailing comma, a[i,j,k]/a[i,] subscripts, starred targets, sets, generator "
               "expressions, argument orders Python accepts after *args/**kwargs, True/False/None as keywords"]

BIN = ["or", "and", "==", "!=", "<", ">", "<=", ">=", "in", "not in", "|", "^", "&", "<<", ">>", "+", "-", "*", "/", "//", "%"]
PRE = ["not", "-", "+", "~"]
MODEL_TOKENS = {"Identifier", "Int", "Float", "String", "Or", "And", "Not", "In", "If", "Else", "Lambda", "For", "EqualEqual",
                "BangEqual", "LessThan", "GreaterThan", "LessEqual", "GreaterEqual", "Pipe", "Caret", "Ampersand", "LessLess",
                "GreaterGreater", "Plus", "Minus", "Star", "Percent", "Slash", "SlashSlash", "Tilde", "StarStar", "Equal", "Dot",
                "Comma", "Colon", "OpeningRound", "ClosingRound", "OpeningSquare", "ClosingSquare", "OpeningCurly", "ClosingCurly"}
PAYLOAD = {"Identifier", "Int", "Float", "String"}
OPERATOR_TOKENS = {"Or", "And", "Not", "In", "If", "Lambda", "EqualEqual", "BangEqual", "LessThan", "GreaterThan", "LessEqual",
                   "GreaterEqual", "Pipe", "Caret", "Ampersand", "LessLess", "GreaterGreater", "Plus", "Minus", "Star", "Percent",
                   "Slash", "SlashSlash", "Tilde"}

CONTEXTS = ["{0}", "f({0})", "f(k = {0})", "f(*{0})", "f(**{0})", "f(x, {0}, y)", "g.h({0})", "x[{0}]", "x[{0}:]", "x[:{0}]",
            "x[::{0}]", "x[{0}:{0}:{0}]", "[x for x in y if {0}]", "[x for x in {0}]", "{{x: y for x in z if {0}}}", "lambda: {0}",
            "lambda p = {0}: p", "u if {0} else v", "u if v else {0}", "{{{0}: {0}}}", "[{0}, {0}]", "({0})", "({0},)", "x = {0}",
            "{0}, {0}", "x[{0}, {0}]", "(lambda q: q)({0})"]
QUICK_CONTEXTS = CONTEXTS


# ------------------------------------------------------------------------------------------------
# generators

def pair_forms():
    """Every ordered pair of operators (21 binaries, 4 prefixes, the conditional, lambda) in minimal-parenthesis form."""
    out = []
    for o1 in BIN:
        for o2 in BIN:
            out.append("a %s b %s c" % (o1, o2))
    for p in PRE:
        for o in BIN:
            out.append("%s a %s b" % (p, o))
            out.append("a %s %s b" % (o, p))
        for q in PRE:
            out.append("%s %s a" % (p, q))
    for o in BIN:
        out += ["a %s b if c else d" % o, "a if b %s c else d" % o, "a if b else c %s d" % o,
                "lambda: a %s b" % o, "a %s lambda: b" % o, "lambda p: p %s lambda q: q" % o]
    for p in PRE:
        out += ["%s a if b else c" % p, "a if %s b else c" % p, "a if b else %s c" % p, "%s lambda: a" % p, "lambda: %s a" % p]
    out += ["a if b else c if d else e", "a if b if c else d else e", "(a if b else c) if d else e", "a if (b if c else d) else e",
            "lambda: a if b else c", "a if b else lambda: c", "a if lambda: b else c", "lambda: lambda: a", "(lambda: a) if b else c",
            "lambda x: x, y", "lambda x, y: (x, y)", "lambda: (yield_)", "a.b.c", "a.b(c)[d].e", "-a.b", "(-a).b", "- -a", "+-~a",
            "~a[b]", "-a(b)", "(-a)(b)", "(-a)[b]", "(-a)[b:c]", "-(a + b)", "(a)", "((a))", "()", "(a,)", "(a, b)", "(a, b,)",
            "[]", "[a]", "[a,]", "[a, b]", "{}", "{a: b}", "{a: b,}", "{a: b, c: d}", "1 .real", "(1).real", "1.5.real", "a[b][c]",
            "a[:]", "a[::]", "a[b:]", "a[:b]", "a[b:c]", "a[b:c:d]", "a[::d]", "a[b::d]", "a[:c:d]", "a[b::]", "a[b:c:]",
            "a not in b", "not a in b", "not a not in b", "a in not b", "a not b", "a not in not b", "not not a",
            "[a for a in b]", "[a for a in b if c]", "[a for a in b for c in d]", "[a for a in b if c if d]", "[a for a, b in c]",
            "[a for (a, b) in c]", "[a for [a, b] in c]", "[a for a.b in c]", "[a for a[0] in c]", "[a for a | b in c]",
            "[a for a in b or c]", "[a for a in b if c else d]", "[a for a in lambda: b]", "[a if b else c for d in e]",
            "[lambda: a for b in c]", "{a: b for c in d}", "{a: b for c in d if e}", "[a for a in b,]", "[a for a, in b]",
            "a = b", "a, b = c", "a.b = c", "a[b] = c", "(a, b) = c", "[a, b] = c", "a + b = c", "f(a) = c", "a = b = c", "(a) = b",
            "a, b = c, d", "a = b,", "a, = b", "a,", "a, b", "a, b,", "(a, b), c = d", "a = lambda: b", "a = b if c else d",
            "f()", "f(a)", "f(a,)", "f(a, b)", "f(,)", "f(a b)", "f(a = b)", "f(a = b,)", "f(*a)", "f(**a)", "f(a, *b, **c)",
            "f(a, b = c, *d, **e)", "f(a = b, c)", "f(*a, b)", "f(**a, b)", "f(**a, *b)", "f(*a, *b)", "f(**a, **b)", "f(a = b, a = c)",
            "f(*a, b = c)", "f(**a, b = c)", "f(a.b = c)", "f((a) = c)", "f(a == b)", "f(a if b else c)", "f(a for a in b)",
            "f(a)(b)", "f(a).b(c)", "f(g(h(a)))", "f(a not in b)", "f(not a)", "f(lambda: a)", "f(lambda a: a, b)", "f(a[b], c.d, e(f))"]
    return out


def triple_forms():
    return ["a %s b %s c %s d" % t for t in itertools.product(BIN, repeat=3)]


ARG_KINDS = ["a%d", "k%d = v", "*s%d", "**d%d"]
PARAM_KINDS = ["p%d", "p%d = 1", "*", "*a%d", "**k%d", "/"]


def order_forms(maxlen):
    """All argument orders and all lambda parameter orders up to `maxlen` items."""
    out = []
    for n in range(0, maxlen + 1):
        for combo in itertools.product(range(len(ARG_KINDS)), repeat=n):
            out.append(("args", "f(%s)" % ", ".join((ARG_KINDS[k] % i) if "%d" in ARG_KINDS[k] else ARG_KINDS[k] for i, k in enumerate(combo))))
        for combo in itertools.product(range(len(PARAM_KINDS)), repeat=n):
            ps = ", ".join((PARAM_KINDS[k] % i) if "%d" in PARAM_KINDS[k] else PARAM_KINDS[k] for i, k in enumerate(combo))
            out.append(("params", "lambda %s: 0" % ps))
            out.append(("defparams", "def f(%s): pass" % ps))
    out += [("args", "f(k = 1, k = 2)"), ("args", "f(k = 1, j = 2, k = 3)"), ("params", "lambda p, p: 0"), ("params", "lambda p, *p: 0"),
            ("params", "lambda p, **p: 0"), ("params", "lambda *p, **p: 0"), ("defparams", "def f(p, p): pass")]
    return out


NAMES = ["a", "b", "c", "d", "e", "x", "y", "z", "foo", "_bar", "True", "None"]
ATOMS = NAMES + ["0", "1", "2", "42", "1.5", "0.25", '"s"', '"two words"', '""']


class ExprGen:
    """Random derivations of the shared expression grammar (always valid in Starlark and in Python)."""

    def __init__(self, rng):
        self.rng = rng

    def test(self, d):
        r = self.rng.random()
        if d > 0 and r < 0.08:
            return self.lam(d)
        e = self.level(0, d)
        if d > 0 and r > 0.85:
            e = "%s if %s else %s" % (e, self.level(0, d - 1), self.test(d - 1))
        return e

    def lam(self, d):
        n = self.rng.randint(0, 3)
        ps = []
        shape = self.rng.choice(["plain", "defaults", "star", "kw", "args"])
        for i in range(n):
            ps.append("p%d" % i + (" = " + self.test(d - 1) if shape == "defaults" and i >= n // 2 else ""))
        if shape == "star" and n > 0:
            ps.insert(self.rng.randint(0, n - 1), "*")
        if shape == "args":
            ps.append("*va")
        if shape in ("kw", "args") and self.rng.random() < 0.5:
            ps.append("**kw")
        return "lambda %s: %s" % (", ".join(ps), self.test(d - 1))

    LEVELS = [["or"], ["and"], None, ["==", "!=", "<", ">", "<=", ">=", "in", "not in"], ["|"], ["^"], ["&"], ["<<", ">>"],
              ["+", "-"], ["*", "/", "//", "%"]]

    def level(self, k, d):
        if k == 10:
            return self.unary(d)
        if k == 2:
            if d > 0 and self.rng.random() < 0.12:
                return "not " + self.level(2, d - 1)
            return self.level(3, d)
        ops = self.LEVELS[k]
        if k == 3:
            if d > 0 and self.rng.random() < 0.2:
                return "%s %s %s" % (self.level(4, d - 1), self.rng.choice(ops), self.level(4, d - 1))
            return self.level(4, d)
        e = self.level(k + 1, d)
        while d > 0 and self.rng.random() < 0.16:
            e = "%s %s %s" % (e, self.rng.choice(ops), self.level(k + 1, d - 1))
        return e

    def unary(self, d):
        if d > 0 and self.rng.random() < 0.12:
            return self.rng.choice(["-", "+", "~"]) + self.unary(d - 1)
        return self.primary(d)

    def primary(self, d):
        e = self.atom(d)
        while d > 0 and self.rng.random() < 0.25:
            k = self.rng.random()
            if k < 0.3:
                e += "." + self.rng.choice(["attr", "m", "x"])
            elif k < 0.6:
                e += "(%s)" % self.args(d - 1)
            elif k < 0.8:
                e += "[%s]" % self.test(d - 1)
            else:
                parts = [self.test(d - 1) if self.rng.random() < 0.6 else "" for _ in range(3)]
                e += "[%s:%s%s]" % (parts[0], parts[1], (":" + parts[2]) if self.rng.random() < 0.5 else "")
        return e

    def args(self, d):
        out = [self.test(d) for _ in range(self.rng.randint(0, 2))]
        out += ["k%d = %s" % (i, self.test(d)) for i in range(self.rng.randint(0, 2))]
        if self.rng.random() < 0.15:
            out.append("*" + self.test(d))
        if self.rng.random() < 0.15:
            out.append("**" + self.test(d))
        return ", ".join(out)

    def atom(self, d):
        if d <= 0 or self.rng.random() < 0.55:
            a = self.rng.choice(ATOMS)
            return a
        k = self.rng.random()
        if k < 0.3:
            return "(%s)" % self.test(d - 1)
        if k < 0.42:
            n = self.rng.randint(0, 3)
            items = [self.test(d - 1) for _ in range(n)]
            return "(%s%s)" % (", ".join(items), "," if n == 1 or (n > 1 and self.rng.random() < 0.2) else "")
        if k < 0.58:
            items = [self.test(d - 1) for _ in range(self.rng.randint(0, 3))]
            return "[%s%s]" % (", ".join(items), "," if items and self.rng.random() < 0.2 else "")
        if k < 0.7:
            items = ["%s: %s" % (self.test(d - 1), self.test(d - 1)) for _ in range(self.rng.randint(0, 2))]
            return "{%s}" % ", ".join(items)
        if k < 0.9:
            return "[%s%s]" % (self.test(d - 1), self.clauses(d - 1))
        return "{%s: %s%s}" % (self.test(d - 1), self.test(d - 1), self.clauses(d - 1))

    def target(self):
        k = self.rng.random()
        if k < 0.5:
            return self.rng.choice(["i", "j", "k"])
        if k < 0.7:
            return "i, j"
        if k < 0.8:
            return "(i, j)"
        if k < 0.9:
            return "[i, (j, k)]"
        return self.rng.choice(["o.f", "o[0]"])

    def clauses(self, d):
        s = " for %s in %s" % (self.target(), self.level(0, d))
        while self.rng.random() < 0.35:
            if self.rng.random() < 0.5:
                s += " for %s in %s" % (self.target(), self.level(0, d))
            else:
                s += " if %s" % self.level(0, d)
        return s


class StmtGen:
    """Small programs over all statement forms and indentation shapes (shared with Python)."""

    def __init__(self, rng):
        self.rng = rng
        self.eg = ExprGen(rng)

    def expr(self):
        return self.eg.test(self.rng.randint(0, 2))

    def small(self, in_def, in_for):
        k = self.rng.random()
        if k < 0.25:
            return self.expr()
        if k < 0.5:
            return "%s = %s" % (self.rng.choice(["v", "v, w", "(v, w)", "[v, w]", "o.f", "o[0]", "o[i].f"]), self.expr())
        if k < 0.65:
            return "%s %s %s" % (self.rng.choice(["v", "o.f", "o[0]"]), self.rng.choice(["+=", "-=", "*=", "/=", "//=", "%=", "&=", "|=", "^=", "<<=", ">>="]), self.expr())
        if k < 0.75:
            return "pass"
        if k < 0.85 and in_def:
            return self.rng.choice(["return", "return " + self.expr(), "return %s, %s" % (self.expr(), self.expr())])
        if k < 0.95 and in_for:
            return self.rng.choice(["break", "continue"])
        return self.expr()

    def simple_line(self, in_def, in_for):
        parts = [self.small(in_def, in_for) for _ in range(1 if self.rng.random() < 0.8 else 2)]
        return "; ".join(parts) + (";" if self.rng.random() < 0.05 else "")

    def suite(self, ind, d, in_def, in_for):
        """returns text after the colon (including the newline structure)"""
        if self.rng.random() < 0.25:
            return " " + self.simple_line(in_def, in_for) + "\n"
        step = self.rng.choice(["  ", "    ", " ", "        "])
        body = "\n"
        for _ in range(self.rng.randint(1, 3)):
            if self.rng.random() < 0.15:
                body += "\n" if self.rng.random() < 0.5 else (ind + step + "# comment\n")
            body += self.stmt(ind + step, d - 1, in_def, in_for)
        return body

    def stmt(self, ind, d, in_def, in_for):
        k = self.rng.random()
        if d <= 0 or k < 0.45:
            return ind + self.simple_line(in_def, in_for) + "\n"
        if k < 0.65:
            s = ind + "if %s:%s" % (self.expr(), self.suite(ind, d, in_def, in_for))
            for _ in range(self.rng.randint(0, 2)):
                s += ind + "elif %s:%s" % (self.expr(), self.suite(ind, d, in_def, in_for))
            if self.rng.random() < 0.5:
                s += ind + "else:%s" % self.suite(ind, d, in_def, in_for)
            return s
        if k < 0.82:
            return ind + "for %s in %s:%s" % (self.eg.target(), self.eg.level(0, 1), self.suite(ind, d, in_def, True))
        ps = self.rng.choice(["", "p", "p, q = 1", "p, *, q", "p, *a, **k", "*a", "**k", "p, q = 1, *a, r, s = 2, **k", "p, /, q", "p = (1, 2)"])
        return ind + "def fn%d(%s):%s" % (self.rng.randint(0, 9), ps, self.suite(ind, d, True, False))

    def program(self):
        return "".join(self.stmt("", self.rng.randint(1, 3), False, False) for _ in range(self.rng.randint(1, 4)))


TOKEN_POOL = ["a", "b", "c", "1", '"s"', "or", "and", "not", "in", "if", "else", "lambda", "for", "==", "!=", "<", ">", "<=", ">=", "|",
              "^", "&", "<<", ">>", "+", "-", "*", "/", "//", "%", "~", "**", "=", ".", ",", ":", "(", ")", "[", "]", "{", "}"]


def split_tokens(src):
    return re.findall(r'"[^"]*"|[A-Za-z_][A-Za-z0-9_]*|\d+\.\d+|\d+|==|!=|<=|>=|<<|>>|//|\*\*|[-+*/%|^&~=.,:()\[\]{}<>]', src)


def mutate(rng, src):
    ts = split_tokens(src)
    for _ in range(rng.choice([1, 1, 1, 2, 3])):
        k = rng.random()
        if not ts:
            ts = [rng.choice(TOKEN_POOL)]
        i = rng.randrange(len(ts))
        if k < 0.3:
            del ts[i]
        elif k < 0.6:
            ts.insert(i, rng.choice(TOKEN_POOL))
        elif k < 0.85:
            ts[i] = rng.choice(TOKEN_POOL)
        else:
            j = rng.randrange(len(ts))
            ts[i], ts[j] = ts[j], ts[i]
    return " ".join(ts)


def corpus_files():
    out = []
    for pat in ("**/*.star", "**/*.bzl", "**/*.sky"):
        out += glob.glob(os.path.join(sv.REPO, pat), recursive=True)
    out = [p for p in sorted(set(out)) if "/target/" not in p and "/.git/" not in p]
    return out


def gen_cases(ctx, deep=False):
    rng = ctx.rng
    cases = []

    def add(src, kind, shared=True, model=True, d="A"):
        cases.append({"src": src if src.endswith("\n") else src + "\n", "kind": kind, "shared": shared, "model": model, "d": d,
                      "tokens": True, "rt": True})

    # hand-written boundary cases / minimised past failures first
    for p in sorted(glob.glob(os.path.join(sv.ROOT, "corpus", "C06", "*.txt"))):
        for line in open(p, encoding="utf-8"):
            line = line.rstrip("\n")
            if line and not line.startswith("#"):
                add(line.replace("\\n", "\n"), "corpus")
    forms = pair_forms()
    for f in forms:
        for c in CONTEXTS:
            add(c.format(f), "pairs")
    tri = triple_forms()
    tri_ctx = CONTEXTS if (deep or not ctx.quick()) else ["{0}"]
    for f in tri:
        for c in tri_ctx:
            add(c.format(f), "triples")
    for kind, src in order_forms(4 if (ctx.quick() and not deep) else 5):
        add(src, kind, shared=(kind != "args"), model=(kind != "defparams"))
    eg = ExprGen(rng)
    nrand = ctx.n(5000, 150000) * (3 if deep else 1)
    valid = []
    for _ in range(nrand):
        e = eg.test(rng.choice([1, 2, 2, 3, 3, 4, 5]))
        if len(e) > 600:
            continue
        valid.append(e)
        add(rng.choice(["{0}", "{0}", "v = {0}", "f({0})"]).format(e), "random")
    base = forms + valid[: len(valid) // 2]
    for _ in range(ctx.n(5000, 150000) * (3 if deep else 1)):
        add(mutate(rng, rng.choice(base)), "mutation", shared=False)
    sg = StmtGen(rng)
    for _ in range(ctx.n(1500, 30000)):
        prog = sg.program()
        add(prog, "statements", model=False, d="A" if "/, " in prog else rng.choice(["A", "A", "E"]))
    for p in corpus_files():
        try:
            txt = open(p, encoding="utf-8").read()
        except Exception:  # noqa: BLE001
            continue
        cases.append({"src": txt, "kind": "file", "file": os.path.relpath(p, sv.REPO), "shared": False, "model": False, "d": "A",
                      "tokens": False, "rt": True})
    return cases


# ------------------------------------------------------------------------------------------------
# evaluation

def model_line(cid, toks):
    """tokens of the real lexer -> one driver line, or None when outside the model's alphabet."""
    toks = list(toks)
    while toks and toks[-1][0] == "Newline":
        toks.pop()
    if not toks:
        return None, None
    table, names = {}, []
    parts = []
    for name, payload in toks:
        if name not in MODEL_TOKENS:
            return None, None
        if name in PAYLOAD:
            if payload not in table:
                table[payload] = len(names) + 1
                names.append(payload)
            parts.append("%s:%d" % (name, table[payload]))
        else:
            parts.append(name)
    return "%d %s" % (cid, " ".join(parts)), (table, names)


def subst(s, names):
    return re.sub(r"#(\d+)", lambda m: names[int(m.group(1)) - 1], s)


def unwrap(sx):
    """(module X) -> X for a one-statement module"""
    if sx.startswith("(module ") and sx.endswith(")"):
        return sx[len("(module "):-1]
    return sx


def is_nontrivial(toks):
    return sum(1 for t in toks if t[0] in OPERATOR_TOKENS) >= 2


def evaluate(ctx, cases):
    rc, log, res = sv.run_harness_sharded(ctx, "parse", cases, timeout=1500)
    ctx.log("harness done on %d cases" % len(cases))
    failures = []
    if rc != 0:
        failures.append({"key": "harness-crash", "what": "parse harness exited with %s: %s" % (rc, log[-300:]), "replay": {"rc": rc}})
    st = {"evaluations": 0, "accepted": 0, "rejected": 0, "model_cases": 0, "py_cases": 0, "py_both_ok": 0, "roundtrips": 0,
          "nontrivial": set(), "py_informational": {}, "kinds": {}}
    lines, meta = [], {}
    for i, (c, r) in enumerate(zip(cases, res)):
        st["kinds"][c["kind"]] = st["kinds"].get(c["kind"], 0) + 1
        if r is None or "panic" in (r or {}):
            failures.append({"key": "panic", "what": "no result / panic for %r: %s" % (c["src"][:200], r), "replay": {"case": c, "impl": r}})
            continue
        st["evaluations"] += 1
        st["accepted" if r["ok"] else "rejected"] += 1
        toks = r.get("tokens")
        if isinstance(toks, list) and is_nontrivial(toks):
            st["nontrivial"].add(c["src"])
        # (1) printing round trip on the implementation
        if r["ok"] and "re" in r:
            st["roundtrips"] += 1
            re_ = r["re"]
            tag = c.get("file") or c["src"][:300]
            if not re_["ok"]:
                failures.append({"key": "roundtrip:printed-text-rejected", "what": "Display of %r = %r does not parse: %s" % (tag, r["display"][:300], re_.get("err")),
                                 "replay": {"case": c, "impl": r}})
            elif not re_["same"]:
                failures.append({"key": "roundtrip:tree-differs", "what": "parse(Display(t)) != t for %r: display %r, first tree %s, second %s"
                                 % (tag, r["display"][:300], r.get("sxd", r["sx"])[:400], re_.get("sx", "")[:400]), "replay": {"case": c, "impl": r}})
            elif not re_["fix"]:
                failures.append({"key": "roundtrip:not-a-fixed-point", "what": "Display(parse(Display(t))) != Display(t) for %r: %r vs %r"
                                 % (tag, r["display"][:300], re_.get("display2", "")[:300]), "replay": {"case": c, "impl": r}})
        # (2) the Coq model on the same token stream
        if c.get("model") and isinstance(toks, list):
            line, tab = model_line(i, toks)
            if line is not None:
                lines.append(line)
                meta[i] = tab
        # (3) CPython on the same text
        if c.get("shared") or c["kind"] == "mutation":
            st["py_cases"] += 1
            py = c06_ast.canon(c["src"])
            impl_sx = r.get("sx") if r["ok"] else None
            if c.get("shared"):
                if py[0] == "ok" and r["ok"]:
                    st["py_both_ok"] += 1
                    if py[1] != impl_sx:
                        failures.append({"key": "cpython-tree-differs", "what": "%r: implementation %s, CPython %s" % (c["src"], impl_sx, py[1]),
                                         "replay": {"case": c, "impl": r, "cpython": py}})
                elif py[0] == "ok" and not r["ok"] and c["kind"] in ("random", "statements"):
                    failures.append({"key": "rejects-shared-grammar", "what": "%r: implementation rejects (%s), CPython parses %s" % (c["src"], r.get("err"), py[1]),
                                     "replay": {"case": c, "impl": r, "cpython": py}})
                elif py[0] == "reject" and r["ok"] and c["kind"] in ("random", "statements", "params", "defparams"):
                    failures.append({"key": "accepts-what-python-rejects", "what": "%r: implementation parses %s, CPython rejects (%s)" % (c["src"], impl_sx, py[1]),
                                     "replay": {"case": c, "impl": r, "cpython": py}})
                elif py[0] == "ok" and not r["ok"] and c["kind"] in ("params", "defparams"):
                    failures.append({"key": "rejects-shared-grammar", "what": "%r: implementation rejects (%s), CPython parses %s" % (c["src"], r.get("err"), py[1]),
                                     "replay": {"case": c, "impl": r, "cpython": py}})
                else:
                    k = "impl_%s/py_%s" % ("ok" if r["ok"] else "reject", py[0])
                    st["py_informational"][k] = st["py_informational"].get(k, 0) + 1
                    st.setdefault("py_examples", {}).setdefault(k, []).append(c["src"])
            else:
                if py[0] == "ok" and r["ok"]:
                    st["py_both_ok"] += 1
                    if py[1] != impl_sx:
                        failures.append({"key": "cpython-tree-differs", "what": "%r: implementation %s, CPython %s" % (c["src"], impl_sx, py[1]),
                                         "replay": {"case": c, "impl": r, "cpython": py}})
                else:
                    k = "mut:impl_%s/py_%s" % ("ok" if r["ok"] else "reject", py[0])
                    st["py_informational"][k] = st["py_informational"].get(k, 0) + 1
                    st.setdefault("py_examples", {}).setdefault(k, []).append(c["src"])
    # run the extracted model
    if lines:
        okd, exe = sv.ocaml_driver("Extract/ParseX.vo", "parse_model", "parse_driver")
        if not okd:
            failures.append({"key": "model-run-failed", "what": "could not build the extracted model: " + exe[-300:], "replay": {"log": exe}})
        else:
            okr, outl = sv.run_driver_sharded(ctx, exe, lines, "parse", timeout=900)
            done = sum(int(l.split()[1]) for l in outl if l.startswith("done "))
            if not okr or done != len(lines):
                failures.append({"key": "model-run-failed", "what": "extracted model driver failed (%d of %d cases): %s" % (done, len(lines), outl[-3:]),
                                 "replay": {"out": outl[-20:]}})
            ctx.log("extracted Coq model evaluated %d cases" % done)
            for l in outl:
                if l.startswith("done "):
                    continue
                f = l.split("\t")
                if len(f) != 6:
                    continue
                i = int(f[0])
                c, r = cases[i], res[i]
                table, names = meta[i]
                m, g, gf, pr, rt = f[1], f[2], f[3], f[4], f[5]
                if m == "UNMODELLED":
                    continue
                st["model_cases"] += 1
                m_ok = m.startswith("(")
                m_sx = subst(m, names) if m_ok else m
                g_sx = subst(g, names) if g.startswith("(") else g
                impl_sx = unwrap(r["sx"]) if r["ok"] else "REJECT"
                py = None

                def rep(extra=None):
                    d = {"case": c, "impl": r, "model": m_sx, "grammar": g_sx, "cpython": c06_ast.canon(c["src"])}
                    d.update(extra or {})
                    return d
                if m == "OOF" or g == "OOF":
                    failures.append({"key": "model-out-of-fuel", "what": "model ran out of fuel on %r" % c["src"], "replay": rep()})
                    continue
                if m_ok != r["ok"]:
                    failures.append({"key": "accept-reject:model-differs", "what": "%r: implementation %s, Coq model of parser_rd.rs %s, reference grammar %s"
                                     % (c["src"], impl_sx, m_sx, g_sx), "replay": rep()})
                elif m_ok and m_sx != impl_sx:
                    failures.append({"key": "tree:model-differs", "what": "%r: implementation %s, Coq model %s, reference grammar %s"
                                     % (c["src"], impl_sx, m_sx, g_sx), "replay": rep()})
                if (g.startswith("(") != r["ok"]) or (r["ok"] and g_sx != impl_sx):
                    failures.append({"key": "grammar:impl-differs", "what": "%r: implementation %s, reference grammar %s (Coq model %s)"
                                     % (c["src"], impl_sx, g_sx, m_sx), "replay": rep()})
                if gf.startswith("(") and not r["ok"] and m == "ERR15":
                    failures.append({"key": "spec:bare-tuple-expression-statement-rejected",
                                     "what": "%r: the specification's grammar (ExprStmt = Expression = Test {',' Test}) and CPython accept an "
                                             "unparenthesised tuple as an expression statement (%s); the implementation rejects it: %s"
                                             % (c["src"], subst(gf, names), (r.get("err") or {}).get("msg")), "replay": rep({"grammar_spec": subst(gf, names)})})
                elif gf.startswith("(") != g.startswith("("):
                    failures.append({"key": "grammar:strict-differs", "what": "%r: specification grammar %s, restricted grammar %s" % (c["src"], gf, g),
                                     "replay": rep()})
                if m_ok and r["ok"] and "re" in r and isinstance(r["re"].get("tokens"), list):
                    dt = list(r["re"]["tokens"])
                    while dt and dt[-1][0] == "Newline":
                        dt.pop()
                    want = []
                    for name, payload in dt:
                        want.append("%s:%d" % (name, table.get(payload, 0)) if name in PAYLOAD else name)
                    if " ".join(want) != pr and m_sx == impl_sx:
                        failures.append({"key": "print:model-differs", "what": "%r: Display %r tokens differ from the model printer: %s vs %s"
                                         % (c["src"], r["display"], " ".join(want), pr), "replay": rep({"print": pr})})
                    if rt != "SAME":
                        failures.append({"key": "print:model-roundtrip", "what": "%r: the model does not re-parse its own print: %s" % (c["src"], rt),
                                         "replay": rep({"print": pr})})
    return failures, st


def correspond(ctx):
    cases = gen_cases(ctx)
    ctx.log("generated %d cases" % len(cases))
    failures, st = evaluate(ctx, cases)
    ctx.log("evaluated=%d accepted=%d rejected=%d model=%d cpython=%d (both accept: %d) roundtrips=%d failures=%d"
            % (st["evaluations"], st["accepted"], st["rejected"], st["model_cases"], st["py_cases"], st["py_both_ok"], st["roundtrips"], len(failures)))
    samples = []
    seen = set()
    for c in cases:
        if c["kind"] not in seen and c["kind"] != "file":
            seen.add(c["kind"])
            samples.append({"kind": c["kind"], "src": c["src"]})
    cov = {
        "evaluations": st["evaluations"],
        "distinct_nontrivial": len(st["nontrivial"]),
        "rule": "every ordered pair of the 21 binary operators, 4 prefix operators, the conditional and lambda in %d syntactic contexts "
                "(exhaustive), every ordered triple of binary operators (exhaustive; all contexts in the thorough tier), every order of "
                "argument kinds / lambda and def parameter kinds up to length 4 (5 thorough) (exhaustive), grammar-directed random "
                "expressions, token-level mutations of valid inputs, random statement programs over all statement forms and indentation "
                "shapes, every .star/.bzl file under the repository; non-trivial = the real lexer's token stream holds at least two "
                "operator tokens; distinct by source text" % len(CONTEXTS),
        "traces_validated_against_impl": st["model_cases"],
        "cpython_compared": st["py_cases"],
        "cpython_both_accept_trees_compared": st["py_both_ok"],
        "cpython_informational": st["py_informational"],
        "print_roundtrips_checked": st["roundtrips"],
        "accepted": st["accepted"], "rejected": st["rejected"],
        "input_distribution": st["kinds"],
        "exhaustive": False,
        "samples": samples,
    }
    return {"coverage": cov, "failures": failures}


def search(ctx, broken):
    """A proof obligation / pin / translator item / the tie broke: deep random expressions and all triples in all
    contexts against the reference grammar (Coq) and CPython."""
    old = ctx.tier
    try:
        cases = [c for c in gen_cases(ctx, deep=True) if c["kind"] != "file"]
        failures, st = evaluate(ctx, cases)
    finally:
        ctx.tier = old
    return {"failures": failures, "coverage": {"evaluations": st["evaluations"], "model_cases": st["model_cases"]}}


def replay(ctx, rep):
    c = rep.get("replay", {}).get("case")
    if not c:
        return {"coverage": {}, "failures": []}
    failures, st = evaluate(ctx, [c])
    return {"coverage": {"evaluations": st["evaluations"], "distinct_nontrivial": len(st["nontrivial"]), "samples": [c]}, "failures": failures}


META = {
    "category": "proof",
    "level_text": "Full for the expression grammar, at the level of the Coq model of parser_rd.rs. Proved in Coq (Properties/C06.v, closed under "
                  "the global context, no axioms): (1) C06_pratt_eq_grammar: for every binding-power table satisfying the boolean predicate "
                  "table_ok - and the table re-extracted from parser_rd.rs on every run satisfies it by computation - the parser model "
                  "(Pratt loop with infix_binding_power, prefix `not`, two-token `not in`, chained-comparison rejection, both copies of the "
                  "loop, parse_bitor_expr, parse_argument's identifier look-ahead, all bracket/suffix/argument-list/lambda/comprehension "
                  "code, check_assign/check_call/lambda-parameter validation, the one-line expression / assignment statement) returns, "
                  "for EVERY token list and EVERY fuel, exactly what the stratified reference grammar returns: same tree, same rejection, "
                  "same out-of-fuel. It is lifted from the operator-layer theorem (C06_pratt_binary_partial, kept) by congruence lemmas "
                  "for every function of the shared grammar (proved once for an arbitrary bind-compatible relation; no functional "
                  "extensionality) and by C06_argument_reentry_eq (continue_primary ; continue_infix(c_arg) ; continue_ternary after a "
                  "consumed identifier = parse_test on the un-consumed stream). C06_parse_fuel_mono: any answer other than out-of-fuel is "
                  "the answer at every larger fuel, so the equality reads 'for all sufficiently large fuel' as well. "
                  "(2) C06_print_parse_roundtrip: for every expression e with printable e (all 21 constructors: names, literals, tuples, "
                  "list/dict displays, dot, calls with positional/named/*/** arguments, index, two-index, slices, lambda with every "
                  "parameter kind, not, unary + - ~, all 21 binary operators, conditional, list and dict comprehensions), parsing the "
                  "tokens of the Display model (every operator application parenthesised, unary receivers and int-before-dot "
                  "parenthesised) with fuel >= size gives e back; `printable` only asks what the parser guarantees of its own output "
                  "(check_args, check_params, comprehension starts with `for`, loop targets assignable and normalised). Corollaries "
                  "C06_print_fixpoint (printed text is a fixed point of parse-then-print), C06_print_injective (different printable trees "
                  "print differently), C06_print_parse_roundtrip_in_context (inside any bracket/comma/colon/else/for context), "
                  "C06_print_parse_roundtrip_stmt (also `target = value`), C06_print_parse_roundtrip_extracted (at the extracted tables with "
                  "the fuel the tie uses: size <= number of printed tokens). "
                  "Still only TIED (tested, not proved): that the Coq model is parser_rd.rs and that Print.v is ast.rs Display - the "
                  "extracted model and reference grammar are run on the real lexer's token stream of every generated text and compared with "
                  "the real parser's tree / rejection, the model printer with Display's tokens, and the real parser is checked for "
                  "parse(Display(t)) = t and Display fixed point; CPython's ast gives an independent third opinion on the shared subset. "
                  "NOT proved and not modelled in Coq: statements other than the one-line expression / assignment statement "
                  "(def/if/for/return/load, indentation; covered by the CPython comparison and the real round trip only), f-string desugaring, minimal-parenthesis printing (min_paren_roundtrip of "
                  "DESIGN), and that every tree the parser returns is `printable` (checked per case by the tie). One deviation from the "
                  "specification's grammar is recorded as a known finding (bare tuple expression statement rejected; Coq witness "
                  "C06_bare_tuple_statement_refuted; this is why the full statement is against Grammar.parse_strict).",
    "level_note": "Trusted: Coq kernel; extraction (ExtrOcamlBasic only) + ocaml/parse_driver.ml; tools/extract.py + tools/extract_items/parser.py "
                  "(regexes over parser_rd.rs); harness bin parse (own AST walker); the real lexer (shared by model and implementation; C05's "
                  "subject); CPython 3.11 ast as validation of the reference grammar. The model makes explicit that parse_unary consumes "
                  "a token when it succeeds (guard) and uses explicit fuel for nesting; neither fires on generated inputs (OOF/guard "
                  "results are reported as failures). The tie is differential testing: a code change outside the generators' reach can escape.",
    "technique": "Coq proof of parser model = stratified grammar on all token lists (operator layer by level induction, lifted by relational "
                 "parametricity of the shared grammar code + argument re-entry lemma) over a table_ok-checked, source-extracted "
                 "binding-power table; Coq proof of the Display round trip by size induction; "
                 "extracted model vs implementation vs CPython on exhaustive operator pairs/triples x contexts",
    "design_ref": "DESIGN.md section 4 C06",
}
