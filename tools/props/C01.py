"""C01 Evaluation agrees with the reference semantics on the Python-shared core.

Reference = MiniStar (coq/Core): fuelled big-step interpreter in Gallina with its meta-theory.
Tie = generated programs run on the real evaluator (module level AND wrapped in a function) and on
the Coq interpreter (vm_compute); transcripts of emit() and the outcome (completion, or failure kind +
line of the innermost failing statement) must be equal.  CPython validates the reference itself."""
import json
import os
import re
import sys

import sv
from gen import progs

PROP = "C01"
HARNESS_BINS = ["eval"]
COQ_TARGETS = ["Properties/C01.vo", "Core/Sem.vo", "Core/StrProofs.vo", "Scope/SlotSim.vo"]
TRUSTED = ["coq/Core/Sem.v is the reference semantics (hand-written; validated against CPython 3.11 on every generated program)",
           "tools/gen/progs.py (program generator and the two renderers: source text / Gallina term)",
           "cases.v route: programs are evaluated by vm_compute inside coqc"]
ASSUMPTIONS = ["end-to-end agreement of the real compiler+VM with the reference is established by differential testing on generated "
               "programs, not by proof (the bytecode compiler and interpreter loop are not modelled)",
               "out-of-fuel outcomes are excluded (generated programs terminate by construction)"]
FUEL = 1500

KIND_PATTERNS = [
    # string formatting / string methods (interpolation.rs, dot_format.rs, methods.rs, funcs/other.rs)
    (r"Too many arguments for format string|Not enough arguments for format string", "TypeErr"),
    (r"Not enough parameters in format string", "IndexErr"),
    (r"Incomplete format|Unsupported format character|in format string|inside replacement field|Empty separator|"
     r"is not a single character|chr\(\) parameter", "ValueErr"),
    (r"Index .* is out of bound|out of bound", "IndexErr"),
    (r"[Kk]ey .*not found|Key .* was not found", "KeyErr"),
    (r"division by zero|Modulo by zero|by zero", "ZeroDiv"),
    (r"Missing (named-only )?parameter|Too many positional|extra positional|Unexpected parameter|unexpected keyword|"
     r"[Ww]rong number of|Found `.*` extra", "Arity"),
    (r"referenced before assignment|Variable `.*` not found", "Unbound"),
    (r"not hashable|unhashable", "Unhashable"),
    (r"not supported|Type of parameter|Expected type|expected .* but got|[Oo]peration `.*` not supported|doesn't match|does not match", "TypeErr"),
    (r"not found in|Cannot parse|not a valid|Negative (left|right) shift|Cannot .* from an empty|not in list|Element .* not found|empty", "ValueErr"),
    (r"mutate an iterable|while iterating", "MutateWhileIter"),
]
PY_KIND = {"IndexError": "IndexErr", "KeyError": "KeyErr", "ZeroDivisionError": "ZeroDiv", "TypeError": "TypeErr",
           "ValueError": "ValueErr", "NameError": "Unbound", "UnboundLocalError": "Unbound"}


def impl_kind(msg):
    for pat, k in KIND_PATTERNS:
        if re.search(pat, msg):
            return k
    return "?"


def _bytes_text(codes):
    return bytes(codes).decode("utf-8", "replace")


def obs_text(o):
    """Coq `eobs` term (parsed; strings travel as lists of byte codes, see MODEL_PRELUDE) -> the harness' structural encoding."""
    if o == "XNone":
        return "None"
    if isinstance(o, list):
        h = o[0]
        if h == "XBool":
            return "True" if o[1] == "true" else "False"
        if h == "XInt":
            return "i%d" % o[1]
        if h == "XStr":
            return json.dumps(_bytes_text(o[1]), ensure_ascii=False)
        if h == "XList":
            return "[" + ",".join(obs_text(x) for x in o[1]) + "]"
        if h == "XTuple":
            return "(" + ",".join(obs_text(x) for x in o[1]) + ")"
        if h == "XDict":
            return "{" + ",".join(obs_text(k) + ":" + obs_text(v) for (k, v) in o[1]) + "}"
        if h == "XOther":
            return "<%s>" % _bytes_text(o[1])
    return "<?%r>" % (o,)


# strings are printed as byte-code lists so that no character of a transcript can confuse the parser of coqc's output
MODEL_PRELUDE = """From Coq Require Import ZArith NArith String List Ascii.
From SV Require Import Core.Syntax Core.Values Core.Sem.
From SV Require Scope.SlotSem.
Import ListNotations.
Open Scope string_scope.
Open Scope Z_scope.
Inductive eobs := XNone | XBool (b : bool) | XInt (z : Z) | XStr (l : list N) | XList (l : list eobs) | XTuple (l : list eobs)
| XDict (l : list (eobs * eobs)) | XOther (l : list N).
Definition codes (x : string) : list N := map N_of_ascii (list_ascii_of_string x).
Fixpoint enc (o : obs) : eobs :=
  match o with
  | ONone => XNone | OBool b => XBool b | OInt z => XInt z | OStr x => XStr (codes x)
  | OList l => XList (map enc l) | OTuple l => XTuple (map enc l)
  | ODict l => XDict (map (fun kv => (enc (fst kv), enc (snd kv))) l)
  | OOther t => XOther (codes t)
  end.
Definition run_enc (fuel : nat) (prog : list stmt) := let r := run_program fuel prog in (map enc (fst r), snd r).
(* the same program through the compiler's slot resolution and the evaluator's frame discipline (Scope/SlotSem.v) *)
Definition run_slot_enc (fuel : nat) (prog : list stmt) :=
  match SV.Scope.SlotSem.run_resolved fuel prog with Some r => Some (map enc (fst r), snd r) | None => None end.
"""


def model_outcome(o):
    if o == "Done":
        return {"ok": True}
    if o == "NoFuel":
        return {"nofuel": True}
    # ['Failed', kind, ['Some', ln] | 'None']
    ln = o[2][1] if isinstance(o[2], list) else 0
    return {"err": {"kind": o[1], "line": ln}}


def run_model(ctx, items, nshard=None, timeout=400, depth=0):
    """items: list of coq program texts -> list of (transcript texts, outcome) or None."""
    nshard = nshard or sv.NPROC
    files, parts = [], []
    for s in range(nshard):
        idx = list(range(s, len(items), nshard))
        if not idx:
            continue
        text = MODEL_PRELUDE
        for i in idx:
            text += "Eval vm_compute in (let p := %s in (run_enc %d p, run_slot_enc %d p)).\n" % (items[i], FUEL, FUEL)
        files.append(("prog_%d_%d" % (depth, s), text))
        parts.append(idx)
    outs = sv.coq_eval_files(ctx, files, timeout=timeout)
    res = [None] * len(items)
    log = ""
    failed = []
    for idx, (rc, out) in zip(parts, outs):
        vals = sv.coq_values(out)
        if rc != 0 or len(vals) != len(idx):
            log += out[-400:]
            failed += idx[len(vals):] if rc != 0 and len(vals) < len(idx) else idx
        for i, v in zip(idx, vals[:len(idx)]):
            tr, oc, sl = v
            slot = None
            if isinstance(sl, list) and sl[0] == "Some":
                slot = ([obs_text(x) for x in sl[1][0]], model_outcome(sl[1][1]))
            elif sl == "None":
                slot = "unresolved"
            res[i] = ([obs_text(x) for x in tr], model_outcome(oc), slot)
    failed = [i for i in failed if res[i] is None]
    if failed and depth < 2:
        # a shard died (time/memory limit): re-run its unevaluated programs in smaller files with a longer limit; in the last round
        # every program is alone in its file, so that one program that exhausts the memory limit cannot take others with it
        sub, sublog = run_model(ctx, [items[i] for i in failed], nshard=(len(failed) if depth == 1 else max(1, min(len(failed), sv.NPROC))),
                                timeout=timeout * 2, depth=depth + 1)
        for i, r in zip(failed, sub):
            res[i] = r
        log += sublog
    elif failed:
        # alone in its file and still not evaluated: when coqc ran out of memory / stack / time the program is too large for the Gallina
        # interpreter (its unary and inductive data needs gigabytes) - the size heuristic under-estimated it; it is counted as skipped.
        # Any other failure (a Coq error in the generated term) stays a failure of the tie.
        for idx, (rc, out) in zip(parts, outs):
            if any(res[i] is None for i in idx) and (rc in (124, 137, -9) or re.search(r"out of memory|Out of memory|Stack overflow|Cannot allocate", out)):
                for i in idx:
                    if res[i] is None:
                        res[i] = RESOURCE
    return res, log


RESOURCE = ("RESOURCE",)


def run_python(ctx, srcs):
    cpath = os.path.join(ctx.run_dir, "py.jsonl")
    opath = os.path.join(ctx.run_dir, "py.out.jsonl")
    with open(cpath, "w") as f:
        for s in srcs:
            f.write(json.dumps({"src": s}) + "\n")
    rc, out = sv.sh([sys.executable, os.path.join(sv.ROOT, "tools", "pyref", "run_ref.py"), cpath, opath], timeout=900)
    if rc != 0:
        return None, out[-500:]
    return [json.loads(l) for l in open(opath)], ""


def compare(ctx, entries):
    """entries: list of dicts {src, coq, id, variant}. Returns failures, stats."""
    py, plog = run_python(ctx, [e.get("pysrc", e["src"]) for e in entries])
    # a program whose CPython run exceeds run_ref.STEP_LIMIT line events (e.g. a string grown inside a loop over itself: millions of
    # iterations, gigabytes of transcript) is outside the size bound of the property's quantifier: it is dropped before anything runs it
    if py is not None and any(p.get("huge") for p in py):
        keep = [i for i in range(len(entries)) if not py[i].get("huge")]
        ctx.log("dropped %d program(s) whose CPython run exceeds the step limit" % (len(entries) - len(keep)))
        entries = [entries[i] for i in keep]
        py = [py[i] for i in keep]
    cases = [{"src": e["src"], "opts": {}} for e in entries]
    rc, log, impl = sv.run_harness_sharded(ctx, "eval", cases, timeout=900)
    ctx.log("implementation ran %d programs (rc=%s)" % (len(cases), rc))
    # programs whose run is large (long loops, big objects) are not sent to the Gallina interpreter, whose unary/inductive
    # data would need gigabytes; they are counted as skipped
    # (run_ref's `peak` includes what CPython's compiler allocates, about 150 bytes per source byte: the allowance grows with
    # the source text so that the bound is on what the RUN allocates, not on the length of the program)
    small = [i for i in range(len(entries))
             if py is None or (py[i].get("steps", 10 ** 9) <= 4000
                               and py[i].get("peak", 10 ** 9) <= 400000 + 150 * max(0, len(entries[i].get("pysrc", entries[i]["src"])) - 1000)
                               and sum(len(x) for x in py[i]["tr"]) <= 20000)]
    mres, mlog = run_model(ctx, [entries[i]["coq"] for i in small])
    model = [None] * len(entries)
    for i, m in zip(small, mres):
        model[i] = m
    skipped = set(range(len(entries))) - set(small)
    ctx.log("Coq reference ran %d programs (%d skipped as too large for the Gallina interpreter)" % (len(small), len(skipped)))
    failures = []
    st = {"agree": 0, "fail_outcomes": 0, "kinds": {}, "py_checked": 0, "ref_vs_python_diffs": 0, "nofuel": 0, "tr_len": 0}
    for i, e in enumerate(entries):
        r, m = impl[i], model[i]
        if r is None or "panic" in (r or {}):
            failures.append({"key": "impl-crash", "what": "the evaluator crashed/panicked on program %s: %s" % (e["id"], r),
                             "replay": {"src": e["src"], "impl": r}})
            continue
        if i in skipped:
            st["skipped_large"] = st.get("skipped_large", 0) + 1
            continue
        if m is RESOURCE or m == RESOURCE:
            st["skipped_large"] = st.get("skipped_large", 0) + 1
            st["skipped_model_out_of_resources"] = st.get("skipped_model_out_of_resources", 0) + 1
            continue
        if m is None:
            failures.append({"key": "model-run-failed", "what": "the Coq reference could not be evaluated for %s: %s" % (e["id"], mlog[-200:]),
                             "replay": {"src": e["src"], "coq": e["coq"]}})
            continue
        step = r["steps"][0]
        itr, iout = step["tr"], step["out"]
        mtr, mout, slot = m
        if "nofuel" in mout:
            st["nofuel"] += 1
            continue
        iline = (iout["err"]["span"]["bl"] + 1) if ("err" in iout and iout["err"].get("span")) else 0
        ikind = impl_kind(iout["err"]["msg"]) if "err" in iout else None
        # tie of the SLOT MACHINE (Scope/SlotSem.v: the compiler's slot resolution + the evaluator's frame discipline) to the real
        # evaluator: same transcript, same ok/fail, same failing line.  Theorem C01_slots_sim_partial relates it to the reference.
        if slot == "unresolved":
            st["slot_unresolved"] = st.get("slot_unresolved", 0) + 1
        elif slot is not None and "nofuel" not in slot[1]:
            str_, sout = slot
            sok = itr == str_ and (("ok" in iout) == ("ok" in sout)) and ("err" not in sout or iline == sout["err"]["line"])
            st["slot_checked"] = st.get("slot_checked", 0) + 1
            if sok:
                st["slot_agree"] = st.get("slot_agree", 0) + 1
                if (str_, "ok" in sout) != (mtr, "ok" in mout):
                    st["slot_agrees_with_impl_against_reference"] = st.get("slot_agrees_with_impl_against_reference", 0) + 1
            elif (str_, sout) == (mtr, mout):
                # the slot machine behaves like the reference and both differ from the evaluator: that difference is reported below
                # as an implementation-vs-reference failure (violation or known finding); it says nothing about the frame discipline
                st["slot_equals_reference_not_impl"] = st.get("slot_equals_reference_not_impl", 0) + 1
            else:
                st.setdefault("slot_diffs", []).append({"id": e["id"], "variant": e["variant"], "src": e["src"], "impl": [itr, iout],
                                                        "slot_machine": [str_, sout], "reference": [mtr, mout]})
        ok = itr == mtr and (("ok" in iout) == ("ok" in mout))
        if ok and "err" in mout:
            ok = iline == mout["err"]["line"]
            mk = mout["err"]["kind"]
            st["kinds"][mk] = st["kinds"].get(mk, 0) + 1
            if ok and ikind != "?" and ikind != mk and not (mk == "Unhashable" and ikind == "TypeErr"):
                ok = False
        # reference validation against CPython (never a violation by itself)
        pyd = None
        if e.get("nopy"):
            st["starlark_only_repr"] = st.get("starlark_only_repr", 0) + 1
        elif py is not None:
            p = py[i]
            st["py_checked"] += 1
            pok = p["tr"] == mtr and (("ok" in p["out"]) == ("ok" in mout))
            if pok and "err" in mout:
                pok = p["out"]["err"]["line"] == mout["err"]["line"]
            if not pok:
                st["ref_vs_python_diffs"] += 1
                pyd = p
        if ok:
            st["agree"] += 1
            st["tr_len"] += len(itr)
            if "err" in mout:
                st["fail_outcomes"] += 1
            if pyd is not None:
                failures.append({"key": "reference-vs-cpython", "what": "implementation and Coq reference agree but CPython differs on %s (reference "
                                 "validation; a Starlark/Python difference inside the generator's subset)" % e["id"],
                                 "replay": {"src": e["src"], "python": pyd, "model": [mtr, mout]}, "soft": True})
            continue
        # find first difference
        k = 0
        while k < min(len(itr), len(mtr)) and itr[k] == mtr[k]:
            k += 1
        what = ("program %s (%s): implementation and reference semantics differ: transcript prefix equal for %d items; "
                "impl next=%s outcome=%s | reference next=%s outcome=%s | cpython=%s"
                % (e["id"], e["variant"], k, itr[k:k + 1], json.dumps(iout)[:300], mtr[k:k + 1], mout,
                   (py[i]["out"], py[i]["tr"][k:k + 1]) if py else None))
        if e["id"].startswith("corpus:"):
            key = e["id"] + ":" + e["variant"]
        elif "err" in iout and "ok" in mout:
            key = "diff:impl-error:" + re.sub(r"`[^`]*`|\d+", "_", iout["err"]["msg"].splitlines()[0])[:80]
        elif "ok" in iout and "err" in mout:
            key = "diff:impl-succeeds-reference-fails:%s" % mout["err"]["kind"]
        else:
            key = "diff:%s" % ("transcript" if itr != mtr else "outcome")
        failures.append({"key": key, "what": what,
                         "replay": {"src": e["src"], "coq": e["coq"], "impl": step, "model": [mtr, mout], "python": py[i] if py else None}})
    return failures, st


def gen_entries(ctx, n, **kw):
    """Generated programs with the string layer on.  One program in ten is in `repr_str` mode: repr / %r / !r of values that
    contain strings, where Starlark quotes with double quotes and Python with single quotes - those programs are compared
    implementation vs reference only (`nopy`), all others are also validated against CPython."""
    entries = []
    agg = {}
    for i in range(n):
        seed = ctx.rng.getrandbits(48)
        nopy = ctx.rng.random() < 0.1
        # "effects": operands traced / right-hand sides and arguments that emit and mutate the container being read or assigned
        # (evaluation ORDER is observed, also relative to a failure)
        g = progs.generate(seed, features=("strings", "effects", "repr_str") if nopy else ("strings", "effects"), **kw)
        for k, v in g["stats"].items():
            agg[k] = agg.get(k, 0) + v
        if g["uses_strings"]:
            agg["programs_with_string_operations"] = agg.get("programs_with_string_operations", 0) + 1
        entries.append({"id": "s%d" % seed, "variant": "module", "src": g["src"], "coq": g["coq"], "nopy": nopy,
                        "pysrc": progs.python_source_of(g["prog"])})
        wprog = progs.wrap_in_function(g["prog"])
        wsrc, wn = progs.source_of(wprog)
        entries.append({"id": "s%d" % seed, "variant": "in-function", "src": wsrc, "coq": progs.coq_block(wn), "nopy": nopy,
                        "pysrc": progs.python_source_of(wprog)})
    return entries, agg


# ---- non-ASCII strings: implementation vs CPython only (the reference models strings as byte strings and is not consulted) --------
UNI_ALPHA = "aZ9 ,äöüéñçßøЖдяλπ世界€😀"


def unicode_cases(ctx, n):
    """One-line programs over non-ASCII text: len, indexing, slicing, upper/lower, find/rfind/count, split, in, comparison,
    join, startswith - all on CODE POINTS (starlark-rust stores UTF-8; Python stores code points)."""
    r = ctx.rng
    lit = lambda k: progs.q("".join(r.choice(UNI_ALPHA) for _ in range(k)))
    ix = lambda: str(r.choice([0, 1, 2, 3, -1, -2, -3, 5, 9, -9]))
    out = []
    for _ in range(n):
        s = lit(r.choice([0, 1, 2, 3, 5, 8, 13]))
        p = lit(r.choice([0, 1, 1, 1, 2]))
        k = r.randrange(12)
        if k == 0:
            e = "len(%s)" % s
        elif k == 1:
            e = "(%s + %s)[%s]" % (s, lit(1), r.choice(["0", "-1"]))
        elif k == 2:
            e = "%s[%s:%s%s]" % (s, r.choice(["", ix()]), r.choice(["", ix()]), r.choice(["", "", ":2", ":-1", ":-2", ":3"]))
        elif k == 3:
            e = "%s.%s()" % (s, r.choice(["upper", "lower"]))
        elif k == 4:
            # (an empty needle gets at most a start index: known findings corpus:str-find-*)
            e = "%s.%s(%s%s)" % (s, r.choice(["find", "rfind", "count"]), p,
                                 r.choice(["", ", " + ix()] + ([", %s, %s" % (ix(), ix())] if p != '""' else [])))
        elif k == 5:
            e = "%s.%s(%s)" % (s, r.choice(["split", "rsplit"]), r.choice(["", lit(1), lit(1) + ", 1", "None, 1"]))
        elif k == 6:
            e = "%s in %s" % (p, s)
        elif k == 7:
            e = "%s %s %s" % (s, r.choice(["<", "<=", "==", ">"]), lit(r.choice([0, 1, 2, 3])))
        elif k == 8:
            e = "%s.join([%s, %s])" % (p, s, lit(2))
        elif k == 9:
            e = "%s.%s(%s%s)" % (s, r.choice(["startswith", "endswith"]), p, r.choice(["", ", " + ix()]))
        elif k == 10:
            e = "%s.%s(%s)" % (s, r.choice(["strip", "lstrip", "rstrip"]), p)
        else:
            e = "(%s.replace(%s, %s), %s.partition(%s + \"x\"), [%s.elems()][0:0], %s * 2)" % (s, p, lit(1), s, p, s, s)
        out.append("emit(%s)\n" % e)
    return out


def compare_unicode(ctx, srcs):
    """-> (failures, stats)"""
    rc, log, impl = sv.run_harness_sharded(ctx, "eval", [{"src": x, "opts": {}} for x in srcs], timeout=600)
    py, plog = run_python(ctx, [x.replace(".elems()", "") for x in srcs])
    failures, agree = [], 0
    for i, src in enumerate(srcs):
        r = impl[i]
        if r is None or "panic" in (r or {}):
            failures.append({"key": "impl-crash", "what": "the evaluator crashed/panicked on %r: %s" % (src, r), "replay": {"usrc": src, "impl": r}})
            continue
        if py is None:
            continue
        st = r["steps"][0]
        if st["tr"] == py[i]["tr"] and ("ok" in st["out"]) == ("ok" in py[i]["out"]):
            agree += 1
        else:
            failures.append({"key": "unicode:" + re.sub(r"\"(?:[^\"\\]|\\.)*\"|-?\d+", "_", src.strip())[:60],
                             "what": "non-ASCII string program %r: implementation %s | CPython %s" % (src, (st["tr"], st["out"]), (py[i]["tr"], py[i]["out"])),
                             "replay": {"usrc": src, "impl": st, "python": py[i]}})
    return failures, {"programs": len(srcs), "agree_with_cpython": agree}


def corpus_entries():
    import importlib.util
    p = os.path.join(sv.ROOT, "corpus", "C01", "cases.py")
    if not os.path.exists(p):
        return []
    spec = importlib.util.spec_from_file_location("c01_corpus", p)
    m = importlib.util.module_from_spec(spec)
    spec.loader.exec_module(m)
    out = []
    for case in m.CASES:
        name, prog = case[0], case[1]
        opts = case[2] if len(case) > 2 else {}
        for variant, pr in (("module", prog), ("in-function", progs.wrap_in_function(prog))):
            src, n = progs.source_of(pr)
            out.append({"id": "corpus:" + name, "variant": variant, "src": src, "coq": progs.coq_block(n),
                        "pysrc": progs.python_source_of(pr), "nopy": bool(opts.get("nopy"))})
    return out


def correspond(ctx):
    n = ctx.n(250, 5000)
    entries, agg = gen_entries(ctx, n, max_stmts=ctx.rng.choice([14, 20, 26]), max_depth=4, p_fail=0.3)
    corpus = corpus_entries()
    entries = corpus + entries
    corpus = sorted({e["id"] for e in corpus})
    failures, st = compare(ctx, entries)
    ufail, ust = compare_unicode(ctx, unicode_cases(ctx, ctx.n(1500, 20000)))
    failures += ufail
    broken = []
    if st.get("slot_diffs"):
        d = st["slot_diffs"][0]
        sv.write_replay(ctx, "slot-machine-tie", {"property": PROP, "tie": "Scope/SlotSem.v run_resolved vs the real evaluator",
                                                   "first": d, "count": len(st["slot_diffs"])})
        broken.append(("slot-machine-tie", "the slot machine of Scope/SlotSem.v (premise of C01_slots_sim_partial) and the evaluator differ "
                       "on %d program(s), first %s (%s)" % (len(st["slot_diffs"]), d["id"], d["variant"])))
    ctx.log("slot machine vs implementation: checked=%d agree=%d unresolved=%d (agreeing with the implementation against the reference: %d)"
            % (st.get("slot_checked", 0), st.get("slot_agree", 0), st.get("slot_unresolved", 0), st.get("slot_agrees_with_impl_against_reference", 0)))
    soft = [f for f in failures if f.get("soft")]
    hard = [f for f in failures if not f.get("soft")]
    for f in soft[:5]:
        ctx.log("NOTE " + f["what"][:300])
    ctx.log("programs=%d agree=%d failing-outcomes=%d nofuel=%d ref-vs-python-diffs=%d kinds=%s"
            % (len(entries), st["agree"], st["fail_outcomes"], st["nofuel"], st["ref_vs_python_diffs"], st["kinds"]))
    cov = {
        "evaluations": len(entries),
        "distinct_nontrivial": len({e["src"] for e in entries if len(e["src"].splitlines()) >= 8}),
        "rule": "type-directed random programs over the shared subset (tools/gen/progs.py), each run at module level and wrapped in a "
                "function; non-trivial = at least 8 source lines; distinct by source text",
        "programs": len(entries),
        "disagreements_checked": len(hard),
        "traces_validated_against_impl": st["agree"],
        "transcript_items_compared": st["tr_len"],
        "failing_outcomes_compared": st["fail_outcomes"],
        "failure_kinds": st["kinds"],
        "reference_validated_against_cpython": st["py_checked"],
        "reference_vs_cpython_differences": st["ref_vs_python_diffs"],
        "out_of_fuel_skipped": st["nofuel"],
        "skipped_too_large_for_model": st.get("skipped_large", 0),
        "input_distribution": agg,
        "programs_with_string_operations": agg.get("programs_with_string_operations", 0) * 2,
        "string_operations_generated": agg.get("string_op", 0) + agg.get("planted_string_failure", 0),
        "string_operations_with_receiver_derived_arguments": agg.get("receiver_derived_argument", 0),
        "evaluation_order_statements": {"effect_blocks": agg.get("effect_block", 0), "traced_operands": agg.get("traced_operand", 0),
                                        "failures_with_observed_order": agg.get("planted_effect_failure", 0)},
        "starlark_only_repr_programs_not_sent_to_cpython": st.get("starlark_only_repr", 0),
        "non_ascii_stream": ust,
        "samples": [entries[0]["src"], entries[-1]["src"]],
        "corpus": corpus,
        "slot_machine_tie": {"programs_checked": st.get("slot_checked", 0), "agree_with_implementation": st.get("slot_agree", 0),
                             "unresolved_by_model_resolver": st.get("slot_unresolved", 0),
                             "agree_with_implementation_where_reference_differs": st.get("slot_agrees_with_impl_against_reference", 0)},
    }
    return {"coverage": cov, "failures": hard, "broken": broken}


def search(ctx, broken):
    entries, _ = gen_entries(ctx, 1500, max_stmts=26, max_depth=4, p_fail=0.3)
    failures, st = compare(ctx, entries)
    return {"failures": [f for f in failures if not f.get("soft")], "coverage": {"evaluations": len(entries)}}


def replay(ctx, rep):
    r = rep.get("replay", {})
    if "usrc" in r:
        failures, ust = compare_unicode(ctx, [r["usrc"]])
        return {"coverage": {"evaluations": 1, "distinct_nontrivial": 1, "samples": [r["usrc"]]}, "failures": failures}
    if "src" not in r or "coq" not in r:
        return {"coverage": {}, "failures": []}
    failures, st = compare(ctx, [{"id": "replay", "variant": "replay", "src": r["src"], "coq": r["coq"]}])
    return {"coverage": {"evaluations": 1, "distinct_nontrivial": 1, "samples": [r["src"]]}, "failures": failures}


META = {
    "category": "proof",
    "level_text": "Partial. The reference semantics MiniStar (coq/Core: syntax, values/store, fuelled big-step interpreter for the Python-shared "
                  "core incl. closures with cells, comprehensions, slices, list/dict methods, argument binding, iteration locks, and the "
                  "string layer: 30 string methods, % formatting, str.format with keyword arguments, repr/str of every value, ord/chr) "
                  "is a Gallina function; proved: split/join round trip, strip idempotence, find = first occurrence, replace laws, "
                  "partition, % and format laws for ALL strings, and fuel monotonicity of eval/call/exec and of whole programs (the outcome of a terminating program is well "
                  "defined) for ALL programs; the slice algorithm of values/index.rs equals the declarative walk; the algorithmic scope resolver of scope.rs "
                  "(scope stack, copy-parent captures, scoped comprehension variables) returns the binding the lexical rule gives for every "
                  "identifier use (Scope/Proofs.v); and SLOT SIMULATION (Scope/SlotSim.v, C01_slots_sim_partial): the slot-resolved program run on "
                  "a model of the evaluator's frame discipline (slot arrays, lazily allocated captured cells kept in the slot, closures carrying "
                  "the parent's cells, module slots) yields the same transcript and outcome as the reference for every program and fuel, provided no "
                  "closure captures a comprehension variable and the reference run does not fail with Unbound - both side conditions are shown "
                  "necessary by refutation theorems whose witnesses reproduce on the real evaluator (two known findings). The slot machine is itself "
                  "tied to the evaluator on every run (same transcript/outcome/failing line on every generated program, including the two witnesses "
                  "where it follows the evaluator against the reference). The property itself - the real parser+compiler+VM agree with the reference on every program - is "
                  "decided by correspondence: type-directed generated programs (with planted run-time failures) run at module level and "
                  "wrapped in a function on the real evaluator and by vm_compute on the reference; transcripts and outcome (failure kind + "
                  "innermost failing line) must be equal. CPython 3.11 validates the reference on every program.",
    "level_note": "Trusted: Coq kernel; coq/Core/Sem.v as the meaning of programs (validated against CPython); coq/Scope/SlotSem.v as the model of "
                  "the frame discipline (validated against the evaluator on every run); tools/gen/progs.py; harness bin eval. Not modelled: the real bytecode compiler/VM (tie only), floats; strings are byte strings (modelled "
                  "programs are ASCII; a separate non-ASCII stream compares implementation and CPython on code-point operations); "
                  "repr of values containing strings is compared implementation-vs-reference only (Starlark quotes differ from "
                  "Python's); programs too large for the Gallina interpreter are skipped and counted. Documented "
                  "Starlark/Python differences excluded from the subset: repeated literal dict keys, negative list.pop index, bool/int "
                  "mixing, string iteration, mutation during iteration, and the string differences listed in coq/Core/DIFFS.md.",
    "technique": "Coq reference interpreter + meta-theory; differential correspondence implementation vs vm_compute reference; CPython validates the reference",
    "design_ref": "DESIGN.md section 4 C01, section 3.2",
}
