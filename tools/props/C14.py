"""C14 Evaluation is deterministic across runs, processes and memory layouts.

Proof: coq/Determ/{Model,Proofs}.v + Properties/C14.v - the mechanisms through which a hash seed, an address or
an allocation history could become observable do not leak them (hash(str) = the specification series on both code
paths; iteration order of SmallMap-backed containers is seed/threshold independent; dir() is independent of the
enumeration order of its sources; the did-you-mean suggestion is the first closest candidate of the ORDERED list;
observations of MiniStar values are invariant under store-address renamings; the reference semantics is a function).

Tie: cross-process differential.  The `determ` harness binary evaluates ONE program under ONE configuration and
prints everything an embedder can observe (transcript, results, str/repr/dir/json of every module variable in
names() order, full error texts with suggestions and call stacks, the static type checker's diagnostics / type map,
the linter's output in order).  Every program is run in several independent PROCESSES (own RandomState keys) under
varied configurations: ASLR on/off, environment size, allocation noise, unrelated heaps/modules created first,
unrelated modules evaluated first, main vs spawned thread, forced moving collections.  All outputs must be
byte-identical.  hash() values and attribute suggestions are additionally compared with the Coq model."""
import concurrent.futures
import json
import os
import re
import shutil
import subprocess

import sv
from gen import progs

PROP = "C14"
HARNESS_BINS = ["determ"]
COQ_TARGETS = ["Properties/C14.vo", "Determ/Cases.vo"]
TRUSTED = ["harness bin determ (what it prints is taken as 'everything observable'); Python driver (process launching, byte comparison)",
           "setarch -R (ASLR off) when available; the kernel's ASLR and Rust's per-process RandomState keys as the sources of layout/seed variation",
           "tools/gen/progs.py (program generator, shared with C01)",
           "strsim::levenshtein modelled by Determ/Model.v levenshtein (checked on the suggestion cases of every run)"]
ASSUMPTIONS = ["determinism of the real evaluator, type checker and linter is established by cross-process differential runs, not by proof; "
               "a layout-dependent behaviour that needs a layout none of the configurations produces is not exhibited",
               "the Coq theorems cover the modelled mechanisms only (hash(), SmallMap order, dir(), did-you-mean, MiniStar observations)",
               "identifiers in the did-you-mean model are ASCII (len in bytes = chars)"]

SETARCH = shutil.which("setarch")
NPAR = 16

PRE = ["x = [i * i for i in range(50)]\ndef f(a):\n    return {str(a): a}\ny = [f(i) for i in x]\n",
       "s = struct(a = 1, b = 'two', c = [3])\nr = record(p = int, q = str)\nv = r(p = 1, q = 'x')\nd = dir(s) + dir(v)\n",
       "def fib(n):\n    return n if n < 2 else fib(n - 1) + fib(n - 2)\nz = [fib(i) for i in range(12)]\nprint(z)\n",
       "e = enum('a', 'b', 'c')\nq = {k: hash(k) for k in ['a', 'bb', 'ccc']}\nw = json.encode(q)\n"]


# ---------------------------------------------------------------------------------------------------------------
# configurations

def make_cfgs(rng, n):
    """n process configurations; the first is the plain one."""
    cfgs = [{"cfg": {}, "aslr_off": False, "env_pad": 0}]
    for i in range(1, n):
        c = {}
        if rng.random() < 0.7:
            c["alloc_noise"] = [rng.getrandbits(32), rng.choice([10, 60, 200])]
        if rng.random() < 0.5:
            c["heap_noise"] = rng.choice([1, 2, 4])
        if rng.random() < 0.5:
            c["thread"] = True
            c["stack_kb"] = rng.choice([8192, 16384, 65536])
        if rng.random() < 0.5:
            c["pre"] = rng.sample(PRE, rng.randint(1, len(PRE)))
        if rng.random() < 0.4:
            c["gc_every"] = rng.choice([2, 3, 7, 17])
        cfgs.append({"cfg": c, "aslr_off": bool(SETARCH) and rng.random() < 0.4, "env_pad": rng.choice([0, 0, 37, 1000, 7001])})
    # make sure each dimension occurs at least once when there is room
    if n >= 4:
        cfgs[1]["cfg"].setdefault("thread", True)
        cfgs[2]["cfg"].setdefault("alloc_noise", [7, 120])
        cfgs[2]["cfg"].setdefault("heap_noise", 2)
        cfgs[3]["cfg"].setdefault("pre", PRE[:2])
        cfgs[3]["aslr_off"] = bool(SETARCH)
        cfgs[1]["cfg"].setdefault("gc_every", 3)
    return cfgs


def case_of(prog, conf):
    case = {"src": prog["src"], "then": prog.get("then", []), "cfg": dict(conf["cfg"])}
    if prog.get("static_tc"):
        case["cfg"]["static_tc"] = True
    return case


_SEQ = [0]


def run_proc(binp, batch, conf, run_dir, timeout=180):
    """one PROCESS evaluating the programs of `batch` (in this order) under `conf`; returns (rc, [output bytes per program], stderr tail)."""
    _SEQ[0] += 1
    cpath = os.path.join(run_dir, "b%d.jsonl" % _SEQ[0])
    opath = os.path.join(run_dir, "b%d.out" % _SEQ[0])
    with open(cpath, "w") as f:
        for p in batch:
            f.write(json.dumps(case_of(p, conf)) + "\n")
    cmd = [binp, cpath, opath]
    if conf.get("aslr_off") and SETARCH:
        cmd = [SETARCH, os.uname().machine, "-R"] + cmd
    env = dict(sv.ENV)
    if conf.get("env_pad"):
        env["SV_PAD"] = "x" * conf["env_pad"]
    try:
        p = subprocess.run(["timeout", str(timeout)] + cmd, stdout=subprocess.PIPE, stderr=subprocess.PIPE, env=env, timeout=timeout + 20)
        rc, err = p.returncode, p.stderr[-300:].decode("utf-8", "replace")
    except subprocess.TimeoutExpired:
        rc, err = 124, "timeout"
    outs = []
    if os.path.exists(opath):
        outs = [l for l in open(opath, "rb").read().split(b"\n") if l.strip()]
    for q in (cpath, opath):
        try:
            os.remove(q)
        except OSError:
            pass
    while len(outs) < len(batch):
        outs.append(b"")
    return rc, outs, err


def run_all(ctx, jobs):
    """jobs: list of (batch of programs, conf) -> list of (rc, [stdout bytes per program], stderr tail)."""
    binp = sv.harness_bin("determ")
    d = os.path.join(ctx.run_dir, "determ")
    os.makedirs(d, exist_ok=True)
    with concurrent.futures.ThreadPoolExecutor(max_workers=NPAR) as ex:
        res = list(ex.map(lambda j: run_proc(binp, j[0], j[1], d), jobs))
    # a process that ran out of TIME (rc 124) on a loaded machine is run again, alone among the late ones and with five times the
    # limit: only a batch that still does not finish counts as a hang (a time-out is not a crash)
    late = [k for k, r in enumerate(res) if r[0] == 124]
    if late:
        ctx.log("%d process(es) timed out; re-running them with a longer limit" % len(late))
        with concurrent.futures.ThreadPoolExecutor(max_workers=max(1, NPAR // 4)) as ex:
            for k, r in zip(late, ex.map(lambda k: run_proc(binp, jobs[k][0], jobs[k][1], d, timeout=900), late)):
                res[k] = r
    return res


# ---------------------------------------------------------------------------------------------------------------
# programs

WORDS = ["alpha", "beta", "gamma", "delta", "omega", "kappa", "sigma", "theta", "zeta", "eta", "iota", "lambda_", "mu", "nu", "xi",
         "rho", "tau", "phi", "chi", "psi", "count", "counts", "counter", "value", "values", "valve", "item", "items", "index", "name",
         "names", "named", "size", "sized", "total", "totals", "result", "results", "config", "configs", "data", "datum"]
NONASCII = ["é", "ß", "Ω", "ж", "中", "文", "😀", "𝔘", "ñ", "ü", "€", "日本", "naïve", "Ünï", "a😀b", "\u00e9\u4e2d\U0001f600"]


# keywords and reserved words of the dialect: a variant that is one of them (lambda_ -> lambda) would make the whole
# module fail to parse, so that no attribute error - and no suggestion - is ever produced
RESERVED = {"and", "else", "load", "break", "for", "not", "continue", "if", "or", "def", "in", "pass", "elif", "lambda", "return",
            "as", "import", "assert", "is", "class", "nonlocal", "del", "raise", "except", "try", "finally", "while", "from", "with",
            "global", "yield"}


def ident_variants(rng, w):
    """names at edit distance 1-2 of w (several equally close candidates)."""
    out = set()
    letters = "abcdefghijklmnopqrstuvwxyz_"
    for _ in range(6):
        k = rng.choice(["sub", "ins", "del", "swap"])
        i = rng.randrange(len(w))
        if k == "sub":
            v = w[:i] + rng.choice(letters) + w[i + 1:]
        elif k == "ins":
            v = w[:i] + rng.choice(letters) + w[i:]
        elif k == "del" and len(w) > 2:
            v = w[:i] + w[i + 1:]
        else:
            j = min(i + 1, len(w) - 1)
            l = list(w)
            l[i], l[j] = l[j], l[i]
            v = "".join(l)
        if v != w and re.fullmatch(r"[a-z_][a-z_0-9]*", v) and v not in RESERVED:
            out.add(v)
    return sorted(out)


def t_containers(rng):
    n = rng.choice([3, 5, 9, 17, 18, 33, 40])
    keys = []
    for i in range(n):
        k = rng.choice(["s", "s", "i", "t", "n"])
        if k == "s":
            keys.append(json.dumps(rng.choice(WORDS) + str(rng.randint(0, 99))))
        elif k == "i":
            keys.append(str(rng.randint(-50, 10 ** 12)))
        elif k == "t":
            keys.append("(%d, %s)" % (rng.randint(0, 9), json.dumps(rng.choice(WORDS))))
        else:
            keys.append(json.dumps(rng.choice(NONASCII) + str(i)))
    L = ["d = {}", "st = set()"]
    for i, k in enumerate(keys):
        L.append("d[%s] = %d" % (k, i))
        L.append("st.add(%s)" % k)
    for _ in range(rng.randint(0, 4)):
        k = rng.choice(keys)
        L.append(rng.choice(["d.pop(%s, None)" % k, "d[%s] = 'again'" % k, "st.discard(%s)" % k, "d.setdefault(%s, [])" % k]))
    fields = rng.sample(WORDS, rng.randint(3, 12))
    L.append("s = struct(%s)" % ", ".join("%s = %d" % (f, i) for i, f in enumerate(fields)))
    L.append("rt = record(%s)" % ", ".join("%s = int" % f for f in fields[:4]))
    L.append("rv = rt(%s)" % ", ".join("%s = %d" % (f, i) for i, f in enumerate(fields[:4])))
    L.append("ns = namespace(%s)" % ", ".join("%s = %d" % (f, i) for i, f in enumerate(fields[:5])))
    L += ["emit(list(d.keys()))", "emit(list(d.items()))", "emit(list(st))", "emit(dir(s))", "emit(dir(rv))", "emit(dir(d))", "emit(dir(ns))",
          "emit(str(s))", "emit(repr(rv))", "emit(json.encode(d) if all([type(k) == 'string' for k in d]) else 'nokeys')",
          "emit(json.encode(s))", "emit(json.encode([list(st)]) if all([type(k) != 'tuple' for k in st]) else 'tuples')",
          "emit({k: hash(k) for k in d if type(k) == 'string'})", "emit(sorted([str(k) for k in st]))",
          "emit([k for k in d] == list(d.keys()))", "emit(str(d))", "emit(repr(st))",
          "u = st | set([1, 2, 3])", "emit(list(u))", "emit(list(st & set(list(d.keys())[:3])))",
          "d2 = dict(d)", "d2.update({'zz': 1, 'aa': 2})", "emit(list(d2))", "emit(struct(**{k: v for k, v in d.items() if type(k) == 'string' and k.isalnum()}))"]
    return {"src": "\n".join(L) + "\n", "kind": "containers"}


def t_values(rng):
    L = ["def plain(a, b = 1, *args, **kwargs):", "    return a",
         "def annotated(x: int, y: str = 'q') -> list[int]:", "    return [x]",
         "lam = lambda x, y = 2: x",
         "def outer():", "    def inner(z):", "        return z", "    return inner",
         "inn = outer()", "part = partial(plain, 1, b = 2)", "E = enum('red', 'green', 'blue')", "R = record(host = str, port = field(int, 80))",
         "r0 = R(host = 'h')", "S = struct(f = plain, g = lam, n = None, t = (1, 'a'), r = range(3))",
         "bm = [].append", "bm2 = 'abc'.upper", "bm3 = {}.get", "ty = [int, str, list[int], dict[str, int], int | None, typing.Any, typing.Callable]",
         "vals = [plain, annotated, lam, inn, part, E, E('red'), R, r0, S, bm, bm2, bm3, len, print, hash, struct, record, enum, json.encode,"
         " range(1, 9, 2), True, None, 1 << 70, -0.0, 1e100, 'q\\n\\t\"', (1,), [], {}, set(), ty, E.values(), type(plain), type(E), type(R)]",
         "for v in vals:", "    emit(str(v))", "    emit(repr(v))", "    emit(type(v))", "    emit(dir(v))",
         "emit('%s %r' % (plain, lam))", "emit('{} {}'.format(part, bm))", "emit(str(vals))",
         "emit({plain: 1, lam: 2, len: 3, E('red'): 4}.keys())", "emit(hash('plain'))",
         "emit([str(x) for x in [call_stack(), call_stack(strip_frame_count = 0)]] if False else 'cs')",
         "print(plain, lam, inn, part, E, R, r0, S, bm, bm2, len)"]
    return {"src": "\n".join(L) + "\n", "kind": "values"}


def t_suggest(rng):
    base = rng.sample(WORDS, 6)
    L = []
    modvars = []
    for w in base[:3]:
        vs = ident_variants(rng, w)[:3]
        for v in [w] + vs:
            if v not in modvars:
                modvars.append(v)
    rng.shuffle(modvars)
    for i, v in enumerate(modvars):
        L.append("%s = %d" % (v, i))
    locs = []
    for w in base[3:5]:
        for v in [w] + ident_variants(rng, w)[:2]:
            if v not in locs and v not in modvars:
                locs.append(v)
    rng.shuffle(locs)
    fields = []
    for w in base[4:6]:
        for v in [w] + ident_variants(rng, w)[:3]:
            if v not in fields:
                fields.append(v)
    rng.shuffle(fields)
    L.append("s = struct(%s)" % ", ".join("%s = %d" % (f, i) for i, f in enumerate(fields)))
    L.append("def fn(%s):" % ", ".join(locs[:2]))
    for v in locs[2:]:
        L.append("    %s = 0" % v)
    L.append("    def nested(%s):" % (base[5] + "_p"))
    L.append("        return [%s for %s in range(2)]" % (locs[0], base[5] + "_c"))
    L.append("    return nested")
    then = []
    typos = []
    for w in base[:3] + rng.sample(modvars, min(3, len(modvars))):
        for t in ident_variants(rng, w)[:2]:
            if t not in modvars and t not in typos:
                typos.append(t)
    for t in typos[:6]:
        then.append("emit(%s)\n" % t)
    attr_typos = []
    for w in rng.sample(fields, min(4, len(fields))):
        for t in ident_variants(rng, w)[:2]:
            if t not in fields and t not in attr_typos:
                attr_typos.append(t)
    for t in attr_typos[:6]:
        then.append("emit(s.%s)\n" % t)
    # a typo inside nested scopes (candidates: comprehension, nested def, def, module, globals)
    for w in locs[:2]:
        ts = [t for t in ident_variants(rng, w) if t not in locs and t not in modvars]
        if ts:
            then.append("def g(%s):\n    %s = 1\n    def h(%s):\n        return [%s for qq in range(2)]\n    return h\n"
                        % (", ".join(locs[:2]), locs[-1], base[4] + "_h", ts[0]))
    for w in ["print", "len", "range", "struct", "sorted", "enumerate"]:
        ts = ident_variants(rng, w)
        if ts:
            then.append("%s(1)\n" % ts[0])
    then += ["[].apend(1)\n", "{}.get_(1)\n", "'x'.uper()\n", "[].extent([1])\n", "json.encod(1)\n", "s.%s.bit_lenght()\n" % fields[0]]
    return {"src": "\n".join(L) + "\n", "then": then, "kind": "suggest",
            "dym": {"fields": fields, "attr_typos": attr_typos[:6]}}


def t_stack(rng):
    depth = rng.randint(3, 25)
    L = []
    for i in range(depth):
        L.append("def f%d(x):" % i)
        if i == depth - 1:
            L.append("    " + rng.choice(["return x.nope", "fail('boom', x)", "return 1 // (x - x)", "return [1][x + 5]",
                                          "return {}['k%d' % x]", "return x + 'a'", "return f0(x, x)", "return undefined_name_q"]))
        else:
            L.append("    " + rng.choice(["return f%d(x)" % (i + 1), "return [f%d(y) for y in [x]][0]" % (i + 1),
                                          "return (lambda q: f%d(q))(x)" % (i + 1), "return sorted([x], key = f%d)[0]" % (i + 1),
                                          "return map(f%d, [x])" % (i + 1) if False else "return f%d(x = x)" % (i + 1)]))
    L.append("def typed(a: int, b: list[str]) -> str:")
    L.append("    return a")
    then = ["f0(1)\n", "typed(1, ['a'])\n", "typed('x', [])\n", "typed(1, [2])\n", "f0()\n", "f0(1, 2)\n", "f0(y = 1)\n",
            "def rec(n):\n    return rec(n + 1)\nrec(0)\n"]
    return {"src": "\n".join(L) + "\n", "then": then, "kind": "stack"}


def t_static(rng):
    """programs for the static type checker and the linter: many diagnostics whose order matters."""
    names = rng.sample(WORDS, 10)
    L = ["load('lib.bzl', %s)" % ", ".join("'%s_l'" % n for n in names[:3])] if rng.random() < 0.3 else []
    nf = rng.randint(2, 6)
    for i in range(nf):
        a, b, c = names[i % 10], names[(i + 1) % 10], names[(i + 2) % 10]
        L.append("def fun%d(%s: int, %s: str, %s = None) -> %s:" % (i, a, b, c, rng.choice(["int", "str", "list[int]", "None", "bool"])))
        body = rng.sample([
            "    unused_%d = %s + 1" % (i, a),
            "    w = %s + %s" % (a, b),
            "    q = %s.no_such_attr" % b,
            "    z = %s.upper() + 1" % b,
            "    k = {'a': 1, 'b': 2, 'a': 3, 'b': 4}",
            "    for i_%d in range(3):\n        pass" % i,
            "    t = [x for x in %s]" % a,
            "    fun0(%s, %s, 1, 2)" % (b, a),
            "    v = len(%s)" % a,
            "    if %s:\n        maybe = 1\n    use = maybe" % c,
            "    _ign = 1\n    y = _ign",
            "    %s" % a,
            "    u = undefined_%d" % i,
            "    m = {1: 'x', 1: 'y', 2.0: 'z', 2.0: 'w'}",
            "    return %s" % b,
            "    x1 = any([e for e in [%s]])" % a,
        ], rng.randint(3, 8))
        L += body
        if rng.random() < 0.5:
            L.append("    return %s" % rng.choice([a, b, "None", "[%s]" % a, "'s'"]))
    L.append("top_unused = fun0(1, 'a')")
    L.append("dup = {'k': 1, 'k': 2, 'j': 3, 'j': 4}")
    L.append("def _private():\n    def _inner_bad():\n        pass\n    return 1")
    L.append("x_after = later_defined\nlater_defined = 1" if rng.random() < 0.5 else "ok = 1")
    return {"src": "\n".join(L) + "\n", "kind": "static", "static_tc": rng.random() < 0.5}


def t_hash(rng):
    strs = ["", "a", "abc", "hello world", "The quick brown fox", "\x7f", "a" * 100] + NONASCII
    for _ in range(12):
        n = rng.randint(1, 12)
        strs.append("".join(rng.choice("abcXYZ019 _-" + "éΩ中😀") for _ in range(n)))
    L = ["emit(hash(%s))" % json.dumps(s, ensure_ascii=False) for s in strs]
    return {"src": "\n".join(L) + "\n", "kind": "hash", "hash_strs": strs}


TEMPLATES = [t_containers, t_values, t_suggest, t_stack, t_static, t_hash]


def gen_programs(ctx, n_gen, n_tmpl):
    rng = ctx.rng
    out = []
    for i in range(n_gen):
        g = progs.generate(rng.getrandbits(48), max_stmts=rng.choice([10, 18, 26]), max_depth=4, p_fail=0.4)
        out.append({"src": g["src"], "kind": "gen", "id": "gen:s%d" % g["seed"]})
    for i in range(n_tmpl):
        t = TEMPLATES[i % len(TEMPLATES)]
        p = t(rng)
        p["id"] = "%s:%d" % (p["kind"], i)
        out.append(p)
    return out


def corpus_programs():
    d = os.path.join(sv.ROOT, "corpus", "C14")
    out = []
    if os.path.isdir(d):
        for f in sorted(os.listdir(d)):
            if f.endswith(".json"):
                p = json.load(open(os.path.join(d, f)))
                p.setdefault("kind", "corpus")
                p["id"] = "corpus:" + f
                out.append(p)
    return out


# ---------------------------------------------------------------------------------------------------------------
# comparison

def first_diff(a, b, path=""):
    if type(a) != type(b):
        return path, a, b
    if isinstance(a, dict):
        for k in sorted(set(a) | set(b)):
            if a.get(k) != b.get(k):
                return first_diff(a.get(k), b.get(k), path + "." + k)
    elif isinstance(a, list):
        if len(a) != len(b):
            return path + "[len]", a, b
        for i, (x, y) in enumerate(zip(a, b)):
            if x != y:
                return first_diff(x, y, path + "[]")
    return path, a, b


def classify(o1, o2):
    """narrow key for a difference between two observations of the same program."""
    try:
        a, b = json.loads(o1), json.loads(o2)
    except Exception:  # noqa: BLE001
        return "nondet:unparsable-output", "", None, None
    if "panic" in a or "panic" in b:
        return "nondet:panic", "", a, b
    path, x, y = first_diff(a, b)
    p = re.sub(r"^\.", "", path)

    def order_only(u, v):
        try:
            return sorted(json.dumps(e, sort_keys=True) for e in u) == sorted(json.dumps(e, sort_keys=True) for e in v)
        except Exception:  # noqa: BLE001
            return False
    key = "nondet:" + p
    if p.startswith("steps[].tr"):
        key = "nondet:transcript"
        for s1, s2 in zip(a["steps"], b["steps"]):
            if s1["tr"] != s2["tr"]:
                if order_only(s1["tr"], s2["tr"]):
                    key += ":order"
                else:
                    d = [(u, v) for u, v in zip(s1["tr"], s2["tr"]) if u != v]
                    if d and sorted(d[0][0]) == sorted(d[0][1]):
                        key += ":element-order"
                    elif d and re.search(r"0x[0-9a-f]{6,}", d[0][0] + d[0][1]):
                        key += ":address"
                break
    elif p.startswith("steps[].out.err"):
        key = "nondet:error-text"
        s = str(x) + str(y)
        if "did you mean" in s:
            key += ":suggestion"
        elif "Traceback" in s and str(x).split("error:")[-1] == str(y).split("error:")[-1]:
            key += ":call-stack"
    elif p.startswith("steps[].out"):
        key = "nondet:result"
    elif p.startswith("post"):
        f = p.split(".")[-1] if "." in p else p
        for va, vb in zip(a.get("post", []), b.get("post", [])):
            if va != vb and isinstance(va, dict) and isinstance(vb, dict):
                for fld in ("type", "repr", "str", "dir", "json", "enc"):
                    if va.get(fld) != vb.get(fld):
                        f, x, y = fld, va.get(fld), vb.get(fld)
                        break
                break
        key = "nondet:value-" + re.sub(r"\[.*", "", f)
        if re.search(r"0x[0-9a-f]{6,}", str(x) + str(y)):
            key += ":address"
        elif isinstance(x, str) and sorted(x) == sorted(y):
            key += ":order"
        elif isinstance(x, list) and order_only(x, y):
            key += ":order"
    elif p.startswith("names"):
        key = "nondet:module-names" + (":order" if order_only(a["names"], b["names"]) else "")
    elif p.startswith("tc"):
        sub = p.split(".")[1] if "." in p else ""
        sub = re.sub(r"\[.*", "", sub)
        key = "nondet:typecheck-" + (sub or "output")
        for t1, t2 in zip(a["tc"], b["tc"]):
            if t1 != t2 and sub in t1 and isinstance(t1[sub], list) and order_only(t1[sub], t2.get(sub, [])):
                key += ":order"
                break
    elif p.startswith("lint"):
        key = "nondet:lint"
        for t1, t2 in zip(a["lint"], b["lint"]):
            if t1 != t2:
                ks = [k for k in t1 if t1[k] != t2.get(k)]
                if ks and isinstance(t1[ks[0]], list) and order_only(t1[ks[0]], t2[ks[0]]):
                    key += ":order"
                break
    return key, "first difference at %s: %s | %s" % (p, json.dumps(x, ensure_ascii=False)[:240], json.dumps(y, ensure_ascii=False)[:240]), a, b


def nontrivial(prog, obs):
    """a dict/set with >= 3 entries printed, dir(), an error with a suggestion, or >= 2 diagnostics."""
    why = []
    if "dir(" in prog["src"]:
        why.append("dir")
    for st in obs.get("steps", []):
        for t in st["tr"]:
            if (t.startswith("{") and t.count(":") >= 3) or (t.startswith("<set:") and t.count(",") >= 2):
                why.append("container>=3")
                break
        e = st["out"].get("err")
        if e and "did you mean" in e.get("msg", ""):
            why.append("suggestion")
    for v in obs.get("post", []):
        if (v.get("type") == "dict" and v.get("enc", "").count(":") >= 3) or (v.get("type") == "set" and v.get("enc", "").count(",") >= 2):
            why.append("container>=3")
    nd = sum(len(t.get("errors", [])) for t in obs.get("tc", [])) + sum(len(l.get("globals", [])) for l in obs.get("lint", []))
    if nd >= 2:
        why.append("diagnostics>=2")
    return sorted(set(why))


def compare_programs(ctx, programs, nproc, minimise=True, batch=1):
    """every program is evaluated in `nproc` different processes: once alone in a process with the plain configuration,
    and nproc-1 times inside a process that evaluates a (shuffled) batch of `batch` programs under a random configuration -
    the programs evaluated before it in the same process are one more perturbation of the allocation history."""
    rng = ctx.rng
    jobs = []
    for i, p in enumerate(programs):
        jobs.append(([i], make_cfgs(rng, 1)[0]))
    for j in range(1, nproc):
        idx = list(range(len(programs)))
        rng.shuffle(idx)
        for k in range(0, len(idx), batch):
            confs = make_cfgs(rng, 4)
            jobs.append((idx[k:k + batch], confs[1 + (j + k) % 3]))
    res = run_all(ctx, [([programs[i] for i in ids], conf) for ids, conf in jobs])
    by = {}
    for (rc, outs, err), (ids, conf) in zip(res, jobs):
        for i, o in zip(ids, outs):
            by.setdefault(i, []).append((rc if not o.strip() else 0, o, err, conf))
    failures = []
    minimised = set()
    st = {"procs": len(jobs), "evals": len(programs) * nproc, "nontrivial": set(), "why": {}, "kinds": {}, "errors_seen": 0, "suggestions_seen": 0, "diagnostics_seen": 0,
          "configs": {"thread": 0, "alloc_noise": 0, "heap_noise": 0, "pre": 0, "gc_every": 0, "aslr_off": 0, "env_pad": 0}, "obs": {}}
    for _, conf in jobs:
        for k in ("thread", "alloc_noise", "heap_noise", "pre", "gc_every"):
            if conf["cfg"].get(k):
                st["configs"][k] += 1
        for k in ("aslr_off", "env_pad"):
            if conf.get(k):
                st["configs"][k] += 1
    for i, p in enumerate(programs):
        runs = by[i]
        st["kinds"][p["kind"]] = st["kinds"].get(p["kind"], 0) + 1
        bad = [r for r in runs if r[0] != 0 or not r[1].strip()]
        if bad:
            failures.append({"key": "impl-crash", "what": "determ exited with %s on program %s under %s: %s" % (bad[0][0], p["id"], bad[0][3], bad[0][2]),
                             "replay": {"program": p, "conf": bad[0][3], "rc": bad[0][0]}})
            continue
        ref = runs[0][1]
        try:
            obs = json.loads(ref)
        except Exception:  # noqa: BLE001
            obs = {}
        st["obs"][i] = obs
        if "panic" in obs:
            failures.append({"key": "impl-panic", "what": "the evaluator panicked on %s: %s" % (p["id"], obs), "replay": {"program": p}})
            continue
        why = nontrivial(p, obs)
        if why:
            st["nontrivial"].add(p["src"] + "".join(p.get("then", [])))
            for w in why:
                st["why"][w] = st["why"].get(w, 0) + 1
        for s in obs.get("steps", []):
            e = s["out"].get("err")
            if e:
                st["errors_seen"] += 1
                if "did you mean" in e.get("msg", ""):
                    st["suggestions_seen"] += 1
        st["diagnostics_seen"] += sum(len(t.get("errors", [])) for t in obs.get("tc", [])) + sum(len(l.get("globals", [])) for l in obs.get("lint", []))
        diff = [r for r in runs[1:] if r[1] != ref]
        if diff:
            key, what, a, b = classify(ref, diff[0][1])
            q = p
            if minimise and key not in minimised and len(minimised) < 3:
                # one minimisation per kind of difference (each candidate costs 20 processes)
                minimised.add(key)
                q = minimise_program(ctx, p, budget=ctx.n(10, 40))
            failures.append({"key": key,
                             "what": "program %s: output differs between processes (%d of %d runs differ from the plain run); %s"
                                     % (p["id"], len(diff), len(runs), what),
                             "replay": {"program": {k: v for k, v in q.items() if k in ("src", "then", "static_tc", "kind", "id")},
                                        "original": p["src"] if q is not p else None,
                                        "conf_a": runs[0][3], "conf_b": diff[0][3],
                                        "transcript_a": ref.decode("utf-8", "replace")[:6000], "transcript_b": diff[0][1].decode("utf-8", "replace")[:6000]}})
    return failures, st


def varies(ctx, p, nproc=20):
    """does the output of p vary over nproc processes?"""
    res = run_all(ctx, [([p], c) for c in make_cfgs(ctx.rng, nproc)])
    outs = {r[1][0] for r in res if r[1][0].strip()}
    return len(outs) > 1


def blocks_of(src):
    """top-level statements (a line starting in column 0 starts a block)."""
    bl = []
    for line in src.splitlines():
        if line and not line[0].isspace() and not line.startswith(")") or not bl:
            bl.append([line])
        else:
            bl[-1].append(line)
    return bl


def minimise_program(ctx, p, budget=30):
    """bisect the statements: drop `then` sources, then top-level blocks, keeping the variation (20 processes each)."""
    cur = dict(p)
    steps = 0
    then = list(cur.get("then", []))
    # 1. then-sources
    i = 0
    while i < len(then) and steps < budget:
        cand = dict(cur, then=then[:i] + then[i + 1:])
        steps += 1
        if varies(ctx, cand):
            then = cand["then"]
            cur = cand
        else:
            i += 1
    # 2. blocks of the main source, by halves then singly
    bl = blocks_of(cur["src"])
    chunk = max(1, len(bl) // 2)
    while chunk >= 1 and steps < budget:
        i = 0
        changed = False
        while i < len(bl) and steps < budget:
            cand_bl = bl[:i] + bl[i + chunk:]
            cand = dict(cur, src="\n".join("\n".join(b) for b in cand_bl) + "\n")
            steps += 1
            if cand_bl and varies(ctx, cand):
                bl, cur, changed = cand_bl, cand, True
            else:
                i += chunk
        if chunk == 1 and not changed:
            break
        chunk = max(1, chunk // 2) if chunk > 1 else (1 if changed else 0)
    cur["id"] = p["id"] + ":minimised"
    return cur


# ---------------------------------------------------------------------------------------------------------------
# model tie: hash() and attribute suggestions against Determ/Cases.v

def java_hash_py(s):
    h = 0
    b = s.encode("utf-16-be", "surrogatepass")
    for i in range(0, len(b), 2):
        h = (31 * h + ((b[i] << 8) | b[i + 1])) & 0xffffffff
    return h - (1 << 32) if h >= 1 << 31 else h


def model_tie(ctx, programs, obs_by_index):
    failures, hash_rows, dym_rows = [], [], []
    for i, p in enumerate(programs):
        o = obs_by_index.get(i)
        if not o:
            continue
        if p["kind"] == "hash":
            tr = o["steps"][0]["tr"]
            for s, t in zip(p["hash_strs"], tr):
                got = int(t[1:])
                if got != java_hash_py(s):
                    failures.append({"key": "hash:differs-from-spec", "what": "hash(%r) = %d, specification (Java string hash) %d" % (s, got, java_hash_py(s)),
                                     "replay": {"string": s, "impl": got, "spec": java_hash_py(s)}})
                hash_rows.append((s, got))
        if p["kind"] == "suggest":
            fields = sorted(p["dym"]["fields"])
            k = 0
            for src, stp in zip(p.get("then", []), o["steps"][1:]):
                m = re.fullmatch(r"emit\(s\.([a-z_0-9]+)\)\n", src)
                if not m:
                    continue
                msg = (stp["out"].get("err") or {}).get("msg", "")
                sm = re.search(r"did you mean `([^`]*)`", msg)
                dym_rows.append((m.group(1), fields, sm.group(1) if sm else None, p["id"]))
    text = ("From Coq Require Import ZArith NArith List String.\nFrom SV Require Import Determ.Model Determ.Cases.\n"
            "Import ListNotations.\nOpen Scope string_scope.\nOpen Scope Z_scope.\n")
    hash_rows = hash_rows[:80]
    dym_rows = dym_rows[:60]
    if hash_rows:
        text += "Eval vm_compute in (bad_hash [\n%s]).\n" % ";\n".join(
            "([%s], %s)" % ("; ".join(str(ord(c)) for c in s), sv.zlit(h)) for s, h in hash_rows)
    else:
        text += "Eval vm_compute in (bad_hash []).\n"
    if dym_rows:
        text += "Eval vm_compute in (bad_dym [\n%s]).\n" % ";\n".join(
            "(%s, [%s], %s)" % (sv.coq_str(v), "; ".join(sv.coq_str(f) for f in fs), ("Some " + sv.coq_str(e)) if e else "None")
            for v, fs, e, _ in dym_rows)
    else:
        text += "Eval vm_compute in (bad_dym []).\n"
    (rc, out), = sv.coq_eval_files(ctx, [("c14_model", text)], timeout=400)
    vals = sv.coq_values(out) if rc == 0 else None
    broken = []
    if vals is None or len(vals) != 2:
        broken.append(("model-tie", "coqc failed on the hash/suggestion cases: " + out[-300:]))
        return failures, broken, 0
    bh, bd = vals
    for idx in (bh if isinstance(bh, list) else []):
        s, h = hash_rows[idx]
        failures.append({"key": "hash:model-differs", "what": "hash(%r): implementation %d, Coq model differs (specification %d)" % (s, h, java_hash_py(s)),
                         "replay": {"string": s, "impl": h, "spec": java_hash_py(s)}})
    for idx in (bd if isinstance(bd, list) else []):
        v, fs, e, pid = dym_rows[idx]
        failures.append({"key": "suggestion:model-differs",
                         "what": "attribute `%s` over candidates %s: implementation suggests %s, the Coq model (first closest candidate of the "
                                 "sorted list) differs" % (v, fs, e), "replay": {"value": v, "candidates": fs, "impl": e, "program": pid}})
    return failures, broken, len(hash_rows) + len(dym_rows)


# ---------------------------------------------------------------------------------------------------------------

def correspond(ctx):
    nproc = ctx.n(5, 10)
    programs = corpus_programs() + gen_programs(ctx, ctx.n(30, 2500), ctx.n(42, 2500))
    ctx.log("programs=%d x %d processes (setarch=%s)" % (len(programs), nproc, bool(SETARCH)))
    failures, st = compare_programs(ctx, programs, nproc, batch=ctx.n(3, 4))
    ctx.log("evaluations=%d processes=%d nontrivial=%d errors=%d suggestions=%d diagnostics=%d differences=%d"
            % (st["evals"], st["procs"], len(st["nontrivial"]), st["errors_seen"], st["suggestions_seen"], st["diagnostics_seen"], len(failures)))
    f2, broken, nmodel = model_tie(ctx, programs, st["obs"])
    failures += f2
    samples = [p["src"][:600] for p in programs[:1] + programs[-2:]]
    cov = {
        "evaluations": st["evals"],
        "processes": st["procs"],
        "distinct_nontrivial": len(st["nontrivial"]),
        "rule": "each program (generated by gen.progs with planted failures, or from the container / value-kind / suggestion / call-stack / "
                "static-diagnostics / hash templates) is evaluated in %d independent processes (once alone under the plain configuration, otherwise inside a process that first evaluates up to 3 other programs) under different configurations (ASLR off, environment "
                "size, allocation noise, unrelated heaps and modules first, spawned thread, forced moving collections) and the complete "
                "observations are compared byte for byte; non-trivial = the observation contains a printed dict/set with >= 3 entries, dir(), an "
                "error with a did-you-mean suggestion, or >= 2 static diagnostics; distinct by source text" % nproc,
        "programs": len(programs),
        "processes_per_program": nproc,
        "nontrivial_by_reason": st["why"],
        "program_kinds": st["kinds"],
        "input_distribution": st["kinds"],
        "configuration_use": st["configs"],
        "errors_observed": st["errors_seen"],
        "suggestions_observed": st["suggestions_seen"],
        "diagnostics_observed": st["diagnostics_seen"],
        "traces_validated_against_impl": nmodel,
        "exhaustive": False,
        "samples": samples,
    }
    return {"coverage": cov, "failures": failures, "broken": broken}


def search(ctx, broken):
    """a proof obligation or the tie is broken: deeper differential run (12 processes per program), minimising every
    program whose output varies (20 processes per bisection candidate)."""
    old = ctx.tier
    programs = corpus_programs() + gen_programs(ctx, 60, 120)
    failures, st = compare_programs(ctx, programs, 12, batch=4)
    ctx.tier = old
    f2, _, _ = model_tie(ctx, programs, st["obs"])
    return {"failures": failures + f2, "coverage": {"evaluations": st["procs"]}}


def replay(ctx, rep):
    r = rep.get("replay", {})
    p = r.get("program")
    if not isinstance(p, dict) or "src" not in p:
        return {"coverage": {}, "failures": []}
    p.setdefault("kind", "replay")
    p.setdefault("id", "replay")
    failures, st = compare_programs(ctx, [p], 20, minimise=False)
    return {"coverage": {"evaluations": st["procs"], "distinct_nontrivial": len(st["nontrivial"]), "samples": [p["src"][:600]]}, "failures": failures}


META = {
    "category": "proof",
    "level_text": "Partial (the model-level theorems are full; the tie to the real evaluator is differential testing). Coq theorems (Properties/C14.v, closed under the global context) show for the modelled mechanisms that no seed, address "
                  "or allocation history can reach an observation: hash(str) equals the specification series (Java string hash over UTF-16, i32) "
                  "on both code paths for every string; iteration order of SmallMap-backed containers (dict, set, struct fields, scopes, module "
                  "bindings) is the same for every hasher seed, index threshold and sort cut-off and equals the association-list semantics of "
                  "the history; dir() is independent of the enumeration order of its sources; the did-you-mean suggestion is the first closest "
                  "candidate of the ORDERED candidate list (stable under reorderings that keep the first candidate per distance; the order of "
                  "equally close candidates IS observable - witness proved), and the candidate list built from the scopes is seed independent; "
                  "observations/truth/type of MiniStar values are invariant under any renaming of store addresses (cyclic values included); the "
                  "reference semantics is a function.  Allocation-history independence of the MiniStar interpreter is now proved in full "
                  "(C14_renaming_invariance, coq/Determ/Renaming*.v): for every fuel, eval, call and exec - and whole programs started from any "
                  "store (C14_program_renaming_invariance; run_program is the empty-store case) - run from two states related by a partial "
                  "bijection of list/dict/cell/closure addresses (related contents, equal lock counts, equal transcripts; unrelated addresses "
                  "i.e. garbage and allocation order unconstrained) end the same way (Ok / the same error and line / out of fuel) with equal "
                  "transcripts, related results and final states related for an extension of the bijection; every value operation used by "
                  "the interpreter (veq, vcmp, truth, hashable, obs_of, dict_get/set/del/update, sorting, binop/unop/index/slice, every "
                  "builtin and method, bind_params, sorted(key=, reverse=) call-backs) is shown to respect the relation. "
                  "The property for the real evaluator, type checker and linter is decided by cross-process differential runs with byte-exact "
                  "comparison of complete observations.",
    "level_note": "Trusted: Coq kernel; harness bin determ as the definition of 'observable'; the Python driver; kernel ASLR / setarch -R and "
                  "Rust's RandomState as sources of variation. Cannot exhibit: layout-dependent behaviour in unmodelled natives that needs a layout "
                  "no configuration produces; HashMap iteration inside typing/analysis code is searched, not proved absent (read: the lints use "
                  "hash sets for membership only, typecheck iterates SmallMap/sorted maps).",
    "technique": "Coq proofs of seed/hash/address independence on executable models; cross-process differential testing under layout/seed/thread "
                 "perturbation; bisection to a minimal varying program",
    "design_ref": "DESIGN.md section 4 C14, section 6",
}
