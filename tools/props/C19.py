"""C19 IDE answers are well-formed and name resolution matches what the program does.

Proof: coq/Lsp/{Pos,Bind,Proofs}.v + Properties/C19.v
  * Pos: CodeMap line table / find_line (binary search) / find_line_col (scalar columns, as coded) next to the
    protocol's UTF-16 column; find_line = specification, line/column round trip, col16 = colscalar <-> no astral
    character precedes on the line (+ refutation witness), positions stay inside the document.
  * Bind: bind.rs (Scope::new, first Set wins, free names bubble outwards) + definition.rs
    (find_definition_in_scope) on a scoping view of MiniStar with occurrence ids, next to the declarative run-time
    scoping rule; go-to-definition lands on a binding of that name in the scope the running program reads.
Tie: the `lsp` harness runs the REAL server (starlark_lsp::server::server_with_connection) over an in-memory
lsp_server::Connection with an in-memory LspContext; generated documents x every identifier occurrence and other
positions x open/change/close histories.  Every reply under a deadline; every range validated against the document
in UTF-16 units; definition targets compared with the Coq model (cases.v route) and, independently, with
SCOPE-TAGGED EVALUATION on the real evaluator (`eval` harness): every binding occurrence carries a unique tag value,
every use is wrapped in u(<use id>, name), so the transcript says which binding each use actually read.
Error spans (Error::span) are compared with the line/character of the planted failing expression."""
import json
import os
import re

import sv

PROP = "C19"
HARNESS_BINS = ["lsp", "eval"]
COQ_TARGETS = ["Properties/C19.vo", "Lsp/Cases.vo"]
TRUSTED = ["harness bin lsp (in-memory LspContext + JSON-RPC client with deadlines) and bin eval; tools/props/C19.py "
           "(document generator, UTF-16 range validator, scope-tagged evaluation bookkeeping)",
           "cases.v route: the Coq models (Lsp/Cases.v) are evaluated by vm_compute inside coqc",
           "coq/Lsp/Bind.v works on a scoping view of MiniStar (operators/calls/literals collapsed, names carry occurrence ids); "
           "the declarative run-time rule in it is validated against the real evaluator by scope-tagged evaluation on every run"]
ASSUMPTIONS = ["the server is driven through the public LspContext/JSON-RPC interface only; completion ranking, hover text and "
               "document links are checked for well-formedness, not for content",
               "agreement of the model with the server, and of the declarative scoping rule with the evaluator, is established by "
               "differential testing on generated documents, not by proof about the Rust code",
               "positions are sent as the protocol defines them (UTF-16 code units); character values above 2^31-1 are not sent"]

URI = "file:///ws/main.star"
LIB_URI = "file:///ws/lib.star"
K_OUT = "C19/utf16-column/astral-before-identifier"
K_IN = "C19/cursor-column/read-as-byte-offset/non-ascii-before-cursor"
K_ALIAS = "C19/range/inverted/completion-on-load-alias"
NAMES = ["a", "b", "c", "x", "y", "f", "g"]
DECOR = ["é", "\U0001F600", "中", "\U00010348", "ok", "ß\U0001F680", "\t", " "]


# =====================================================================================================
# text geometry (the specification side: LSP positions are (line, UTF-16 code unit) pairs)

def u16len(s):
    return sum(2 if ord(c) >= 0x10000 else 1 for c in s)


class Geo:
    """Line table of a document as the protocol sees it: lines end at \\n, \\r\\n (or \\r)."""

    def __init__(self, text):
        self.text = text
        self.starts = [0]      # code-point index of each line start (split at \n only, as CodeMap does)
        for i, c in enumerate(text):
            if c == "\n":
                self.starts.append(i + 1)
        self.nlines = len(self.starts)

    def line_of(self, cp):
        lo, hi = 0, self.nlines - 1
        while lo < hi:
            mid = (lo + hi + 1) // 2
            if self.starts[mid] <= cp:
                lo = mid
            else:
                hi = mid - 1
        return lo

    def line_text(self, line, keep_eol=False):
        a = self.starts[line]
        b = self.starts[line + 1] if line + 1 < self.nlines else len(self.text)
        s = self.text[a:b]
        if not keep_eol:
            s = s.rstrip("\n").rstrip("\r") if s.endswith("\n") else s
        return s

    def pos(self, cp):
        """code-point index -> dict(line, u16, scalar, byte) columns."""
        line = self.line_of(cp)
        pre = self.text[self.starts[line]:cp]
        return {"line": line, "u16": u16len(pre), "scalar": len(pre), "byte": len(pre.encode("utf-8"))}

    def cp_of(self, line, col, unit):
        """inverse of pos for one unit; None when (line, col) is not a position of the document."""
        if line < 0 or line >= self.nlines:
            return None
        s = self.line_text(line, keep_eol=True)
        acc = 0
        for i, c in enumerate(s):
            if acc == col:
                return self.starts[line] + i
            acc += {"u16": 2 if ord(c) >= 0x10000 else 1, "scalar": 1, "byte": len(c.encode("utf-8"))}[unit]
            if acc > col:
                return None
        return self.starts[line] + len(s) if acc == col else None

    def valid16(self, p):
        """Is {line, character} a position of this document under UTF-16 columns?"""
        if not isinstance(p, dict) or not isinstance(p.get("line"), int) or not isinstance(p.get("character"), int):
            return False
        if p["line"] < 0 or p["line"] >= self.nlines or p["character"] < 0:
            return False
        return p["character"] <= u16len(self.line_text(p["line"]))

    def slice16(self, rng):
        a = self.cp_of(rng["start"]["line"], rng["start"]["character"], "u16")
        b = self.cp_of(rng["end"]["line"], rng["end"]["character"], "u16")
        if a is None or b is None or a > b:
            return None
        return self.text[a:b]

    def slice_scalar(self, rng):
        a = self.cp_of(rng["start"]["line"], rng["start"]["character"], "scalar")
        b = self.cp_of(rng["end"]["line"], rng["end"]["character"], "scalar")
        if a is None or b is None or a > b:
            return None
        return self.text[a:b]

    def astral_before(self, line, scalar_col):
        return sum(1 for c in self.line_text(line, keep_eol=True)[:scalar_col] if ord(c) >= 0x10000)


# =====================================================================================================
# document generator: scoping skeletons with heavy shadowing, every binding tagged, every use observed

class G:
    def __init__(self, rng, size=10, decor=0.5, eol="\n", tabs=False, final_nl=True):
        self.rng = rng
        self.size = size
        self.decor = decor
        self.eol = eol
        self.tabs = tabs
        self.final_nl = final_nl
        self.nid = 0
        self.nsid = 0
        self.budget = size
        self.scopes = []     # records {sid, kind, locals, params, assigned, dead}
        self.binds = {}      # binding occurrence id -> (name, scope id it binds in)
        self.uses = {}       # use occurrence id -> name
        self.feat = {}

    def note(self, k):
        self.feat[k] = self.feat.get(k, 0) + 1

    def fid(self):
        self.nid += 1
        return self.nid

    def fsid(self):
        self.nsid += 1
        return self.nsid

    def ch(self, p):
        return self.rng.random() < p

    def pick(self, xs):
        xs = list(xs)
        return xs[self.rng.randrange(len(xs))]

    # ---- scope bookkeeping (only used to keep the program runnable; never used as an oracle) ----
    def fscope(self):
        for s in reversed(self.scopes):
            if s["kind"] in ("module", "def"):
                return s
        raise AssertionError

    def dead(self):
        return any(s.get("dead") for s in self.scopes)

    def owner(self, name):
        for s in reversed(self.scopes):
            if name in s["params"] or name in s["locals"]:
                return s
        return None

    def usable(self):
        if self.dead():
            # dead code may read any name that already has a binding occurrence in an enclosing scope
            sids = {s["sid"] for s in self.scopes}
            return sorted({n for (n, sid) in self.binds.values() if sid in sids and self.owner(n) is not None})
        out = []
        for n in NAMES + ["args", "kw", "_u"]:
            o = self.owner(n)
            if o is not None and n in o["assigned"]:
                out.append(n)
        return out

    def bind(self, name, scope):
        i = self.fid()
        self.binds[i] = (name, scope["sid"])
        return i

    def tag(self, i, plus=False):
        d = self.pick(DECOR) if self.ch(self.decor) else ""
        return ("lit", '"%sb%d%s"' % ("+" if plus else "", i, d.replace("\t", " ")))

    # ---- expressions ---------------------------------------------------------------------------
    def use(self, name=None, callables=None):
        """u(<id>, name): an observed read of `name`; callables are called as name(<id>)."""
        us = self.usable()
        if name is None:
            if not us:
                return ("lit", "0")
            name = self.pick(us)
        i = self.fid()
        self.uses[i] = name
        o = self.owner(name)
        if o is not None and name in o.get("callable", ()) and not self.dead():
            self.note("call")
            return ("call", ("var", name, i), [("lit", str(i))])
        ui = self.fid()
        self.uses[ui] = "u"
        e = ("var", name, i)
        if self.ch(0.12) and self.strlike(name):
            self.note("dotted")
            e = ("call", ("dot", e, "strip"), [])
        return ("call", ("var", "u", ui), [("lit", str(i)), e])

    def use_plain(self):
        """An observed read whose value is a non-empty string (always true as a condition)."""
        c = [n for n in self.usable() if self.strlike(n) and n in NAMES]
        if not c or self.dead():
            return self.use() if self.dead() else ("lit", "True")
        return self.use(self.pick(c))

    def strlike(self, name):
        o = self.owner(name)
        return o is not None and name in o.get("strs", ())

    def side(self, depth):
        r = self.rng.random()
        if depth <= 0 or r < 0.45:
            return self.use()
        if r < 0.6:
            return self.lam_call(depth - 1)
        if r < 0.85:
            return self.comp(depth - 1)
        if r < 0.92:
            return ("list", [self.side(depth - 1), self.side(depth - 1)])
        return ("lit", '"%s"' % self.pick(DECOR).replace("\t", " "))

    def tagged(self, i, depth, plus=False):
        """An expression whose value is the tag of binding i, optionally with observed side expressions."""
        if self.ch(0.5) or depth <= 0:
            return self.tag(i, plus)
        sides = [self.side(depth - 1) for _ in range(self.pick([1, 1, 2]))]
        return ("index", ("list", [self.tag(i, plus)] + sides), ("lit", "0"))

    def params(self, scope_rec, outer_depth, with_u):
        """Parameters (all defaulted with their own tag; defaults are evaluated in the enclosing scope)."""
        ps = []
        if with_u:
            i = self.fid()
            self.binds[i] = ("_u", scope_rec["sid"])
            ps.append(("p", "_u", i, None))
            scope_rec["params"].add("_u")
            scope_rec["assigned"].add("_u")
        for name in self.rng.sample(NAMES, self.pick([0, 1, 1, 2, 3])):
            i = self.fid()
            self.binds[i] = (name, scope_rec["sid"])
            ps.append(("p", name, i, self.tagged(i, outer_depth)))
            scope_rec["params"].add(name)
            scope_rec["assigned"].add(name)
            scope_rec["strs"].add(name)
        if self.ch(0.15):
            i = self.fid()
            self.binds[i] = ("args", scope_rec["sid"])
            ps.append(("args", "args", i))
            scope_rec["params"].add("args")
            scope_rec["assigned"].add("args")
            self.note("star-args")
        if self.ch(0.1):
            i = self.fid()
            self.binds[i] = ("kw", scope_rec["sid"])
            ps.append(("kwargs", "kw", i))
            scope_rec["params"].add("kw")
            scope_rec["assigned"].add("kw")
        return ps

    def new_rec(self, kind, sid):
        return {"sid": sid, "kind": kind, "locals": set(), "params": set(), "assigned": set(), "callable": set(), "strs": set()}

    def lam_call(self, depth):
        """(lambda a="b7": [u(.., a), ...])()"""
        self.note("lambda")
        sid = self.fsid()
        rec = self.new_rec("lambda", sid)
        ps = self.params(rec, depth, False)
        self.scopes.append(rec)
        body = ("list", [self.side(depth) for _ in range(self.pick([1, 2]))])
        self.scopes.pop()
        return ("call", ("paren", ("lambda", sid, ps, body)), [])

    def target(self, scope_rec, depth, allow_tuple=True):
        """-> (target, [binding ids in order])"""
        if allow_tuple and self.ch(0.25):
            ts, ids = [], []
            for name in self.rng.sample(NAMES, 2):
                i = self.bind(name, scope_rec)
                ts.append(("tvar", name, i))
                ids.append((name, i))
            self.note("tuple-target")
            return ("ttuple", ts), ids
        name = self.pick(NAMES)
        i = self.bind(name, scope_rec)
        return ("tvar", name, i), [(name, i)]

    def comp(self, depth):
        self.note("comprehension")
        sid = self.fsid()
        rec = self.new_rec("comp", sid)
        # first iterable: evaluated in the ENCLOSING scope
        t, ids = self.target(rec, depth)
        over = self.iterable(ids, depth)
        self.scopes.append(rec)
        for n, _ in ids:
            rec["locals"].add(n)
            rec["assigned"].add(n)
            rec["strs"].add(n)
        clauses = []
        for _ in range(self.pick([0, 0, 1, 2])):
            if self.ch(0.5):
                clauses.append(("cif", self.use_plain()))
            else:
                t2, ids2 = self.target(rec, depth)
                over2 = self.iterable(ids2, depth)   # later iterables: evaluated INSIDE the comprehension scope
                for n, _ in ids2:
                    rec["locals"].add(n)
                    rec["assigned"].add(n)
                    rec["strs"].add(n)
                clauses.append(("cfor", t2, over2))
                self.note("comp-nested-for")
        bodies = [("list", [self.side(depth) for _ in range(self.pick([1, 2]))])]
        kind = "l"
        if self.ch(0.2):
            kind = "d"
            key = self.use_plain()
            bodies = [key if key != ("lit", "True") else ("lit", '"k"'), bodies[0]]
        self.scopes.pop()
        return ("comp", sid, kind, bodies, t, over, clauses)

    def iterable(self, ids, depth):
        """A one-element list whose element matches the target shape and carries the binding tags."""
        if len(ids) == 1:
            return ("list", [self.tagged(ids[0][1], depth)])
        return ("list", [("tuple", [self.tagged(i, depth) for _, i in ids])])

    # ---- statements ----------------------------------------------------------------------------
    def block(self, depth, n):
        out = []
        for _ in range(n):
            if self.budget <= 0:
                break
            self.budget -= 1
            out += self.stmt(depth)
        if not out:
            out.append(("pass",))
        return out

    def stmt(self, depth):
        fs = self.fscope()
        r = self.rng.random()
        can_assign = sorted(fs["locals"] - fs.get("frozen", set()) - {"u"})
        if r < 0.30 and can_assign:
            return [self.assign(fs, depth)]
        if r < 0.38 and can_assign:
            n = self.pick(can_assign)
            if n in fs["assigned"] and n in fs["strs"] and n not in fs["callable"] and not self.dead():
                i = self.fid()
                self.binds[i] = (n, fs["sid"])
                self.uses[i] = n
                self.note("aug-assign")
                return [("aug", ("tvar", n, i), self.tagged(i, depth, plus=True))]
            return [self.assign(fs, depth)]
        if r < 0.55:
            return [("expr", self.side(depth))]
        if r < 0.72 and depth > 0:
            return self.defn(fs, depth - 1)
        if r < 0.80 and depth > 0:
            self.note("if")
            c = self.use_plain()
            th = self.block(depth - 1, self.pick([1, 2]))
            saved = {id(s): (set(s["assigned"]), set(s["callable"]), set(s["strs"])) for s in self.scopes}
            self.scopes[-1]["dead"] = self.scopes[-1].get("dead", 0) + 1
            el = self.block(depth - 1, self.pick([0, 1, 2])) if self.ch(0.6) else []
            self.scopes[-1]["dead"] -= 1
            for s in self.scopes:
                s["assigned"], s["callable"], s["strs"] = saved[id(s)]
            return [("if", c, th, el if el != [("pass",)] or self.ch(0.5) else [])]
        if r < 0.88 and depth > 0 and can_assign:
            self.note("for")
            names = [n for n in can_assign if n not in fs["callable"]] or can_assign
            n = self.pick(names)
            i = self.bind(n, fs)
            over = ("list", [self.tagged(i, depth)])
            fs["assigned"].add(n)
            fs["strs"].add(n)
            fs["callable"].discard(n)
            body = self.block(depth - 1, self.pick([1, 2]))
            return [("for", ("tvar", n, i), over, body)]
        if r < 0.93 and fs["kind"] == "def":
            return [("return", self.side(depth) if self.ch(0.7) else None)]
        if can_assign:
            return [self.assign(fs, depth)]
        return [("expr", self.side(depth))]

    def assign(self, fs, depth):
        names = sorted(fs["locals"] - fs.get("frozen", set()) - {"u"})
        if self.ch(0.2) and len(names) >= 2:
            a, b = self.rng.sample(names, 2)
            ia, ib = self.bind(a, fs), self.bind(b, fs)
            e = ("tuple", [self.tagged(ia, depth), self.tagged(ib, depth)])
            for n in (a, b):
                fs["assigned"].add(n)
                fs["strs"].add(n)
                fs["callable"].discard(n)
            self.note("tuple-target")
            return ("assign", ("ttuple", [("tvar", a, ia), ("tvar", b, ib)]), e)
        n = self.pick(names)
        i = self.bind(n, fs)
        if self.ch(0.15):
            # g = lambda _u: [emit(["call", _u, "b<i>"]), ...]
            self.note("lambda-binding")
            sid = self.fsid()
            rec = self.new_rec("lambda", sid)
            ps = self.params(rec, depth, True)
            self.scopes.append(rec)
            body = ("list", [self.entry_record(i)] + [self.side(depth - 1) for _ in range(self.pick([1, 2]))])
            self.scopes.pop()
            fs["assigned"].add(n)
            fs["callable"].add(n)
            fs["strs"].discard(n)
            return ("assign", ("tvar", n, i), ("lambda", sid, ps, body))
        e = self.tagged(i, depth)
        fs["assigned"].add(n)
        fs["strs"].add(n)
        fs["callable"].discard(n)
        return ("assign", ("tvar", n, i), e)

    def entry_record(self, bid):
        ui = self.fid()
        self.uses[ui] = "_u"
        return ("call", ("var", "emit", 0), [("list", [("lit", '"call"'), ("var", "_u", ui), ("lit", '"b%d"' % bid)])])

    def defn(self, fs, depth):
        """def NAME(_u, p=tag...): body   [+ late binding of an outer name]   + a call"""
        self.note("def")
        names = sorted(fs["locals"] - fs.get("frozen", set()) - {"u"})
        if not names:
            return [("pass",)]
        n = self.pick(names)
        i = self.bind(n, fs)
        sid = self.fsid()
        rec = self.new_rec("def", sid)
        ps = self.params(rec, depth, True)
        rec["locals"] = set(self.rng.sample(NAMES, self.pick([0, 1, 2, 3, 4])))
        if self.ch(0.3):
            rec["locals"].add(n)    # the function re-binds its own name locally
        # late binding: an outer name that is assigned only AFTER this def but before its first call
        late = None
        cands = [m for m in names if m not in fs["assigned"] and m != n]
        if cands and self.ch(0.5) and not self.dead():
            late = self.pick(cands)
            fs["assigned"].add(late)
            fs["strs"].add(late)
            self.note("late-binding")
        fs["assigned"].add(n)
        fs["callable"].add(n)
        fs["strs"].discard(n)
        self.scopes.append(rec)
        body = [("expr", self.entry_record(i))] + self.block(depth, self.pick([1, 2, 3]))
        self.scopes.pop()
        out = [("def", n, i, sid, ps, body)]
        if late is not None:
            li = self.bind(late, fs)
            out.append(("assign", ("tvar", late, li), self.tag(li)))
        if not self.dead():
            out.append(("expr", self.use(n)))
        return out

    def module(self, with_load):
        rec = self.new_rec("module", 0)
        rec["locals"] = set(NAMES)
        self.scopes.append(rec)
        prog = []
        lib = None
        if with_load:
            self.note("load")
            ln = self.pick(NAMES)
            li = self.bind(ln, rec)
            deco = self.pick(DECOR).replace("\t", " ") if self.ch(self.decor) else ""
            lib = {"their": "sym_%s" % ln, "tag": li,
                   "text": ('"%s"; ' % deco if deco else "") + 'sym_%s = "b%d"\nother = 1\n' % (ln, li)}
            prog.append(("load", getattr(self, "libname", "lib.star"), [(ln, li, "sym_%s" % ln)]))
            rec["assigned"].add(ln)
            rec["strs"].add(ln)
            rec["frozen"] = {ln}
        # prelude: the observer
        ii, vv, di = self.fid(), self.fid(), self.fid()
        usid = self.fsid()
        self.binds[ii] = ("_i", usid)
        self.binds[vv] = ("_v", usid)
        self.binds[di] = ("u", 0)
        u1, u2, u3 = self.fid(), self.fid(), self.fid()
        self.uses[u1], self.uses[u2], self.uses[u3] = "_i", "_v", "_v"
        prog.append(("def", "u", di, usid, [("p", "_i", ii, None), ("p", "_v", vv, None)],
                     [("expr", ("call", ("var", "emit", 0), [("list", [("var", "_i", u1), ("var", "_v", u2)])])),
                      ("return", ("var", "_v", u3))]))
        rec["locals"].add("u")
        rec["assigned"].add("u")
        prog += self.block(3, self.size)
        self.scopes.pop()
        return prog, lib


# ---- rendering to text with recorded occurrence positions -----------------------------------------------

class Out:
    def __init__(self, g):
        self.parts = []
        self.n = 0
        self.occ = {}      # id -> [cp start, cp end, name]
        self.anon = []     # (cp start, cp end, name) of identifiers without id (emit)
        self.g = g

    def w(self, s):
        self.parts.append(s)
        self.n += len(s)

    def ident(self, name, i):
        if i:
            self.occ[i] = [self.n, self.n + len(name), name]
        else:
            self.anon.append((self.n, self.n + len(name), name))
        self.w(name)

    def text(self):
        return "".join(self.parts)


def r_expr(o, e):
    k = e[0]
    if k == "lit":
        o.w(e[1])
    elif k == "var":
        o.ident(e[1], e[2])
    elif k == "paren":
        o.w("(")
        r_expr(o, e[1])
        o.w(")")
    elif k == "call":
        r_expr(o, e[1])
        o.w("(")
        for j, a in enumerate(e[2]):
            if j:
                o.w(", ")
            r_expr(o, a)
        o.w(")")
    elif k in ("list", "tuple"):
        o.w("[" if k == "list" else "(")
        for j, a in enumerate(e[1]):
            if j:
                o.w(", ")
            r_expr(o, a)
        if k == "tuple" and len(e[1]) == 1:
            o.w(",")
        o.w("]" if k == "list" else ")")
    elif k == "index":
        r_expr(o, e[1])
        o.w("[")
        r_expr(o, e[2])
        o.w("]")
    elif k == "dot":
        r_expr(o, e[1])
        o.w("." + e[2])
    elif k == "lambda":
        o.w("lambda")
        r_params(o, e[2], " ")
        o.w(": ")
        r_expr(o, e[3])
    elif k == "comp":
        _, sid, kind, bodies, t, over, clauses = e
        o.w("[" if kind == "l" else "{")
        r_expr(o, bodies[0])
        if kind == "d":
            o.w(": ")
            r_expr(o, bodies[1])
        o.w(" for ")
        r_target(o, t)
        o.w(" in ")
        r_expr(o, over)
        for c in clauses:
            if c[0] == "cif":
                o.w(" if ")
                r_expr(o, c[1])
            else:
                o.w(" for ")
                r_target(o, c[1])
                o.w(" in ")
                r_expr(o, c[2])
        o.w("]" if kind == "l" else "}")
    else:
        raise ValueError(e)


def r_params(o, ps, lead=""):
    for j, p in enumerate(ps):
        o.w(lead if j == 0 else ", ")
        if p[0] == "p":
            o.ident(p[1], p[2])
            if p[3] is not None:
                o.w("=")
                r_expr(o, p[3])
        elif p[0] == "args":
            o.w("*")
            o.ident(p[1], p[2])
        else:
            o.w("**")
            o.ident(p[1], p[2])


def r_target(o, t, top=True):
    if t[0] == "tvar":
        o.ident(t[1], t[2])
    elif t[0] == "ttuple":
        o.w("(")
        for j, x in enumerate(t[1]):
            if j:
                o.w(", ")
            r_target(o, x, False)
        o.w(")")
    else:
        raise ValueError(t)


def r_block(o, ss, ind):
    g = o.g
    unit = "  "          # tabs are rejected as indentation by the lexer; they are used between tokens instead
    for s in ss:
        o.w(unit * ind)
        k = s[0]
        simple = k in ("assign", "aug", "expr", "return", "pass")
        if simple and g.ch(g.decor * 0.5):
            o.w('"%s"; ' % g.pick(DECOR).replace("\t", " "))     # non-ASCII text before identifiers on the same line
        if k == "assign":
            r_target(o, s[1])
            o.w(" = ")
            r_expr(o, s[2])
        elif k == "aug":
            r_target(o, s[1])
            o.w(" += ")
            r_expr(o, s[2])
        elif k == "expr":
            r_expr(o, s[1])
        elif k == "return":
            o.w("return")
            if s[1] is not None:
                o.w(" ")
                r_expr(o, s[1])
        elif k == "pass":
            o.w("pass")
        elif k == "load":
            o.w('load("%s"' % s[1])
            for (ln, li, their) in s[2]:
                o.w(", ")
                o.ident(ln, li)
                o.w(' = "%s"' % their)
            o.w(")")
        if k in ("assign", "aug", "expr", "return", "pass", "load"):
            if g.ch(g.decor * 0.3):
                o.w("  # %s%s" % ("\t" if g.tabs else "", g.pick(DECOR)))
            o.w(g.eol)
            if g.ch(g.decor * 0.1):
                o.w(unit * ind + "# " + g.pick(DECOR) + g.eol)
            continue
        if k == "if":
            o.w("if ")
            r_expr(o, s[1])
            o.w(":" + g.eol)
            r_block(o, s[2], ind + 1)
            if s[3]:
                o.w(unit * ind + "else:" + g.eol)
                r_block(o, s[3], ind + 1)
        elif k == "for":
            o.w("for ")
            r_target(o, s[1])
            o.w(" in ")
            r_expr(o, s[2])
            o.w(":" + g.eol)
            r_block(o, s[3], ind + 1)
        elif k == "def":
            o.w("def ")
            o.ident(s[1], s[2])
            o.w("(")
            r_params(o, s[4])
            o.w("):" + g.eol)
            r_block(o, s[5], ind + 1)
        else:
            raise ValueError(s)


# ---- rendering to the Coq scoping syntax (coq/Lsp/Bind.v) ---------------------------------------------------

def cq(s):
    return '"%s"' % s


def c_expr(e):
    k = e[0]
    if k == "lit":
        return "ELit"
    if k == "var":
        return "(EVar %s %d)" % (cq(e[1]), e[2])
    if k == "paren":
        return c_expr(e[1])
    if k == "call":
        r = c_expr(e[1])
        for a in e[2]:
            r = "(EBin %s %s)" % (r, c_expr(a))
        return r
    if k in ("list", "tuple"):
        r = "ELit"
        for a in e[1]:
            r = "(EBin %s %s)" % (r, c_expr(a))
        return r
    if k == "index":
        return "(EBin %s %s)" % (c_expr(e[1]), c_expr(e[2]))
    if k == "dot":
        return c_expr(e[1])
    if k == "lambda":
        return "(ELambda %d %s %s)" % (e[1], c_params(e[2]), c_expr(e[3]))
    if k == "comp":
        _, sid, kind, bodies, t, over, clauses = e
        b = c_expr(bodies[0]) if kind == "l" else "(EBin %s %s)" % (c_expr(bodies[0]), c_expr(bodies[1]))
        cl = "CNil"
        for c in reversed(clauses):
            cl = "(CIf %s %s)" % (c_expr(c[1]), cl) if c[0] == "cif" else "(CFor %s %s %s)" % (c_target(c[1]), c_expr(c[2]), cl)
        return "(EComp %d %s %s %s %s)" % (sid, b, c_target(t), c_expr(over), cl)
    raise ValueError(e)


def c_params(ps):
    r = "PNil"
    for p in reversed(ps):
        d = c_expr(p[3]) if p[0] == "p" and p[3] is not None else "ELit"
        r = "(PCons %s %d %s %s)" % (cq(p[1]), p[2], d, r)
    return r


def c_target(t):
    if t[0] == "tvar":
        return "(TVar %s %d)" % (cq(t[1]), t[2])
    if t[0] == "ttuple":
        r = c_target(t[1][-1])
        for x in reversed(t[1][:-1]):
            r = "(TPair %s %s)" % (c_target(x), r)
        return r
    raise ValueError(t)


def c_block(ss):
    r = "SNil"
    for s in reversed(ss):
        r = "(SCons %s %s)" % (c_stmt(s), r)
    return r


def c_stmt(s):
    k = s[0]
    if k == "assign":
        return "(SAssign %s %s)" % (c_target(s[1]), c_expr(s[2]))
    if k == "aug":
        return "(SAug %s %s)" % (c_target(s[1]), c_expr(s[2]))
    if k == "expr":
        return "(SExpr %s)" % c_expr(s[1])
    if k == "return":
        return "(SReturn %s)" % (c_expr(s[1]) if s[1] is not None else "ELit")
    if k == "pass":
        return "SPass"
    if k == "load":
        r = "SPass"
        assert len(s[2]) == 1
        return "(SLoad %s %d)" % (cq(s[2][0][0]), s[2][0][1])
    if k == "if":
        return "(SIf %s %s %s)" % (c_expr(s[1]), c_block(s[2]), c_block(s[3]))
    if k == "for":
        return "(SFor %s %s %s)" % (c_target(s[1]), c_expr(s[2]), c_block(s[3]))
    if k == "def":
        return "(SDef %s %d %d %s %s)" % (cq(s[1]), s[2], s[3], c_params(s[4]), c_block(s[5]))
    raise ValueError(s)


# ---- the specification's resolution (declarative run-time rule), computed independently in Python -------

def t_names(t):
    return [t[1]] if t[0] == "tvar" else [n for x in t[1] for n in t_names(x)]


def s_names(ss):
    out = []
    for s in ss:
        k = s[0]
        if k in ("assign", "aug"):
            out += t_names(s[1])
        elif k == "if":
            out += s_names(s[2]) + s_names(s[3])
        elif k == "for":
            out += t_names(s[1]) + s_names(s[3])
        elif k == "def":
            out.append(s[1])
        elif k == "load":
            out += [x[0] for x in s[2]]
    return out


def spec_resolve(prog):
    """use id -> scope id the run-time reads the name from (None = global/builtin)."""
    res = {}

    def look(env, name):
        for sid, ns in env:
            if name in ns:
                return sid
        return None

    def ex(env, e):
        k = e[0]
        if k == "var":
            if e[2]:
                res[e[2]] = look(env, e[1])
        elif k in ("paren", "dot"):
            ex(env, e[1])
        elif k == "call":
            ex(env, e[1])
            for a in e[2]:
                ex(env, a)
        elif k in ("list", "tuple"):
            for a in e[1]:
                ex(env, a)
        elif k == "index":
            ex(env, e[1])
            ex(env, e[2])
        elif k == "lambda":
            for p in e[2]:
                if p[0] == "p" and p[3] is not None:
                    ex(env, p[3])
            ex([(e[1], {p[1] for p in e[2]})] + env, e[3])
        elif k == "comp":
            _, sid, kind, bodies, t, over, clauses = e
            ex(env, over)
            ns = set(t_names(t))
            for c in clauses:
                if c[0] == "cfor":
                    ns |= set(t_names(c[1]))
            env2 = [(sid, ns)] + env
            for c in clauses:
                ex(env2, c[1] if c[0] == "cif" else c[2])
            for b in bodies:
                ex(env2, b)

    def st(env, ss):
        for s in ss:
            k = s[0]
            if k == "assign":
                ex(env, s[2])
            elif k == "aug":
                res[s[1][2]] = look(env, s[1][1])
                ex(env, s[2])
            elif k == "expr":
                ex(env, s[1])
            elif k == "return":
                if s[1] is not None:
                    ex(env, s[1])
            elif k == "if":
                ex(env, s[1])
                st(env, s[2])
                st(env, s[3])
            elif k == "for":
                ex(env, s[2])
                st(env, s[3])
            elif k == "def":
                for p in s[4]:
                    if p[0] == "p" and p[3] is not None:
                        ex(env, p[3])
                st([(s[3], {p[1] for p in s[4]} | set(s_names(s[5])))] + env, s[5])

    st([(0, set(s_names(prog)))], prog)
    return res


def make_doc(rng, size, decor, eol="\n", tabs=False, final_nl=True, with_load=False, libname="lib.star"):
    g = G(rng, size=size, decor=decor, eol=eol, tabs=tabs, final_nl=final_nl)
    g.libname = libname
    prog, lib = g.module(with_load)
    o = Out(g)
    r_block(o, prog, 0)
    text = o.text()
    if not final_nl and text.endswith(eol):
        text = text[:-len(eol)]
    return {"libname": libname, "prog": prog, "text": text, "occ": o.occ, "anon": o.anon, "binds": g.binds, "uses": g.uses, "lib": lib,
            "coq": c_block(prog), "spec": spec_resolve(prog), "feat": g.feat,
            "cfg": {"eol": eol, "tabs": tabs, "final_nl": final_nl, "decor": decor, "size": size, "load": with_load}}


# =====================================================================================================
# sessions against the real server

def tdp(uri, line, ch):
    return {"textDocument": {"uri": uri}, "position": {"line": line, "character": ch}}


def broken_text(rng, text):
    """A syntactically invalid variant (the server must keep answering from the last valid parse)."""
    k = rng.randrange(3)
    if k == 0:
        return text + "\ndef (:\n"
    if k == 1:
        return "x = = 1 \U0001F600\n" + text
    return text[:max(1, len(text) // 2)] + '\n)(\n"unterminated \U0001F600'


def build_session(rng, doc, doc2, idx, sample2=0.25):
    """open doc (full sweep of every identifier occurrence + other positions) -> change to a broken text ->
    change to doc2 (sampled sweep) -> close -> query after close."""
    files = {}
    steps = []
    plan = []     # parallel to steps: what is expected / how to validate
    for d in (doc, doc2):
        if d["lib"]:
            files["/ws/" + d["libname"]] = d["lib"]["text"]

    def add(step, **meta):
        steps.append(step)
        plan.append(meta)

    if doc["lib"] and rng.random() < 0.5:
        add({"do": "open", "uri": "file:///ws/" + doc["libname"], "text": doc["lib"]["text"], "version": 1},
            kind="open", text=doc["lib"]["text"], uri="file:///ws/" + doc["libname"])
    add({"do": "open", "uri": URI, "text": doc["text"], "version": 1}, kind="open", text=doc["text"], uri=URI)

    def sweep(d, frac):
        geo = d["geo"]
        for oid, (a, b, name) in sorted(d["occ"].items()):
            if rng.random() > frac:
                continue
            cp = a + rng.choice([0, 0, (b - a) // 2, b - a])      # begin / inside / end (Span::contains is inclusive)
            p = geo.pos(cp)
            add({"do": "req", "method": "textDocument/definition", "params": tdp(URI, p["line"], p["u16"])},
                kind="def", d=d, occ=oid, cp=cp, proper=True, shifted=p["byte"] != p["u16"])
            if p["byte"] != p["u16"]:
                # the column as the server (mis)reads it: evaluated only when the proper request fails in the known way
                add({"do": "req", "method": "textDocument/definition", "params": tdp(URI, p["line"], p["byte"])},
                    kind="def", d=d, occ=oid, cp=cp, proper=False, shifted=True)
            if rng.random() < 0.3:
                add({"do": "req", "method": "textDocument/hover", "params": tdp(URI, p["line"], p["u16"])},
                    kind="hover", d=d, occ=oid, cp=cp)
        # other positions: anywhere, past end of line, past end of file, extremes
        n = geo.nlines
        others = [(0, 0), (n - 1, 0), (n, 0), (n + 5, 3), (0, 2 ** 31 - 1), (max(0, n - 1), 10 ** 6)]
        for _ in range(max(4, int(12 * frac))):
            ln = rng.randrange(n)
            others.append((ln, rng.randrange(u16len(geo.line_text(ln)) + 4)))
        for (ln, ch) in others:
            m = rng.choice(["textDocument/definition", "textDocument/hover", "textDocument/completion"])
            add({"do": "req", "method": m, "params": tdp(URI, ln, ch)}, kind="other", d=d, method=m)
        for _ in range(max(2, int(6 * frac))):
            oid = rng.choice(sorted(d["occ"]))
            a, b, name = d["occ"][oid]
            p = geo.pos(rng.choice([a, b]))
            add({"do": "req", "method": "textDocument/completion", "params": tdp(URI, p["line"], p["u16"])},
                kind="other", d=d, method="textDocument/completion")

    sweep(doc, 1.0)
    bt = broken_text(rng, doc["text"])
    add({"do": "change", "uri": URI, "text": bt, "version": 2}, kind="open", text=bt, uri=URI, expect_error=True)
    for _ in range(3):
        oid = rng.choice(sorted(doc["occ"]))
        p = doc["geo"].pos(doc["occ"][oid][0])
        add({"do": "req", "method": "textDocument/definition", "params": tdp(URI, p["line"], p["u16"])},
            kind="stale", d=doc)
    add({"do": "change", "uri": URI, "text": doc2["text"], "version": 3}, kind="open", text=doc2["text"], uri=URI)
    sweep(doc2, sample2)
    add({"do": "close", "uri": URI}, kind="close", uri=URI)
    add({"do": "req", "method": "textDocument/definition", "params": tdp(URI, 0, 0)}, kind="closed")
    add({"do": "req", "method": "textDocument/hover", "params": tdp(URI, 0, 0)}, kind="closed")
    return {"op": "session", "files": files, "steps": steps, "deadline_ms": 60000}, plan


def is_range(x):
    return (isinstance(x, dict) and set(x.keys()) == {"start", "end"} and isinstance(x["start"], dict)
            and "line" in x["start"] and "character" in x["start"])


def all_ranges(j, path=""):
    """Every {start,end} object inside a JSON value, with its path."""
    if is_range(j):
        yield path, j
    elif isinstance(j, dict):
        for k, v in j.items():
            yield from all_ranges(v, path + "/" + k)
    elif isinstance(j, list):
        for i, v in enumerate(j):
            yield from all_ranges(v, path + "/" + str(i))


def range_ok(geo, r):
    if not (geo.valid16(r["start"]) and geo.valid16(r["end"])):
        return False
    return (r["start"]["line"], r["start"]["character"]) <= (r["end"]["line"], r["end"]["character"])


def occ_ranges(d, oid):
    geo = d["geo"]
    a, b, _ = d["occ"][oid]
    pa, pb = geo.pos(a), geo.pos(b)
    r16 = {"start": {"line": pa["line"], "character": pa["u16"]}, "end": {"line": pb["line"], "character": pb["u16"]}}
    rsc = {"start": {"line": pa["line"], "character": pa["scalar"]}, "end": {"line": pb["line"], "character": pb["scalar"]}}
    return r16, rsc


def occ_candidates(d, rng_):
    """Identifier occurrences this range may denote: [(occ id, 'u16' | 'scalar-after-astral')]."""
    geo = d["geo"]
    by16 = d.setdefault("_by16", {})
    bysc = d.setdefault("_bysc", {})
    if not by16:
        for oid in d["occ"]:
            r16, rsc = occ_ranges(d, oid)
            by16[json.dumps(r16, sort_keys=True)] = oid
            bysc[json.dumps(rsc, sort_keys=True)] = oid
    k = json.dumps(rng_, sort_keys=True)
    out = []
    if k in by16:
        out.append((by16[k], "u16"))
    if k in bysc and bysc[k] != by16.get(k):
        oid = bysc[k]
        pa = geo.pos(d["occ"][oid][0])
        if geo.astral_before(pa["line"], pa["scalar"]) > 0:
            out.append((oid, "scalar-after-astral"))
    return out


def match_occ(d, rng_, want=None):
    """Which identifier occurrence does this range denote?  `want(oid)` ranks the candidates when the range can be read
    both as the UTF-16 range of one occurrence and as the scalar range of another one on the same line."""
    geo = d["geo"]
    c = occ_candidates(d, rng_)
    if not c:
        return None, "no identifier occurrence has this range (text there: %r)" % (geo.slice16(rng_) if range_ok(geo, rng_) else None)
    if want is not None:
        good = [x for x in c if want(x[0])]
        if good:
            return good[0]
    return c[0]


def check_session(case, plan, res, failures, st, tagobs, model):
    """Validate one session's replies.  tagobs / model: per-document dicts filled by the evaluator / Coq model."""
    def fail(key, what, **rep):
        failures.append({"key": key, "what": what, "replay": dict(rep, case_steps=len(case["steps"]))})

    if res is None or "panic" in (res or {}):
        fail("C19/crash/harness", "the lsp harness crashed on a session: %s" % (res,), case=case)
        return
    if res.get("crash"):
        # find the step at which the server died
        k = next((i for i, s in enumerate(res["steps"]) if s.get("status") not in ("ok", None) or s.get("skipped")), None)
        fail("C19/crash/server-panic", "the server thread died: %s at step %s %s" % (res["crash"], k, json.dumps(case["steps"][k])[:300] if k is not None else ""),
             case=minimal_case(case, k), crash=res["crash"])
        return
    if res.get("init_status") != "ok":
        fail("C19/no-reply/initialize", "no reply to initialize: %s" % res.get("init_status"), case=case)
        return
    texts = {}     # uri -> text of the last version that parsed (what the server answers from) and current text
    cur = {}
    for i, (step, meta, r) in enumerate(zip(case["steps"], plan, res["steps"])):
        st["steps"] += 1
        if r.get("skipped"):
            continue
        if r.get("status") != "ok":
            fail("C19/no-reply/%s" % (step.get("method") or step["do"]),
                 "no reply within the deadline (status %s) to step %d: %s" % (r.get("status"), i, json.dumps(step)[:300]),
                 case=minimal_case(case, i))
            return
        kind = meta["kind"]
        if kind in ("open", "close"):
            pubs = [n for n in r["notifs"] if n["method"] == "textDocument/publishDiagnostics"]
            errs = [n for n in r["notifs"] if n["method"] == "window/logMessage" and n["params"].get("type") == 1]
            if errs or not pubs:
                fail("C19/notification/error-instead-of-diagnostics", "step %d %s: %s" % (i, step["do"], json.dumps(r["notifs"])[:300]),
                     case=minimal_case(case, i))
                continue
            if kind == "open":
                cur[meta["uri"]] = meta["text"]
                geo = Geo(meta["text"])
                diags = pubs[-1]["params"]["diagnostics"]
                st["diagnostics"] += len(diags)
                has_err = any(dg.get("severity") == 1 for dg in diags)
                if not has_err:
                    texts[meta["uri"]] = meta["text"]
                if meta.get("expect_error") and not has_err:
                    fail("C19/diagnostics/syntax-error-not-reported", "no error diagnostic for a broken document", text=meta["text"])
                for path, rg in all_ranges(diags):
                    st["ranges"] += 1
                    if not range_ok(geo, rg):
                        fail("C19/range/out-of-document/diagnostic",
                             "publishDiagnostics range %s is not a valid UTF-16 range of the document (%d lines; line text %r)"
                             % (json.dumps(rg), geo.nlines, geo.line_text(rg["start"]["line"]) if rg["start"]["line"] < geo.nlines else None),
                             text=meta["text"], range=rg, diag=diags)
            else:
                texts.pop(meta["uri"], None)
                if pubs[-1]["params"]["diagnostics"]:
                    fail("C19/diagnostics/not-cleared-on-close", "diagnostics after close: %s" % json.dumps(pubs[-1])[:200])
            continue
        resp = r.get("resp") or {}
        st["requests"] += 1
        if "error" in resp and resp["error"]:
            fail("C19/reply/error-response", "step %d %s -> %s" % (i, json.dumps(step)[:200], json.dumps(resp["error"])[:200]),
                 case=minimal_case(case, i))
            continue
        result = resp.get("result")
        if kind == "closed":
            if result not in ([], None) and result != {"contents": []}:
                fail("C19/closed-document/answer", "answer for a closed document: %s" % json.dumps(result)[:200])
            continue
        d = meta["d"]
        base_text = texts.get(URI)
        geo = d["geo"] if base_text == d["text"] else Geo(base_text or "")
        if base_text != d["text"] and kind in ("def", "hover"):
            if cur.get(URI) == d["text"]:
                fail("C19/internal/generated-document-rejected", "a generated document did not parse in the server", text=d["text"])
            kind = "stale"
        # generic well-formedness of every range in the reply
        bad_generic = False
        links = result if isinstance(result, list) and step["method"] == "textDocument/definition" else []
        for path, rg in all_ranges(result):
            st["ranges"] += 1
            g2 = geo
            if path.endswith("targetRange") or path.endswith("targetSelectionRange"):
                link = links[int(path.split("/")[1])] if links else {}
                turi = link.get("targetUri")
                if turi != URI:
                    ttext = case["files"].get((turi or "").replace("file://", ""))
                    if ttext is None:
                        if rg != {"start": {"line": 0, "character": 0}, "end": {"line": 0, "character": 0}}:
                            fail("C19/range/unknown-target-document", "target %s in unknown document %s" % (json.dumps(rg), turi))
                        continue
                    g2 = Geo(ttext)
            if not range_ok(g2, rg):
                bad_generic = True
                if step["method"].endswith("completion") and d["lib"] and g2 is d["geo"]:
                    r16 = occ_ranges(d, d["lib"]["tag"])[0]
                    if (rg["start"]["line"] == r16["start"]["line"] and rg["start"]["character"] == r16["start"]["character"] + 1
                            and rg["end"]["character"] == r16["end"]["character"] - 1):
                        st["known_alias"] = st.get("known_alias", 0) + 1
                        fail(K_ALIAS, "completion on the local name of load(.., %s = \"..\") returns the text edit range %s: the identifier's span "
                             "with one column stripped at each end as if it were a quoted string (start > end for a one-letter name)"
                             % (d["occ"][d["lib"]["tag"]][2], json.dumps(rg)), text=g2.text, request=step, reply=result)
                        continue
                fail("C19/range/out-of-document/%s" % step["method"].split("/")[-1],
                     "%s at %s: range %s (%s) is not a valid UTF-16 range of the document (%d lines)"
                     % (step["method"], json.dumps(step["params"]["position"]), json.dumps(rg), path, g2.nlines),
                     text=g2.text, request=step, reply=result)
        if kind in ("other", "stale", "hover") or bad_generic:
            if kind == "hover" and isinstance(result, dict) and result.get("range") and base_text == d["text"]:
                oid, how = match_occ(d, result["range"])
                classify_range(fail, st, d, meta, step, result["range"], oid, how, "hover")
            continue
        # ---- go-to-definition on identifier occurrence meta["occ"] ----
        oid = meta["occ"]
        name = d["occ"][oid][2]
        st["definition_requests"] += 1
        is_use = oid in d["uses"]
        if d["lib"] and oid == d["lib"]["tag"]:
            continue      # the local name inside load(...): the server jumps to the loaded file (checked for well-formedness above)
        spec_sid = d["spec"].get(oid) if is_use else None
        expect = is_use and spec_sid is not None
        shifted = meta["shifted"]          # non-ASCII text before the cursor on its line: byte column != UTF-16 column
        proper = meta["proper"]
        key_wrong = None
        detail = ""
        tgt = None
        if not isinstance(result, list) or len(result) > 1:
            key_wrong, detail = "C19/definition/malformed-reply", json.dumps(result)[:200]
        elif not result:
            if expect:
                key_wrong, detail = "C19/definition/not-found", "no definition returned for a use of `%s` that the program reads from scope %s" % (name, spec_sid)
        else:
            link = result[0]
            o_oid, o_how = match_occ(d, link.get("originSelectionRange") or {}, lambda x: x == oid)
            if link.get("targetUri") == URI:
                t_oid, t_how = match_occ(d, link["targetRange"], lambda x: d["binds"].get(x) == (name, spec_sid))
                tsel_same = link["targetRange"] == link["targetSelectionRange"]
            else:
                t_oid, t_how, tsel_same = None, "lib", link["targetRange"] == link["targetSelectionRange"]
            if o_oid != oid:
                key_wrong, detail = "C19/definition/origin-range-wrong", "originSelectionRange %s denotes %s, not the identifier at the cursor (%s)" % (
                    json.dumps(link.get("originSelectionRange")), o_oid if o_oid else o_how, json.dumps(occ_ranges(d, oid)[0]))
            elif not expect:
                key_wrong, detail = "C19/definition/spurious", "a definition %s was returned for `%s`, which is %s" % (
                    json.dumps(link["targetRange"]), name, "a builtin" if is_use else "a binding occurrence")
            elif not tsel_same:
                key_wrong, detail = "C19/definition/selection-range-differs", json.dumps(link)[:200]
            elif t_how == "lib":
                # loaded symbol: the target must be the exported symbol in the loaded file
                lib = d["lib"]
                ltext = case["files"].get(link["targetUri"].replace("file://", ""))
                lg = Geo(ltext or "")
                got16 = lg.slice16(link["targetRange"]) if range_ok(lg, link["targetRange"]) else None
                gotsc = lg.slice_scalar(link["targetRange"])
                bidx = [b for b, (n, sid) in d["binds"].items() if n == name and sid == spec_sid and lib and b == lib["tag"]]
                if not bidx:
                    key_wrong, detail = "C19/definition/wrong-scope", "`%s` resolved into the loaded file but the program reads scope %s" % (name, spec_sid)
                elif got16 == lib["their"]:
                    tgt = bidx[0]
                elif gotsc == lib["their"]:
                    tgt = bidx[0]
                    classify_known_out(fail, st, d, step, link["targetRange"], "definition target in the loaded file", lg)
                else:
                    key_wrong, detail = "C19/definition/target-not-identifier", "target text in %s is %r, expected %r" % (link["targetUri"], got16, lib["their"])
            elif t_oid is None:
                key_wrong, detail = "C19/definition/target-not-identifier", "targetRange %s: %s" % (json.dumps(link["targetRange"]), t_how)
            else:
                tgt = t_oid
                if o_how != "u16":
                    classify_known_out(fail, st, d, step, link["originSelectionRange"], "originSelectionRange", d["geo"])
                if t_how != "u16":
                    classify_known_out(fail, st, d, step, link["targetRange"], "definition targetRange", d["geo"])
                bn = d["binds"].get(t_oid)
                if bn is None or bn[0] != name:
                    key_wrong, detail = "C19/definition/target-not-a-binding-of-the-name", "target occurrence %s is %s" % (t_oid, bn or d["occ"][t_oid][2])
                elif bn[1] != spec_sid:
                    key_wrong, detail = "C19/definition/wrong-scope", (
                        "use of `%s` (occurrence %d): the server's target is the binding occurrence %d in scope %s, the declarative rule reads scope %s"
                        % (name, oid, t_oid, bn[1], spec_sid))
        if key_wrong:
            if shifted and proper:
                # known inbound defect: the cursor column is read as a byte offset; the byte-column variant decides
                st["known_in"] += 1
                failures.append({"key": K_IN, "what": "go-to-definition at the UTF-16 position of `%s` (line %d) after non-ASCII text fails (%s: %s); "
                                 "the server reads the column as a byte offset" % (name, step["params"]["position"]["line"], key_wrong, detail),
                                 "replay": {"text": d["text"], "request": step, "reply": result}})
                continue
            if shifted and not proper and oid in d.get("_proper_ok", ()):
                continue
            fail(key_wrong, "%s at %s on `%s`: %s" % (step["method"], json.dumps(step["params"]["position"]), name, detail),
                 text=d["text"], request=step, reply=result, occurrence=oid, spec_scope=spec_sid, lib=d["lib"])
            continue
        if shifted and proper:
            d.setdefault("_proper_ok", set()).add(oid)
        if shifted and not proper and oid in d.get("_proper_ok", ()):
            continue      # a server that converts columns correctly answers the byte-column variant differently; ignore it
        if tgt is None:
            continue
        st["definitions_resolved"] += 1
        # (3a) against the Coq model
        m = model.get(id(d), {}).get(oid)
        if m is not None:
            st["model_compared"] += 1
            if m[0] != 1 or m[2] != tgt:
                fail("C19/definition/model-differs", "use %d of `%s`: server target = binding occurrence %d, Coq model (bind.rs/definition.rs) says %s"
                     % (oid, name, tgt, m), text=d["text"], coq=d["coq"], use=oid, request=step, reply=result)
            if (m[3], m[4]) != (2, spec_sid):
                fail("C19/spec/coq-rule-vs-python-rule", "declarative rule in Coq %s vs Python %s for use %d" % (m, spec_sid, oid), coq=d["coq"], use=oid)
        # (3b) against scope-tagged evaluation on the real evaluator
        for b in tagobs.get(id(d), {}).get(oid, ()):
            st["evaluation_compared"] += 1
            ob = d["binds"].get(b)
            tb = d["binds"][tgt]
            if ob is None or ob != tb:
                fail("C19/definition/wrong-scope-vs-evaluation",
                     "use %d of `%s`: the running program read binding occurrence %d %s, the server points at occurrence %d %s"
                     % (oid, name, b, ob, tgt, tb), text=d["text"], request=step, reply=result, lib=d["lib"])


def classify_range(fail, st, d, meta, step, rg, oid, how, what):
    if oid is None:
        return
    if how != "u16":
        classify_known_out(fail, st, d, step, rg, what + " range", d["geo"])


def classify_known_out(fail, st, d, step, rg, what, geo):
    st["known_out"] += 1
    line = rg["start"]["line"]
    fail(K_OUT, "%s %s is given in Unicode scalar columns: line %d has %d astral character(s) before it, so the UTF-16 range "
         "would start at character %d (the text at the returned range, read in UTF-16 units, is %r)"
         % (what, json.dumps(rg), line, geo.astral_before(line, rg["start"]["character"]),
            rg["start"]["character"] + geo.astral_before(line, rg["start"]["character"]),
            geo.slice16(rg) if range_ok(geo, rg) else None),
         text=geo.text, request=step, range=rg)


def minimal_case(case, k):
    """The session cut after step k, keeping only opens/changes and the failing step."""
    if k is None:
        return case
    steps = [s for s in case["steps"][:k] if s["do"] != "req"] + [case["steps"][k]]
    return dict(case, steps=steps)


# =====================================================================================================
# scope-tagged evaluation and the Coq model

def run_tagged(ctx, docs):
    cases = [{"src": d["text"], "mods": ([{"name": d["libname"], "src": d["lib"]["text"]}] if d["lib"] else []), "opts": {}} for d in docs]
    rc, log, res = sv.run_harness_sharded(ctx, "eval", cases, timeout=600)
    obs = {}
    complete = 0
    nobs = 0
    for d, r in zip(docs, res):
        o = {}
        if r and r.get("steps"):
            s0 = r["steps"][0]
            if "ok" in s0["out"]:
                complete += 1
            for rec in s0["tr"]:
                m = re.match(r'^\[(?:"call",)?i(\d+),(.*)\]$', rec)
                if not m:
                    continue
                tags = re.findall(r"b(\d+)", m.group(2))
                if tags and rec.startswith('["call"'):
                    o.setdefault(int(m.group(1)), set()).add(int(tags[0]))
                elif tags:
                    o.setdefault(int(m.group(1)), set()).add(int(tags[0]))
        obs[id(d)] = o
        nobs += sum(len(v) for v in o.values())
    return obs, {"programs_completed": complete, "observations": nobs}


def run_bind_model(ctx, docs):
    files = []
    nshard = 4 if ctx.quick() else 12
    for s in range(nshard):
        part = docs[s::nshard]
        if not part:
            continue
        text = ("From Coq Require Import NArith String List.\nFrom SV Require Import Lsp.Bind Lsp.Cases.\n"
                "Import ListNotations.\nOpen Scope string_scope.\nOpen Scope N_scope.\n")
        for d in part:
            text += "Eval vm_compute in (def_rows %s [%s]).\n" % (d["coq"], ";".join(str(u) for u in sorted(d["uses"])))
        files.append(("bind_%d" % s, text))
    outs = sv.coq_eval_files(ctx, files, timeout=600)
    model = {}
    log = ""
    for s, (rc, out) in enumerate(outs):
        part = docs[s::nshard]
        vals = sv.coq_values(out)
        if rc != 0 or len(vals) != len(part):
            log += out[-300:]
            continue
        for d, v in zip(part, vals):
            model[id(d)] = {u: tuple(row) for u, row in zip(sorted(d["uses"]), v)}
    return model, log


# =====================================================================================================
# positions: CodeMap vs Lsp/Pos.v vs the specification

def pos_texts(rng, n):
    out = ["", "\n", "a", "a\n", "\r\n", "a\r\nb", "\U0001F600", "x = \"\U0001F600\"; y\n", "é\n\U0001F600z", "\n\n\n", "a\rb\n"]
    alpha = ["a", "b", " ", "\n", "\n", "\r\n", "é", "中", "\U0001F600", "\U00010348", "\t", "=", "x"]
    for _ in range(n):
        out.append("".join(rng.choice(alpha) for _ in range(rng.randrange(1, 40))))
    return out


def pos_prepare(ctx):
    rng = ctx.rng
    import random
    rng = random.Random(ctx.seed + 17)      # own stream: runs in a thread next to the document generator
    texts = pos_texts(rng, ctx.n(24, 400))
    cases = []
    for t in texts:
        nb = len(t.encode("utf-8"))
        cases.append({"op": "codemap", "text": t, "offsets": list(range(0, nb + 1))})
    rc, log, res = sv.run_harness_sharded(ctx, "lsp", cases, timeout=300)
    return cases, res


def pos_model(ctx, cases, res, failures, st):
    files = []
    nshard = 2 if ctx.quick() else 6
    for s in range(nshard):
        part = cases[s::nshard]
        if not part:
            continue
        text = ("From Coq Require Import NArith List.\nFrom SV Require Import Lsp.Pos Lsp.Cases.\nImport ListNotations.\nOpen Scope N_scope.\n")
        for c in part:
            text += "Eval vm_compute in (pos_rows [%s] [%s]).\n" % (";".join(str(ord(ch)) for ch in c["text"]), ";".join(map(str, c["offsets"])))
        files.append(("pos_%d" % s, text))
    outs = sv.coq_eval_files(ctx, files, timeout=600)
    for s, (rc2, out) in enumerate(outs):
        part = list(zip(cases, res))[s::nshard]
        vals = sv.coq_values(out)
        if rc2 != 0 or len(vals) != len(part):
            failures.append({"key": "model-run-failed", "what": "coqc failed on position cases: " + out[-300:], "replay": {"out": out[-800:]}})
            continue
        for (c, r), rows in zip(part, vals):
            t = c["text"]
            geo = Geo(t)
            if r is None or "panic" in r:
                failures.append({"key": "C19/crash/codemap", "what": "CodeMap panicked on %r: %s" % (t, r), "replay": {"case": c}})
                continue
            if r["lines"] != geo.nlines:
                failures.append({"key": "C19/position/line-count", "what": "%r: %d lines, expected %d" % (t, r["lines"], geo.nlines), "replay": {"case": c}})
            b = t.encode("utf-8")
            for off, got, row in zip(c["offsets"], r["res"], rows):
                st["positions"] += 1
                # specification: the line containing the offset; characters of that line wholly before the offset
                pre = b[:off]
                while True:
                    try:
                        ptxt = pre.decode("utf-8")
                        break
                    except UnicodeDecodeError:
                        pre = pre[:-1]
                line = ptxt.count("\n")
                ltxt = ptxt.rsplit("\n", 1)[-1]
                spec = (line, len(ltxt), u16len(ltxt))
                impl = (got[0], got[1], got[2])
                mdl = (row[0], row[1], row[2], row[3], row[4])
                if impl != (spec[0], spec[0], spec[1]):
                    failures.append({"key": "C19/position/line-col-wrong", "what": "%r offset %d: find_line/resolve = %s, the text says line %d column %d"
                                     % (t, off, impl, spec[0], spec[1]), "replay": {"case": {"op": "codemap", "text": t, "offsets": [off]}}})
                if mdl != (spec[0], spec[0], spec[1], spec[2], spec[0]) or (got[3], got[4]) != (got[1], got[2]):
                    failures.append({"key": "C19/position/model-differs", "what": "%r offset %d: Coq model %s, implementation %s, text says %s"
                                     % (t, off, mdl, got, spec), "replay": {"case": {"op": "codemap", "text": t, "offsets": [off]}}})
                if spec[1] != spec[2] and got[4] == spec[1]:
                    st["range_conversion_scalar"] += 1


# =====================================================================================================
# source positions in errors

def errspan_cases(rng, n):
    cases = []
    plants = [('fail("e%d")', 'fail("e%d")'), ("[1, 2][%d]", "[1, 2][%d]"), ("(%d // ZERO)", "%d // ZERO"), ("nosuch%d", "nosuch%d"),
              ("len(%d)", "len(%d)"), ('{"k": 1}["m%d"]', '{"k": 1}["m%d"]'), ("int(\"q%d\")", "int(\"q%d\")")]
    for i in range(n):
        k = 100 + i
        tmpl, exp = plants[i % len(plants)]
        expr, expect = tmpl % k, exp % k
        eol = rng.choice(["\n", "\n", "\r\n"])
        deco = "".join(rng.choice(DECOR[:6]) for _ in range(rng.randrange(0, 3)))
        lines = ["ZERO = 0"]
        for _ in range(rng.randrange(0, 4)):
            lines.append(rng.choice(['s%d = "%s"' % (rng.randrange(9), rng.choice(DECOR[:6])), "# %s" % rng.choice(DECOR[:6]), "", "pass"]))
        shape = rng.randrange(4)
        if shape == 0:
            lines.append(('"%s"; ' % deco if deco else "") + "v = " + expr)
        elif shape == 1:
            lines += ["def f(a):", ('    "%s"; ' % deco if deco else "    ") + "return [a, " + expr + "]", 'f("%s")' % deco]
        elif shape == 2:
            lines.append("w = [\"%s\", %s][1]" % (deco, expr))
        else:
            lines += ["for i in [\"%s\"]:" % deco, "  t = (\"%s\", %s)" % (deco, expr)]
        lines.append("z = 1")
        src = eol.join(lines) + (eol if rng.random() < 0.8 else "")
        cases.append({"op": "errspan", "src": src, "expect": expect})
    return cases


def check_errspans(ctx, failures, st):
    cases = errspan_cases(ctx.rng, ctx.n(84, 1200))
    rc, log, res = sv.run_harness_sharded(ctx, "lsp", cases, timeout=300)
    for c, r in zip(cases, res):
        st["error_programs"] += 1
        if r is None or "panic" in (r or {}) or "err" not in r:
            failures.append({"key": "C19/error-span/no-error", "what": "planted failure did not fail or crashed: %s" % json.dumps(r)[:200], "replay": {"case": c}})
            continue
        e = r["err"]
        src = c["src"]
        geo = Geo(src)
        at = src.find(c["expect"])
        if e.get("span") is None and "begin" not in e:
            failures.append({"key": "C19/error-span/missing", "what": "error without a span: %s" % e["msg"][:100], "replay": {"case": c}})
            continue
        pa, pb = geo.pos(at), geo.pos(at + len(c["expect"]))
        want = {"text": c["expect"], "bl": pa["line"], "bc": pa["scalar"], "el": pb["line"], "ec": pb["scalar"],
                "begin": len(src[:at].encode("utf-8")), "end": len(src[:at + len(c["expect"])].encode("utf-8"))}
        got = {k: e.get(k) for k in want}
        if got != want:
            failures.append({"key": "C19/error-span/wrong-position", "what": "error `%s`: span %s, the failing expression %r is at %s"
                             % (e["msg"][:60], got, c["expect"], want), "replay": {"case": c, "impl": e}})
            continue
        st["error_spans_ok"] += 1
        # the same span as an LSP range (what a diagnostic for this error carries): must be UTF-16
        rg = e["range"]
        want16 = {"start": {"line": pa["line"], "character": pa["u16"]}, "end": {"line": pb["line"], "character": pb["u16"]}}
        if rg != want16:
            if pa["u16"] != pa["scalar"] and rg["start"]["character"] == pa["scalar"]:
                st["known_out"] += 1
                failures.append({"key": K_OUT, "what": "error span of %r converted to an LSP range gives %s; in UTF-16 units it is %s "
                                 "(scalar column %d, UTF-16 column %d)" % (c["expect"], json.dumps(rg), json.dumps(want16), pa["scalar"], pa["u16"]),
                                 "replay": {"case": c, "impl": e}})
            else:
                failures.append({"key": "C19/error-span/range-conversion", "what": "range %s, expected %s" % (json.dumps(rg), json.dumps(want16)),
                                 "replay": {"case": c, "impl": e}})


# =====================================================================================================

def gen_docs(ctx, n):
    rng = ctx.rng
    docs = []
    for i in range(n):
        cfg = {"eol": rng.choice(["\n", "\n", "\r\n"]), "tabs": rng.random() < 0.25, "final_nl": rng.random() < 0.8,
               "decor": rng.choice([0.0, 0.3, 0.6, 0.9]), "size": rng.choice([3, 6, 10, 14]), "with_load": rng.random() < 0.3}
        d = make_doc(rng, cfg["size"], cfg["decor"], eol=cfg["eol"], tabs=cfg["tabs"], final_nl=cfg["final_nl"],
                     with_load=cfg["with_load"], libname="lib%d.star" % i)
        d["geo"] = Geo(d["text"])
        docs.append(d)
    return docs


def corpus_docs():
    """Hand-written boundary documents (corpus/C19/docs.json): text + occurrences are recomputed by a tokenizer-free
    description: each entry lists the identifier occurrences explicitly."""
    p = os.path.join(sv.ROOT, "corpus", "C19", "docs.json")
    if not os.path.exists(p):
        return []
    return json.load(open(p, encoding="utf-8"))


def run_corpus(ctx, failures, st):
    """Plain documents (no instrumentation): only crash-freedom and well-formedness, plus explicit expectations."""
    entries = corpus_docs()
    cases, metas = [], []
    for e in entries:
        text = e["text"]
        geo = Geo(text)
        steps = [{"do": "open", "uri": URI, "text": text, "version": 1}]
        for ln in range(geo.nlines + 1):
            width = u16len(geo.line_text(ln)) if ln < geo.nlines else 0
            for ch in range(width + 2):
                for m in ("textDocument/definition", "textDocument/hover", "textDocument/completion"):
                    steps.append({"do": "req", "method": m, "params": tdp(URI, ln, ch)})
        steps.append({"do": "close", "uri": URI})
        cases.append({"op": "session", "files": e.get("files", {}), "steps": steps, "deadline_ms": 60000})
        metas.append(e)
    if not cases:
        return
    rc, log, res = sv.run_harness_sharded(ctx, "lsp", cases, timeout=600)
    for c, e, r in zip(cases, metas, res):
        geo = Geo(e["text"])
        if r is None or r.get("crash") or "panic" in r:
            failures.append({"key": "C19/crash/server-panic", "what": "corpus document %s: %s" % (e["name"], (r or {}).get("crash") or r),
                             "replay": {"case": c}})
            continue
        for step, sr in zip(c["steps"], r["steps"]):
            st["steps"] += 1
            if sr.get("skipped"):
                continue
            if sr.get("status") != "ok":
                failures.append({"key": "C19/no-reply/%s" % (step.get("method") or step["do"]), "what": "corpus %s: no reply to %s" % (e["name"], json.dumps(step)[:200]),
                                 "replay": {"case": c}})
                break
            payload = sr.get("resp", {}).get("result") if step["do"] == "req" else [n["params"] for n in sr["notifs"] if n["method"].endswith("publishDiagnostics")]
            if step["do"] == "req":
                st["requests"] += 1
            for path, rg in all_ranges(payload):
                st["ranges"] += 1
                g2 = geo
                if path.endswith("targetRange") or path.endswith("targetSelectionRange"):
                    turi = payload[int(path.split("/")[1])].get("targetUri") if isinstance(payload, list) else None
                    if turi != URI:
                        ttext = e.get("files", {}).get((turi or "").replace("file://", ""))
                        if ttext is None:
                            continue
                        g2 = Geo(ttext)
                if not range_ok(g2, rg):
                    al = e.get("alias")
                    if (al and step.get("method", "").endswith("completion") and rg["start"]["line"] == al[0]
                            and rg["start"]["character"] == al[1] + 1 and rg["end"]["character"] == al[2] - 1):
                        st["known_alias"] = st.get("known_alias", 0) + 1
                        failures.append({"key": K_ALIAS, "what": "corpus %s: completion at %s on the alias of a load returns the text edit range %s"
                                         % (e["name"], json.dumps(step["params"]["position"]), json.dumps(rg)),
                                         "replay": {"text": e["text"], "request": step, "reply": payload, "files": e.get("files")}})
                        continue
                    failures.append({"key": "C19/range/out-of-document/%s" % (step.get("method", step["do"]).split("/")[-1]),
                                     "what": "corpus %s: %s -> range %s is not a valid UTF-16 range" % (e["name"], json.dumps(step)[:160], json.dumps(rg)),
                                     "replay": {"text": e["text"], "request": step, "reply": payload}})
            # explicit expectations: {"at": [line, u16 char], "target": [line, u16 start, u16 end] | null}
            if step["do"] == "req" and step["method"].endswith("definition"):
                pos = step["params"]["position"]
                for ex in e.get("expect", []):
                    if ex["at"] == [pos["line"], pos["character"]]:
                        st["definition_requests"] += 1
                        got = None
                        if payload:
                            tr = payload[0]["targetRange"]
                            got = [tr["start"]["line"], tr["start"]["character"], tr["end"]["character"]]
                        if got != ex["target"]:
                            scal = ex.get("scalar_target")
                            pre = geo.line_text(pos["line"])
                            nonascii = any(ord(ch) > 127 for ch in pre[:geo.cp_of(pos["line"], pos["character"], "u16") - geo.starts[pos["line"]]]) if geo.cp_of(pos["line"], pos["character"], "u16") is not None else False
                            if got is not None and scal is not None and got == scal:
                                key, w = K_OUT, "target given in scalar columns"
                                st["known_out"] += 1
                            elif nonascii:
                                key, w = K_IN, "cursor column read as a byte offset"
                                st["known_in"] += 1
                            else:
                                key, w = "C19/definition/corpus-expectation", "unexpected answer"
                            failures.append({"key": key, "what": "corpus %s: definition at %s -> %s, expected %s (%s)" % (e["name"], ex["at"], got, ex["target"], w),
                                             "replay": {"text": e["text"], "request": step, "reply": payload}})


def correspond(ctx):
    failures = []
    st = {k: 0 for k in ("steps", "requests", "ranges", "diagnostics", "definition_requests", "definitions_resolved", "model_compared",
                         "evaluation_compared", "known_out", "known_in", "positions", "range_conversion_scalar", "error_programs",
                         "error_spans_ok")}
    run_corpus(ctx, failures, st)
    ctx.log("corpus: %d steps, %d failures so far" % (st["steps"], len(failures)))
    import threading
    ndocs = ctx.n(48, 1500)
    docs = gen_docs(ctx, ndocs)
    feat = {}
    for d in docs:
        for k, v in d["feat"].items():
            feat[k] = feat.get(k, 0) + v
    ctx.log("generated %d documents, %d identifier occurrences" % (len(docs), sum(len(d["occ"]) for d in docs)))
    # the Coq models (coqc, cases.v route) run concurrently with the harness work
    box = {}
    pos_fail, pos_st = [], {"positions": 0, "range_conversion_scalar": 0}
    th1 = threading.Thread(target=lambda: box.__setitem__("model", run_bind_model(ctx, docs)))
    pcases, pres = pos_prepare(ctx)
    th2 = threading.Thread(target=lambda: pos_model(ctx, pcases, pres, pos_fail, pos_st))
    th1.start()
    th2.start()
    tagobs, est = run_tagged(ctx, docs)
    ctx.log("scope-tagged evaluation: %s" % est)
    sessions = []
    for i, d in enumerate(docs):
        d2 = docs[(i + 1) % len(docs)]
        case, plan = build_session(ctx.rng, d, d2, i)
        sessions.append((case, plan))
    rc, log, res = sv.run_harness_sharded(ctx, "lsp", [c for c, _ in sessions], timeout=1500)
    ctx.log("server sessions done (rc=%s)" % rc)
    check_errspans(ctx, failures, st)
    th1.join()
    th2.join()
    model, mlog = box.get("model", ({}, "model thread failed"))
    broken = []
    if len(model) != len(docs):
        broken.append(("model-run", "Coq model evaluated %d of %d documents: %s" % (len(model), len(docs), mlog[-300:])))
    ctx.log("Coq model evaluated on %d documents" % len(model))
    for (case, plan), r in zip(sessions, res):
        check_session(case, plan, r, failures, st, tagobs, model)
    ctx.log("sessions checked: %s" % {k: st[k] for k in ("requests", "ranges", "definition_requests", "definitions_resolved", "model_compared",
                                                          "evaluation_compared", "known_out", "known_in")})
    failures += pos_fail
    for k, v in pos_st.items():
        st[k] = st.get(k, 0) + v
    ctx.log("positions=%d error programs=%d (spans ok %d) failures=%d" % (st["positions"], st["error_programs"], st["error_spans_ok"], len(failures)))
    shadow = sum(1 for d in docs for u, sid in d["spec"].items() if sid not in (None, 0))
    dist = {"eol_crlf": sum(1 for d in docs if d["cfg"]["eol"] == "\r\n"), "tabs": sum(1 for d in docs if d["cfg"]["tabs"]),
            "no_final_newline": sum(1 for d in docs if not d["cfg"]["final_nl"]), "with_load": sum(1 for d in docs if d["lib"]),
            "with_astral": sum(1 for d in docs if any(ord(c) >= 0x10000 for c in d["text"])),
            "with_non_ascii": sum(1 for d in docs if any(ord(c) > 127 for c in d["text"])), "features": feat}
    cov = {
        "evaluations": st["requests"] + st["positions"] + st["error_programs"],
        "distinct_nontrivial": st["definitions_resolved"],
        "rule": "one evaluation = one JSON-RPC request answered by the real server, one CodeMap offset resolved, or one failing program; "
                "non-trivial = go-to-definition requests on a use that resolved to a binding and were compared with the Coq model and "
                "with scope-tagged evaluation (uses read from a non-module scope: %d)" % shadow,
        "traces_validated_against_impl": st["model_compared"] + st["positions"],
        "stats": st, "tagged_evaluation": est, "input_distribution": dist, "exhaustive": False,
        "samples": [docs[0]["text"][:400], docs[len(docs) // 2]["text"][:400]],
    }
    return {"coverage": cov, "failures": failures, "broken": broken}


def search(ctx, broken):
    old = ctx.tier
    ctx.tier = "thorough"
    try:
        r = correspond(ctx)
    finally:
        ctx.tier = old
    return {"failures": [f for f in r["failures"]], "coverage": {"evaluations": r["coverage"]["evaluations"]}}


def replay(ctx, rep):
    """Re-run the recorded request(s) against the current server."""
    r = rep.get("replay", {})
    failures = []
    st = {k: 0 for k in ("steps", "requests", "ranges", "diagnostics", "definition_requests", "definitions_resolved", "model_compared",
                         "evaluation_compared", "known_out", "known_in", "positions", "range_conversion_scalar", "error_programs", "error_spans_ok")}
    if "case" in r and r["case"].get("op") in ("codemap", "errspan"):
        rc, log, res = sv.run_harness(ctx, "lsp", [r["case"]])
        return {"coverage": {"evaluations": 1, "samples": [res[0]]}, "failures": []}
    text = r.get("text")
    req = r.get("request")
    if text is None or req is None:
        return {"coverage": {}, "failures": []}
    files = {}
    if r.get("lib"):
        files = {"/ws/" + n: r["lib"]["text"] for n in re.findall(r'load\("([^"]+)"', text)}
    case = {"op": "session", "files": files, "deadline_ms": 60000, "steps": [{"do": "open", "uri": URI, "text": text, "version": 1}, req]}
    rc, log, res = sv.run_harness(ctx, "lsp", [case])
    out = res[0]
    geo = Geo(text)
    if out is None or out.get("crash"):
        failures.append({"key": rep.get("key"), "what": "still crashes: %s" % (out,), "replay": r})
    else:
        got = out["steps"][-1].get("resp", {}).get("result")
        if out["steps"][-1].get("status") != "ok":
            failures.append({"key": rep.get("key"), "what": "still no reply", "replay": r})
        elif got == r.get("reply"):
            failures.append({"key": rep.get("key"), "what": "same reply as recorded: %s" % json.dumps(got)[:300], "replay": r})
    return {"coverage": {"evaluations": 1, "distinct_nontrivial": 1, "samples": [out]}, "failures": failures}


META = {
    "category": "proof",
    "level_text": "Proof + tie, with three known findings. Coq (Properties/C19.v, 13 statements, closed under the global context): (a) positions - "
                  "in the model of CodeMap (line table from \\n, slice::binary_search, clamp_pos, byte slicing, scalar counting) find_line returns, for "
                  "EVERY byte offset (CRLF, last line without newline, inside a multi-byte character, past the end), the one line of the table whose "
                  "span contains the offset; for offsets on character boundaries the text counted by find_line_col is exactly the segment between that "
                  "line's start and the offset, offset_of(find_line_col off) = off, and the produced position lies in the document; the produced column "
                  "equals the protocol's UTF-16 column IF AND ONLY IF no astral character is in that segment, is never larger, and is refuted in general "
                  "(witness: U+1F600 before an identifier). (b) name resolution - for the whole modelled fragment (module/def/lambda/comprehension "
                  "scopes, parameter defaults and first iterable outside, names assigned later in a body, augmented assignment, tuple targets, load: "
                  "every shadowing pattern) bind.rs + find_definition_in_scope return a binding occurrence of the same name that belongs to exactly the "
                  "scope the declarative run-time rule reads, and return nothing only for builtins/non-uses. Not proved (tested by the tie on every "
                  "run): round trip for offsets strictly inside a multi-byte character (floor_char_boundary), validity of positions in UTF-16 units. "
                  "Tie on every run: the real server over in-memory JSON-RPC on generated documents x every identifier occurrence x other positions x "
                  "open/change(broken)/change/close histories: reply under a deadline, every range valid in UTF-16, definition target = Coq model and = "
                  "the scope observed by scope-tagged evaluation on the real evaluator; CodeMap vs the model on every byte offset of generated texts; "
                  "error spans vs the planted failing expression.",
    "level_note": "Trusted: Coq kernel; harness bins lsp/eval; the generator/validator in tools/props/C19.py; the scoping view of MiniStar in Lsp/Bind.v "
                  "(operators collapsed; dotted access = its root; type annotations not modelled). The Rust bind.rs/definition.rs/codemap.rs are tied to the "
                  "models by differential testing, not proof. Completion/hover contents are checked for well-formed ranges only. Known findings: columns "
                  "are Unicode scalar counts (outbound) and the cursor column is read as a byte offset (inbound).",
    "technique": "Coq proof (mutual induction over the scoping syntax; binary search refinement) + real LSP server over Connection::memory() + "
                 "scope-tagged evaluation + cases.v model comparison",
    "design_ref": "DESIGN.md section 4 C19, section 9 F5",
}
