"""C07 Evaluation is total and recoverable: a value or a located error, never a crash.

Proof (coq/EvalState, Properties/C07.v): the evaluator's bookkeeping (call-stack count and slots, frame stack,
current frame, alloca pointer, module def-info, thread-local recursion/cycle guards) as a state machine whose
bracketed operations mirror with_call_stack / alloca_frame / eval_module / stack_guard / repr+json guards; for EVERY
computation tree and every subset of failing leaves the state is restored, outcomes do not depend on stale slots,
any history of evaluations leaves an evaluator on which a probe behaves as on a fresh one; over MiniStar (Core/Sem.v)
every builtin and method is total on every argument list and every failure of a program carries a line of the program.

Tie / search (the no-crash half cannot be carried by a model, DESIGN section 6): the `total` harness, in child processes:
 (1) native sweep: the implementation's own catalogue (globals, namespace members, dir() of a value of every builtin
     type) x argument tuples without type discipline; no panic/abort/hang; every error located;
 (2) recoverability: histories of 1-20 evaluations on ONE evaluator+module with planted failures at random
     call/loop/callback depths; call_stack_count()==0 and a fixed probe behaves as on a fresh evaluator after every step;
     each step's outcome equals the outcome of the same program alone on a fresh evaluator; the failure's line, call-stack
     frame names and the model's prediction (EvalState/Cases.v) agree;
 (3) MiniStar subset: outcome class equals the reference interpreter's (Core/Sem.v, vm_compute)."""
import concurrent.futures
import json
import os
import re

import sv
from gen import progs

PROP = "C07"
HARNESS_BINS = ["total"]
COQ_TARGETS = ["Properties/C07.vo", "EvalState/Cases.vo"]
TRUSTED = ["harness bin total (catch_unwind per step, watchdog thread, span/call-stack validation against the file texts)",
           "tools/gen/progs.py (MiniStar program generator shared with C01) and the failure-nest generator in tools/props/C07.py",
           "cases.v route: EvalState/Cases.v and Core/Sem.v evaluated by vm_compute inside coqc"]
ASSUMPTIONS = ["'never panics/aborts' is established by search over the implementation's own native catalogue x an argument catalogue and "
               "over failure histories, not by proof (no Gallina model can carry ~110k lines of Rust); the theorems cover the state-recovery "
               "discipline and builtin totality on the model",
               "calls that request an allocation proportional to an integer argument of 2^31-1 (e.g. str.rjust(2^31-1)) may be cut by the "
               "memory/time budget of the child process; they are counted as resource-bounded, not as crashes",
               "evaluations run on a thread with a 16 MiB native stack; MAX_RECURSION is the debug-assertions value (200)"]

ARITY_PAT = re.compile(r"Missing (named-only |positional-only )?parameter|Wrong number of positional|[Ee]xtra (positional|named)|"
                       r"[Uu]nexpected parameter|unexpected keyword|Too many positional|Found `?.*`? extra|expected at most|"
                       r"got multiple values|Argument `.*` occurs more than once|occurs more than once|repeated|"
                       r"Missing required|Too many arguments|accepts no arguments|takes no arguments")

# ------------------------------------------------------------------------------------------------------------
# prelude of the sweep: factories of receivers and arguments (a fresh value per call), shared constants
PRELUDE = '''\
def c07_id(x):
    return x
def c07_fail(*a, **k):
    fail("callback failed")
def c07_two(a, b):
    return a
def c07_selflist():
    a = []
    a.append(a)
    return a
def c07_selfdict():
    d = {}
    d["k"] = d
    return d
def c07_mutual():
    a = []
    b = [a]
    a.append(b)
    return a
def c07_nest(n):
    x = (1,)
    for _ in range(n):
        x = (x,)
    return x
def c07_nestl(n):
    x = [1]
    for _ in range(n):
        x = [x]
    return x
c07_Rec = record(a = int, b = field(str, "x"))
c07_En = enum("A", "B")
c07_BIGSTR = "ab" * (1 << 20)
c07_DEEP = c07_nest(3000)
c07_DEEPL = c07_nestl(3000)
'''

RECEIVERS = [
    ("none", "None"), ("bool", "True"), ("int", "7"), ("negint", "(-1)"), ("bigint", "(1 << 70)"), ("float", "1.5"),
    ("nan", 'float("nan")'), ("inf", 'float("inf")'), ("str", '"hello world"'), ("emptystr", '""'),
    ("unistr", '"héllo wörld ✓ \U0001F600"'), ("list", "[1, 2, 3]"), ("emptylist", "[]"), ("selflist", "c07_selflist()"),
    ("tuple", '(1, "a")'), ("emptytuple", "()"), ("dict", '{"a": 1, "b": 2}'), ("emptydict", "{}"), ("selfdict", "c07_selfdict()"),
    ("set", "set([1, 2])"), ("range", "range(5)"), ("emptyrange", "range(0)"), ("bigrange", "range(-(1 << 31), (1 << 31) - 1, 7)"),
    ("struct", 'struct(a = 1, b = "x")'), ("rectype", "c07_Rec"), ("rec", "c07_Rec(a = 1)"), ("enumtype", "c07_En"),
    ("enumval", 'c07_En("A")'), ("function", "c07_id"), ("lambda", "(lambda x: x)"), ("partial", "partial(c07_two, 1)"),
    ("boundmethod", "[1].append"), ("native", "len"), ("typeint", "int"), ("typelist", "list[int]"), ("typingany", "typing.Any"),
    ("callable", "typing.Callable"), ("ns_json", "json"), ("ns_typing", "typing"), ("namespace", "namespace(a = 1)"),
    ("field", "field(int)"), ("evaltype", "eval_type(int)"), ("bigstr", "c07_BIGSTR"), ("deep", "c07_DEEP"),
    ("strelems", '"abc".elems()'), ("dictkeys", '{"a": 1}.keys()'), ("internal", "starlark_rust_internal"),
]

I31, I32, I63, I64 = 1 << 31, 1 << 32, 1 << 63, 1 << 64


def ilit(z):
    return str(z) if z >= 0 else "(%d)" % z


INT_ARGS = [0, 1, -1, 2, 1 << 16, 1 << 20, I31 - 1, I31, -I31, -I31 - 1, I32 - 1, I32, I63 - 1, I63, -I63, -I63 - 1, I64 - 1, I64, -I64,
            1 << 256, -(1 << 256)]
def int_tag(z):
    a = abs(z)
    if a < 1 << 16:
        return "int:%d" % z
    for d, suf in ((0, ""), (1, "-1"), (-1, "+1")):
        if (a + d) & (a + d - 1) == 0:
            return "int:2^%d%s%s" % ((a + d).bit_length() - 1, suf, ":neg" if z < 0 else "")
    return "int:%d" % z


ARGS = [(int_tag(z), ilit(z)) for z in INT_ARGS]
ARGS += [("none", "None"), ("true", "True"), ("float", "1.5"), ("nan", 'float("nan")'), ("inf", 'float("inf")'), ("float:1e308", "1e308"),
         ("str:empty", '""'), ("str", '"a"'), ("str:fmt", '"{}%s{0}"'), ("str:uni", '"héllo \U0001F600"'), ("str:big", "c07_BIGSTR"),
         ("list:empty", "[]"), ("list", "[1, 2, 3]"), ("list:nested", "[[], [[]]]"), ("list:self", "c07_selflist()"),
         ("list:mutual", "c07_mutual()"), ("list:mixed", '[3, "a", None]'), ("tuple:empty", "()"), ("tuple", "(1,)"),
         ("dict:empty", "{}"), ("dict", '{"a": 1}'), ("dict:self", "c07_selfdict()"), ("dict:intkey", "{1: 2}"), ("set", "set([1])"),
         ("range", "range(3)"), ("struct", "struct(a = 1)"), ("fn", "c07_id"), ("fn:fail", "c07_fail"), ("lambda", "(lambda: 1)"),
         ("native", "len"), ("type", "int"), ("deep:tuple", "c07_DEEP"), ("deep:list", "c07_DEEPL"), ("pairs", '[("a", 1), ("b", 2)]'),
         ("enumval", 'c07_En("A")'), ("rec", "c07_Rec(a = 1)")]
ARG_BY = dict(ARGS)
SMALL_INT_TAGS = [t for t, _ in ARGS if t.startswith("int:") and "2^" not in t] + ["int:2^16"]
ALLOC_SUSPECT = {"int:2^31-1", "int:2^32-1", "int:2^32"}   # an accepted size near the i32/u32 limit: allocation proportional to it

SPECIAL_FORMS = [   # (shape, text after the callee)
    ("kw:unknown", "(c07_nope = 1)"), ("kw:unknown+pos", '("a", c07_nope = 1)'), ("kw:dup", "(x = 1, x = 2)"),
    ("star:int", "(*1)"), ("star:none", "(*None)"), ("star:str", '(*"ab")'), ("star:selflist", "(*c07_selflist())"),
    ("star:list3", "(*[1, 2, 3])"), ("star:range64", "(*range(64))"), ("dstar:int", "(**1)"), ("dstar:list", "(**[1])"),
    ("dstar:intkey", "(**{1: 2})"), ("dstar:ok", '(**{"a": 1})'), ("dstar:self", "(**c07_selfdict())"),
    ("star+dstar", '(*[1], **{"key": c07_fail})'), ("kw:key=fail", "([3, 1, 2], key = c07_fail)"), ("kw:key=none", "([3, 1, 2], key = None)"),
    ("kw:reverse=str", '([3, 1, 2], reverse = "x")'), ("cb:fail,list", "(c07_fail, [1, 2])"), ("cb:int,list", "(1, [1, 2])"),
    ("kw:dstar-dup", '(x = 1, **{"x": 2})'), ("many", "(" + ", ".join(["1"] * 300) + ")"),
]

OPERATORS = ["+", "-", "*", "/", "//", "%", "&", "|", "^", "<<", ">>", "==", "!=", "<", "<=", "in", "not in", "and", "or"]

PROBE = '''\
def p7_fib(n):
    return n if n < 2 else p7_fib(n - 1) + p7_fib(n - 2)
def p7_mk(n):
    x = [n]
    for _ in range(n):
        x = [x]
    return x
p7_l = [3, 1, 2]
p7_l.append(4)
p7_d = {"k": [1, 2], "z": None}
p7_d["n"] = 1 << 70
emit(sorted(p7_l, key = lambda v: -v))
emit([p7_fib(i) for i in range(9)])
emit({k: repr(v) for k, v in p7_d.items()})
emit(json.encode(p7_d))
emit(p7_mk(@EQD@) == p7_mk(@EQD@))
emit(repr(p7_mk(5)))
emit("%s|%d|{}".format(7) % ("a", 3))
emit(len(call_stack().splitlines()) if False else 0)
p7_s = struct(a = 1, b = [p7_l])
emit(hash("abc") == hash("abc"))
emit(str(p7_s))
p7_l.pop()
p7_d.pop("k")
emit((p7_l, p7_d))
'''


# ------------------------------------------------------------------------------------------------------------
# running cases in child processes; a process that dies is bisected to the offending case
def rc_name(rc):
    if rc == 97:
        return "timeout"
    if rc == 98:
        return "memory"
    if rc in (134, -6):
        return "abort"
    if rc in (139, -11):
        return "segv"
    if rc in (124, 137, -9):
        return "killed"
    return "rc%s" % rc


def run_resilient(ctx, cases, tag, timeout=900):
    """Returns (results, deaths): results[i] is the harness result or None; deaths = [(index, rc-name, stderr tail)] for every
    case whose process died (each confirmed by running the case alone)."""
    res = [None] * len(cases)
    deaths = []
    pending = list(range(len(cases)))
    rounds = 0
    while pending and rounds < 40:
        rounds += 1
        sub = [cases[i] for i in pending]
        if rounds == 1:
            rc, log, out = sv.run_harness_sharded(ctx, "total", sub, timeout=timeout)
            shards = max(1, min(sv.NPROC, len(sub)))
        else:
            shards = max(1, min(sv.NPROC, len(sub)))
            parts = [sub[k::shards] for k in range(shards)]
            out = [None] * len(sub)
            with concurrent.futures.ThreadPoolExecutor(max_workers=shards) as ex:
                futs = {ex.submit(sv.run_harness, ctx, "total", parts[k], "%s.r%d.s%d" % (tag, rounds, k), timeout): k for k in range(shards)}
                for f in concurrent.futures.as_completed(futs):
                    k = futs[f]
                    _, _, r = f.result()
                    for j, x in enumerate(r):
                        out[k + j * shards] = x
        nxt = []
        for k in range(shards):
            idxs = list(range(k, len(sub), shards))
            first_none = next((j for j in idxs if out[j] is None), None)
            for j in idxs:
                if out[j] is not None:
                    res[pending[j]] = out[j]
            if first_none is None:
                continue
            # the first missing line of a shard is the case on which the process died: confirm it alone
            gi = pending[first_none]
            rc1, log1, r1 = sv.run_harness(ctx, "total", [cases[gi]], "%s.single%d" % (tag, gi), timeout=120)
            if r1[0] is not None and rc1 == 0:
                res[gi] = r1[0]
                res[gi]["_alone_ok_after_shard_death"] = True
            else:
                # the FIRST panic names the defect (later ones are consequences of evaluating on after it): keep it with the tail
                fp = re.search(r"PANIC at (\S+)", log1)
                deaths.append((gi, rc_name(rc1), ("PANIC at %s\n...\n" % fp.group(1) if fp else "") + log1[-300:]))
            nxt += [pending[j] for j in idxs if j > first_none]
        pending = sorted(nxt)
    for i in pending:
        deaths.append((i, "not-run", ""))
    return res, deaths


# ------------------------------------------------------------------------------------------------------------
# (1) native sweep
def catalogue(ctx):
    case = {"kind": "catalog", "prelude": PRELUDE, "exprs": [e for _, e in RECEIVERS], "timeout_ms": 60000}
    rc, log, r = sv.run_harness(ctx, "total", [case], "catalog", timeout=120)
    if rc != 0 or r[0] is None or "globals" not in r[0]:
        raise RuntimeError("catalogue failed: rc=%s %s %s" % (rc, log[-300:], r[0]))
    cat = r[0]
    callees = []       # (name for the key, expression text)
    for n, ty in sorted(cat["globals"]):
        if n.startswith("c07_"):
            continue
        if ty == "namespace":
            continue       # members come from dir() of the namespace value below
        callees.append(("global:" + n, n))
    seen = set()
    for (tag, expr), v in zip(RECEIVERS, cat["values"]):
        if "type" not in v:
            raise RuntimeError("catalogue: %s" % v)
        ty = v["type"]
        for a, aty, has in v["attrs"]:
            key = "%s.%s" % (ty, a)
            full = "%s:%s.%s" % (tag, ty, a)
            callees.append((full if key in seen else key, "%s.%s" % (expr, a)))
            seen.add(key)
        # the value itself as a callee (calling a non-callable is an error path)
        callees.append(("value:" + tag, expr))
    return callees, cat


def arg_tuples(rng, n):
    """n argument tuples: (shape, text) - arity 0, every single argument, then random pairs/triples and special forms."""
    out = [("()", "()")]
    out += [("(%s)" % t, "(%s)" % e) for t, e in ARGS]
    out += [(s, t) for s, t in SPECIAL_FORMS]
    k = 0
    while len(out) < n:
        k += 1
        ar = rng.choice([2, 2, 2, 3, 3, 4])
        picks = [rng.choice(ARGS) for _ in range(ar)]
        if rng.random() < 0.25:
            kw = rng.choice(["key", "default", "reverse", "start", "sep", "base", "x", "strict", "count", "end", "maxsplit", "step"])
            out.append(("(%s,%s=%s)" % (",".join(p[0] for p in picks[:-1]), kw, picks[-1][0]),
                        "(%s%s = %s)" % ("".join(p[1] + ", " for p in picks[:-1]), kw, picks[-1][1])))
        else:
            out.append(("(%s)" % ",".join(p[0] for p in picks), "(%s)" % ", ".join(p[1] for p in picks)))
    return out


def sweep_cases(ctx, callees, per_callee, per_case=24):
    rng = ctx.rng
    calls = []   # (callee, shape, expr)
    full = arg_tuples(rng, max(per_callee, 200))
    base = 1 + len(ARGS) + len(SPECIAL_FORMS)
    for name, expr in callees:
        if per_callee >= len(full):
            tuples = full
        else:
            # always: arity 0, a rotating selection of single arguments and special forms, random multi-argument tuples
            tuples = [full[0]] + rng.sample(full[1:1 + len(ARGS)], min(len(ARGS), per_callee // 2)) + \
                rng.sample(full[1 + len(ARGS):base], min(len(SPECIAL_FORMS), per_callee // 5))
            tuples += rng.sample(full[base:], max(0, min(len(full) - base, per_callee - len(tuples))))
        for shape, text in tuples:
            calls.append((name, shape, expr + text))
    # operators between catalogue values (no type discipline); `*` and `<<` with huge counts are excluded (allocation bombs)
    nops = int(ctx.n(400, 6000) * (SCALE if 'SCALE' in globals() else 1))
    for _ in range(nops):
        (ta, ea), (tb, eb) = rng.choice(ARGS), rng.choice(ARGS)
        op = rng.choice(OPERATORS)
        if op == "*" and any(t.startswith("int:") and t not in SMALL_INT_TAGS for t in (ta, tb)):
            continue
        if op == "*" and ("big" in ta or "big" in tb or "deep" in ta or "deep" in tb) and (ta.startswith("int:") or tb.startswith("int:")):
            continue
        calls.append(("op:" + op, "(%s,%s)" % (ta, tb), "(%s) %s (%s)" % (ea, op, eb)))
    for _ in range(nops // 3):
        (ta, ea), (tb, eb), (tc, ec) = rng.choice(ARGS), rng.choice(ARGS), rng.choice(ARGS)
        form = rng.choice(["index", "slice", "slice3", "unary", "attr", "fmt"])
        if form == "index":
            calls.append(("op:[]", "(%s,%s)" % (ta, tb), "(%s)[%s]" % (ea, eb)))
        elif form == "slice":
            calls.append(("op:[:]", "(%s,%s,%s)" % (ta, tb, tc), "(%s)[%s:%s]" % (ea, eb, ec)))
        elif form == "slice3":
            calls.append(("op:[::]", "(%s,%s,%s)" % (ta, tb, tc), "(%s)[%s::%s]" % (ea, eb, ec)))
        elif form == "unary":
            u = rng.choice(["-", "+", "~", "not "])
            calls.append(("op:unary" + u.strip(), "(%s)" % ta, "%s(%s)" % (u, ea)))
        elif form == "attr":
            calls.append(("op:.attr", "(%s)" % ta, "(%s).c07_missing" % ea))
        else:
            calls.append(("op:%fmt", "(%s,%s)" % (ta, tb), "(%s) %% (%s)" % (ea, eb)))
    rng.shuffle(calls)
    cases = []
    for k in range(0, len(calls), per_case):
        part = calls[k:k + per_case]
        files = [{"name": "prelude.star", "src": PRELUDE}]
        for j, (name, shape, expr) in enumerate(part):
            if (k + j) % 2 == 0:
                src = "c07_r = %s\n" % expr
            else:
                src = "def c07_f%d():\n    return %s\nc07_r = c07_f%d()\n" % (j, expr, j)
            files.append({"name": "call%d.star" % j, "src": src})
        cases.append({"kind": "run", "files": files, "probe": ctx.probe, "probe_each": False, "timeout_ms": 30000, "meta": part})
    return cases


def single_call_case(ctx, call, j=0):
    name, shape, expr = call
    return {"kind": "run", "files": [{"name": "prelude.star", "src": PRELUDE}, {"name": "call%d.star" % j, "src": "c07_r = %s\n" % expr}],
            "probe": ctx.probe, "probe_each": False, "timeout_ms": 30000, "meta": [call]}


def alloc_suspect(shape):
    return any(t in shape for t in ALLOC_SUSPECT)


def norm_callee(name):
    return re.sub(r"^[a-z_0-9]+:(?=[A-Za-z_\[\]]+\.)", "", name)


def check_step(step, where, call=None):
    """Requirements on one evaluation step -> list of (key-suffix, text)."""
    bad = []
    if "panic" in step:
        # the panic is the root cause; a non-empty call stack afterwards is its consequence (reported in the text)
        slug = re.sub(r"[^a-z0-9]+", "-", step["panic"].lower())[:48].strip("-")
        bad.append(("panic:" + slug, "panic: %s (call_stack_count() afterwards = %s)" % (step["panic"][:300], step.get("stack_after"))))
        return bad
    if step.get("stack_after") != 0:
        bad.append(("stack-not-empty", "call_stack_count() = %s after the evaluation" % step.get("stack_after")))
    e = step.get("err")
    if e:
        for b in e.get("bad", []):
            k = "no-span" if "no span" in b else "bad-span" if ("range" in b or "file" in b or "code map" in b) else \
                "bad-call-stack" if "call stack" in b else "render-panic" if "panic" in b else "located"
            bad.append((k, "%s | error: %s" % (b, e.get("msg", "")[:160])))
        if e.get("kind") == "Internal":
            bad.append(("internal-error", "internal error reported: %s" % e.get("msg", "")[:200]))
    p = step.get("probe")
    if p is not None:
        if "panic" in p:
            bad.append(("probe-panic", "probe panicked afterwards: %s" % p["panic"][:200]))
        elif not p.get("same"):
            bad.append(("probe-differs", "probe differs from a fresh evaluator afterwards: item %s here=%s fresh=%s out_here=%s out_fresh=%s"
                        % (p.get("first_diff"), p.get("here"), p.get("fresh"), p.get("out_here"), p.get("out_fresh"))))
        elif p.get("stack_after") != 0:
            bad.append(("stack-not-empty", "call_stack_count() = %s after the probe" % p.get("stack_after")))
    return bad


def run_sweep(ctx, cases, tag):
    failures = []
    st = {"calls": 0, "ok": 0, "err": 0, "arity": 0, "kinds": {}, "resource": 0, "nontrivial": set(), "callees": set(), "died": 0}
    res, deaths = run_resilient(ctx, cases, tag)
    # a case whose process died: re-run its calls one per case to find the offending call(s) exactly
    extra = []
    for gi, why, log in deaths:
        for call in cases[gi]["meta"]:
            extra.append(single_call_case(ctx, call))
    if extra:
        ctx.log("%d sweep case(s) died (%s); bisecting %d calls one per process batch" % (len(deaths), sorted({d[1] for d in deaths}), len(extra)))
        res2, deaths2 = run_resilient(ctx, extra, tag + ".bisect")
        dead2 = {i: (why, log) for i, why, log in deaths2}
        for i, c in enumerate(extra):
            call = c["meta"][0]
            if i in dead2:
                why, log = dead2[i]
                st["died"] += 1
                if why in ("timeout", "memory") and alloc_suspect(call[1]):
                    st["resource"] += 1
                    continue
                failures.append({"key": "%s:%s:%s" % (why, norm_callee(call[0]), crash_shape(call[1])),
                                 "what": "the process died (%s) evaluating `%s` (callee %s, arguments %s) %s" % (why, call[2][:200], call[0], call[1], log[-160:].strip()),
                                 "replay": {"kind": "call", "call": list(call), "death": why}})
        cases = list(cases) + extra
        res = list(res) + res2
    for c, r in zip(cases, res):
        if r is None:
            continue
        if "panic" in r:
            failures.append({"key": "panic:harness-case", "what": "panic outside a step: %s" % r["panic"][:300], "replay": {"kind": "case", "case": strip_case(c)}})
            continue
        steps = r["steps"]
        pre = steps[0]
        if "ok" not in pre:
            failures.append({"key": "prelude-failed", "what": "the sweep prelude did not evaluate: %s" % json.dumps(pre)[:300], "replay": {"kind": "case", "case": strip_case(c)}})
            continue
        for call, step in zip(c["meta"], steps[1:]):
            st["calls"] += 1
            name, shape, expr = call
            st["callees"].add(norm_callee(name))
            for k, text in check_step(step, "sweep", call):
                failures.append({"key": "%s:%s" % (k, norm_callee(name)), "what": "`%s` (callee %s, arguments %s): %s" % (expr[:200], name, shape, text),
                                 "replay": {"kind": "call", "call": list(call), "step": step}})
            if "ok" in step:
                st["ok"] += 1
                st["nontrivial"].add((norm_callee(name), shape))
            elif "err" in step:
                st["err"] += 1
                k = step["err"]["kind"]
                st["kinds"][k] = st["kinds"].get(k, 0) + 1
                if ARITY_PAT.search(step["err"].get("msg", "")):
                    st["arity"] += 1
                else:
                    st["nontrivial"].add((norm_callee(name), shape))
    return failures, st


def crash_shape(shape):
    return "deep" if "deep" in shape else "self" if "self" in shape or "mutual" in shape else "big" if "big" in shape else shape[:40]


def strip_case(c):
    return {k: v for k, v in c.items() if k != "probe"}


# ------------------------------------------------------------------------------------------------------------
# deep recursion: unbounded native recursion over deeply nested (acyclic) or self-containing values
DEEP_TARGETS = [
    ("repr", "repr(x)"), ("str", "str(x)"), ("hash", "hash(x)"), ("json.encode", "json.encode(x)"), ("eq", "x == y"), ("lt", "x < y"),
    ("dict-key", "{x: 1}"), ("in-list", "x in [y]"), ("format", '"{}".format(x)'), ("percent-s", '"%s" % (x,)'), ("print", "print(x)"),
    ("pprint", "pprint(x)"), ("fail-msg", "fail(x)"), ("sorted", "sorted([x, y])"), ("set-add", "set([x])"), ("bool", "bool(x)"), ("len", "len(x)"),
    ("list-add", "[x] + [y]"), ("type", "type(x)"), ("debug", "debug(x)"), ("struct-repr", "repr(struct(a = x))"), ("isinstance", "isinstance(x, list[int])"),
    ("min", "min(x, y)"), ("tuple-eq-list", "[x] == [y]"), ("json.decode-deep", 'json.decode("[" * @N@ + "]" * @N@)'),
    ("pstr", "pstr(x)"), ("prepr", "prepr(x)"), ("str-join", '",".join([x])'), ("dict-get", "{1: 2}.get(x)"), ("list-index", "[y].index(x)"),
    ("list-remove", "[y].remove(x)"), ("list-count", "(y,).count(x) if hasattr((), 'count') else [y].index(x)"), ("any", "any(x)"), ("reversed", "reversed(x)"),
    ("enumerate", "enumerate(x)"), ("zip", "zip(x, y)"), ("dict-update", "dict([(x, 1)])"), ("max-key", "max([x, y], key = repr)"),
]


# root-cause classes of the deep-recursion probes (used in the failure key): which unguarded native recursion a target reaches
DEEP_GROUP = {}
for _t in ("repr", "str", "format", "percent-s", "print", "pprint", "prepr", "pstr", "fail-msg", "struct-repr", "str-join", "list-remove", "max-key"):
    DEEP_GROUP[(_t, "tuple")] = DEEP_GROUP[(_t, "list")] = "repr"            # Value::collect_repr: cycle guard only, no depth guard
DEEP_GROUP[("hash", "list")] = "repr"                                       # the "not hashable" message renders the value
for _t in ("hash", "dict-key", "dict-get", "dict-update", "set-add"):
    DEEP_GROUP[(_t, "tuple")] = "hash"                                      # tuple write_hash recursion
DEEP_GROUP[("json.encode", "tuple")] = DEEP_GROUP[("json.encode", "list")] = "json"
DEEP_GROUP[("gc", "tuple")] = DEEP_GROUP[("gc", "list")] = "gc"
DEEP_GROUP[("debug", "tuple")] = DEEP_GROUP[("debug", "list")] = "debug"


QUICK_DEEP = {"repr", "hash", "json.encode", "debug", "eq", "lt", "len", "json.decode-deep"}


def deep_cases(ctx, depth):
    cases = []
    for mk, kind in (("c07_nest", "tuple"), ("c07_nestl", "list")):
        for name, expr in DEEP_TARGETS:
            if ctx.quick() and name not in QUICK_DEEP:
                continue
            src = ("def c07_go():\n    x = %s(%d)\n    y = %s(%d)\n    return %s\nc07_r = c07_go()\n" % (mk, depth, mk, depth, expr.replace("@N@", str(depth))))
            cases.append({"kind": "run", "files": [{"name": "prelude.star", "src": PRELUDE}, {"name": "deep.star", "src": src}],
                          "probe": ctx.probe, "probe_each": False, "disable_gc": True, "timeout_ms": 60000,
                          "meta": [("deep:%s" % name, "(%s-nest:%d)" % (kind, depth), src)]})
    # the collector itself (GC enabled): a deep value alive across a module-level statement boundary
    for mk, kind in (("c07_nest", "tuple"), ("c07_nestl", "list")):
        src = "c07_x = %s(%d)\nc07_y = [0] * 300000\nc07_z = 1\n" % (mk, depth)
        cases.append({"kind": "run", "files": [{"name": "prelude.star", "src": PRELUDE}, {"name": "deep.star", "src": src}],
                      "probe": ctx.probe, "probe_each": False, "timeout_ms": 60000,
                      "meta": [("deep:gc", "(%s-nest:%d)" % (kind, depth), src)]})
    return cases


def run_deep(ctx, depth, tag):
    cases = deep_cases(ctx, depth)
    res, deaths = run_resilient(ctx, cases, tag)
    failures = []
    dead = {i: (why, log) for i, why, log in deaths}
    n_ok = 0
    for i, c in enumerate(cases):
        name, shape, src = c["meta"][0]
        if i in dead:
            why, log = dead[i]
            kind = shape.split("-")[0].strip("(")
            grp = DEEP_GROUP.get((name.split(":", 1)[1], kind))
            failures.append({"key": "%s:deep-nesting:%s" % (why, grp) if grp else "%s:deep-nesting:other:%s:%s" % (why, name.split(":", 1)[1], kind),
                             "what": "the process died (%s: %s) on a deeply nested acyclic value, depth %d: %s" % (why, log.strip()[-120:], depth, src.splitlines()[3] if len(src.splitlines()) > 3 else src),
                             "replay": {"kind": "deep", "name": name, "shape": shape, "src": src, "depth": depth, "gc": not c.get("disable_gc", False)}})
            continue
        r = res[i]
        if r is None or "steps" not in r:
            failures.append({"key": "panic:%s" % name, "what": "no result for deep case %s: %s" % (name, r), "replay": {"kind": "deep", "src": src}})
            continue
        n_ok += 1
        for k, text in check_step(r["steps"][1], "deep"):
            failures.append({"key": "%s:%s" % (k, name), "what": "deep case %s %s: %s" % (name, shape, text),
                             "replay": {"kind": "deep", "name": name, "shape": shape, "src": src, "depth": depth, "gc": not c.get("disable_gc", False)}})
    return failures, {"deep_cases": len(cases), "deep_survived": n_ok}


# ------------------------------------------------------------------------------------------------------------
# (2) failure histories: programs with a planted failure under a random nest of calls / loops / callbacks
FAIL_OPS = [   # (tag, statement text that fails when executed, uses variable `v`)
    ("fail", 'fail("boom")'), ("zerodiv", "v // 0"), ("index", "[][v]"), ("key", '{}["k%d" % v]'), ("attr", "None.c07_x"),
    ("arity", "len(v, v)"), ("int-parse", 'int("x%d" % v)'), ("type", 'v + "a"'), ("pop-empty", "[].pop()"), ("not-callable", "v(1)"),
    ("range-big", "range(1 << 63)"), ("unhashable", "{[v]: 1}"), ("format", '"%d" % "x"'), ("format2", '"{}{}".format(v)'),
    ("str-index", '"abc"[1 << 70]'), ("mutate-iter", "MUT"), ("overflow", "REC"), ("unpack", "UNPACK"), ("json", "json.decode(\"[\" + str(v))"),
    ("shift", "(v + 1) << (1 << 40)"), ("kw", "c07h_id(v, nope = 1)"), ("star", "c07h_id(*v)"), ("getattr", 'getattr(v, "nope")'),
    ("enum", 'enum("A")("B")'), ("record", "record(a = int)(a = \"s\")"), ("deep-eq", "DEEPEQ"), ("chr", "chr(-1 - v)"), ("ord", 'ord("ab")'),
]
WRAPS = ["def", "def", "for-list", "for-range", "for-dict", "lcomp", "dcomp", "map", "filter", "sorted-key", "max-key", "if", "partial",
         "lambda", "recurse", "nested-def", "while-like", "method-cb", "dict-setdefault", "and-or"]


class NestGen:
    """One closed program: `depth` wrappers around a body that fails (when `fails`) with FAIL_OPS[k].  Records the line of the
    failing statement, the chain of frame names the error's call stack must contain in order, and the model tree (EvalState)."""

    def __init__(self, rng, uid):
        self.rng, self.uid, self.n = rng, uid, 0

    def name(self, p="f"):
        self.n += 1
        return "h%s_%s%d" % (self.uid, p, self.n)

    def build(self, depth, fails):
        rng = self.rng
        tag, op = rng.choice(FAIL_OPS)
        lines = ["def c07h_id(x, *a):", "    return x"]
        pre = []
        if op == "MUT":
            op_lines = ["ml = [1, 2, v]", "for mi in ml:", "    ml.append(mi)"]
        elif op == "REC":
            r = self.name("rec")
            pre = ["def %s(n):" % r, "    return %s(n + 1)" % r]
            op_lines = ["%s(v)" % r]
        elif op == "UNPACK":
            op_lines = ["ua, ub = [v]"]
        elif op == "DEEPEQ":
            op_lines = ["da = [v]", "db = [v]", "for di in range(400):", "    da = [da]", "    db = [db]", "da == db"]
        else:
            op_lines = ["hx = " + op]
        if not fails:
            op_lines = ["hx = v + 1"]
            tag = "none"
        lines += pre
        # innermost function: body with the failing statement
        inner = self.name()
        body = ["def %s(v):" % inner, "    emit(v)"] + ["    " + l for l in op_lines] + ["    emit(\"after\")", "    return v"]
        fail_rel = 2 + len(op_lines) - 1          # index (within body) of the last line of the failing construct
        if op == "MUT" and fails:
            fail_rel = 2 + 2
        if op == "DEEPEQ" and fails:
            fail_rel = 2 + 5
        fail_line = len(lines) + fail_rel          # 0-based
        lines += body
        chain = [inner]                            # frame names from the failing point outwards (innermost first)
        if op == "REC" and fails:
            chain = None                           # the chain is the recursion itself; only its length class is checked
        cur = inner                                # callable taking one int
        for _ in range(depth):
            w = rng.choice(WRAPS)
            f = self.name()
            if w == "def":
                lines += ["def %s(v):" % f, "    r = %s(v)" % cur, "    return r"]
                fr = [f]
            elif w == "for-list":
                lines += ["def %s(v):" % f, "    acc = []", "    for i in [v, v + 1]:", "        acc.append(%s(i))" % cur, "    return v"]
                fr = [f]
            elif w == "for-range":
                lines += ["def %s(v):" % f, "    for i in range(2):", "        for j in range(1):", "            %s(v + i + j)" % cur, "    return v"]
                fr = [f]
            elif w == "for-dict":
                lines += ["def %s(v):" % f, "    d = {v: 1, v + 1: 2}", "    for k in d:", "        %s(k)" % cur, "    return v"]
                fr = [f]
            elif w == "lcomp":
                lines += ["def %s(v):" % f, "    return [%s(i) for i in [v, v] if i == v][0]" % cur]
                fr = [f]
            elif w == "dcomp":
                lines += ["def %s(v):" % f, "    return {i: %s(i) for i in [v]}[v]" % cur]
                fr = [f]
            elif w == "map":
                lines += ["def %s(v):" % f, "    return list(map(%s, [v, v]))[0]" % cur]
                fr = ["map", f]
            elif w == "filter":
                lines += ["def %s(v):" % f, "    return len(list(filter(%s, [v]))) + v" % cur]
                fr = ["filter", f]
            elif w == "sorted-key":
                lines += ["def %s(v):" % f, "    return sorted([v, v - 1], key = %s)[0]" % cur]
                fr = ["sorted", f]
            elif w == "max-key":
                lines += ["def %s(v):" % f, "    return max([v, v - 1], key = %s)" % cur]
                fr = ["max", f]
            elif w == "if":
                lines += ["def %s(v):" % f, "    if v == v and not (v != v):", "        return %s(v)" % cur, "    else:", "        return 0"]
                fr = [f]
            elif w == "partial":
                lines += ["def %s(v):" % f, "    return partial(c07h_id, v)() + partial(%s, v)()" % cur]
                fr = [None, f]        # the frame of the partial object: name not pinned
            elif w == "lambda":
                lines += ["def %s(v):" % f, "    g = lambda q: %s(q)" % cur, "    return g(v)"]
                fr = ["lambda", f]
            elif w == "recurse":
                lines += ["def %s(v, n = 3):" % f, "    if n == 0:", "        return %s(v)" % cur, "    return %s(v, n - 1)" % f]
                fr = [f, f, f, f]
            elif w == "nested-def":
                g = self.name("in")
                lines += ["def %s(v):" % f, "    def %s(q):" % g, "        return %s(q + v - v)" % cur, "    return %s(v)" % g]
                fr = [g, f]
            elif w == "while-like":
                lines += ["def %s(v):" % f, "    for i in range(1000000):", "        if i == 2:", "            break", "        %s(v + i)" % cur, "    return v"]
                fr = [f]
            elif w == "method-cb":
                lines += ["def %s(v):" % f, "    l = [v]", "    l.extend([%s(x) for x in l])" % cur, "    return l[0]"]
                fr = [f]
            elif w == "dict-setdefault":
                lines += ["def %s(v):" % f, "    d = {}", "    d.setdefault(\"k\", %s(v))" % cur, "    return v"]
                fr = [f]
            else:
                lines += ["def %s(v):" % f, "    return (v == v and %s(v)) or v" % cur]
                fr = [f]
            if chain is not None:
                chain += fr
            cur = f
        v0 = rng.choice([0, 1, 5, 41])
        # at module level: directly, or under a module-level loop / comprehension
        top = rng.choice(["call", "for", "lcomp", "assign"])
        if top == "call":
            lines += ["%s(%d)" % (cur, v0)]
        elif top == "for":
            tl = "h%s_tl" % self.uid
            lines += ["%s = [%d]" % (tl, v0), "for h%s_i in %s:" % (self.uid, tl), "    %s(h%s_i)" % (cur, self.uid)]
        elif top == "lcomp":
            lines += ["h%s_r = [%s(q) for q in [%d]]" % (self.uid, cur, v0)]
        else:
            lines += ["h%s_r = %s(%d)" % (self.uid, cur, v0)]
        lines += ["emit(\"end-%s\")" % self.uid]
        return {"src": "\n".join(lines) + "\n", "fails": fails, "tag": tag, "fail_line": fail_line if fails else None,
                "chain": list(reversed(chain)) if (chain is not None and fails) else None, "depth": depth, "top": top}


def model_tree(prog):
    """EvalState tree of a failing nest program: module frame > instruction > nested calls (one per expected frame) > failing
    instruction; succeeding instructions before it.  fn ids = position in the chain + 1; spans = depth index."""
    chain = prog["chain"]
    t = "Instr 900 (Leaf false 7)"
    for i in range(len(chain) - 1, -1, -1):
        t = "Instr %d (Call %d (Some %d) (Frame %d 4 (Seq (Instr %d (Leaf true 0)) (%s))))" % (100 + i, i + 1, 100 + i, i + 1, 500 + i, t)
    return "Frame 0 4 (Seq (Instr 50 (Leaf true 0)) (%s))" % t


def history_cases(ctx, n_hist):
    rng = ctx.rng
    cases, metas = [], []
    for h in range(n_hist):
        nsteps = rng.randint(1, 20)
        files, meta = [], []
        p_fail = rng.choice([0.3, 0.5, 0.8, 1.0])
        for s in range(nsteps):
            kind = rng.random()
            if kind < 0.7:
                g = NestGen(rng, "%d_%d" % (h, s))
                pr = g.build(rng.randint(0, 7), rng.random() < p_fail)
                pr["kind"] = "nest"
            elif kind < 0.9:
                seed = rng.getrandbits(48)
                gp = progs.generate(seed, max_stmts=rng.choice([8, 14, 20]), max_depth=3, p_fail=0.6)
                pr = {"kind": "ministar", "src": gp["src"], "coq": gp["coq"], "seed": seed}
            else:
                (ta, ea), (tb, eb) = rng.choice(ARGS), rng.choice(ARGS)
                callee = rng.choice(["len", "sorted", "repr", "json.encode", "hash", "dict", "zip", "max", "int", "str", "list", "range", "getattr", "enumerate"])
                pr = {"kind": "native", "src": PRELUDE + "def h%d_%d_g(a, b):\n    return %s(a, b)\nh%d_%d_r = [h%d_%d_g(%s, %s) for _ in [1]]\nemit(\"end\")\n"
                      % (h, s, callee, h, s, h, s, ea, eb)}
            files.append({"name": "step%d.star" % s, "src": pr["src"]})
            meta.append(pr)
        cases.append({"kind": "run", "files": files, "probe": ctx.probe, "probe_each": True, "transcript": True, "timeout_ms": 60000})
        metas.append(meta)
    return cases, metas


def long_history(ctx, n):
    """One long-lived module evaluated n times (a third of the programs fail), short-lived modules evaluated in between."""
    rng = ctx.rng
    files, meta = [], []
    for s in range(n):
        g = NestGen(rng, "L_%d" % s)
        pr = g.build(rng.randint(0, 4), rng.random() < 0.35)
        pr["kind"] = "nest"
        files.append({"name": "step%d.star" % s, "src": pr["src"]})
        meta.append(pr)
    return {"kind": "run", "files": files, "probe": ctx.probe, "probe_each": True, "transcript": True, "interleave_fresh": True, "timeout_ms": 240000}, meta


def run_histories(ctx, n_hist, tag):
    cases, metas = history_cases(ctx, n_hist)
    for _ in range(ctx.n(1, 16)):
        c, m = long_history(ctx, ctx.n(120, 400))
        cases.append(c)
        metas.append(m)
    # the same programs, each alone on a fresh evaluator+module
    alone, alone_ix = [], []
    for h, (c, meta) in enumerate(zip(cases, metas)):
        for s, f in enumerate(c["files"]):
            alone.append({"kind": "run", "files": [f], "probe": None, "transcript": True, "timeout_ms": 60000})
            alone_ix.append((h, s))
    res, deaths = run_resilient(ctx, cases, tag)
    ares, adeaths = run_resilient(ctx, alone, tag + ".alone")
    failures = []
    st = {"histories": len(cases), "steps": 0, "failing_steps": 0, "probes": 0, "model_cases": 0, "ministar": 0, "line_checked": 0,
          "chain_checked": 0, "tags": {}, "f4_seen": 0}
    for gi, why, log in deaths:
        m = re.findall(r"PANIC at (\S+)", log)
        if m:
            why = "%s:after-panic:%s" % (why, m[0])
        failures.append({"key": "%s:history" % why, "what": "the process died (%s) during a history of %d evaluations: %s" % (why, len(cases[gi]["files"]), log[-200:]),
                         "replay": {"kind": "case", "case": {k: v for k, v in cases[gi].items() if k != "probe"}}})
    for gi, why, log in adeaths:
        h, s = alone_ix[gi]
        failures.append({"key": "%s:program" % why, "what": "the process died (%s) evaluating one program: %s" % (why, log[-200:]),
                         "replay": {"kind": "history", "files": alone[gi]["files"], "meta_tag": metas[h][s].get("tag")}})
    amap = {ix: r for ix, r in zip(alone_ix, ares)}
    model_rows = []     # (h, s, tree, impl frame names, chain)
    ministar = []
    for h, (c, meta, r) in enumerate(zip(cases, metas, res)):
        if r is None or "steps" not in r:
            if r is not None:
                failures.append({"key": "panic:history", "what": "history case did not complete: %s" % json.dumps(r)[:300], "replay": {"kind": "history", "files": c["files"]}})
            continue
        for s, (pr, step) in enumerate(zip(meta, r["steps"])):
            st["steps"] += 1
            rep = {"kind": "history", "files": c["files"][:s + 1], "step": s, "program": pr.get("src"), "impl": step}
            for k, text in check_step(step, "history"):
                failures.append({"key": "%s:history" % k, "what": "step %d/%d of a history (%s): %s" % (s + 1, len(meta), pr["kind"], text), "replay": rep})
            if step.get("probe") is not None:
                st["probes"] += 1
            if "err" in step:
                st["failing_steps"] += 1
            # the same program alone on a fresh evaluator must behave identically (recoverability: unrelated code is unaffected)
            a = amap.get((h, s))
            if a is not None and "steps" in a:
                a0 = a["steps"][0]
                same = (a0.get("tr") == step.get("tr")) and (("err" in a0) == ("err" in step)) and \
                    (not ("err" in a0) or (a0["err"]["msg"] == step["err"]["msg"] and a0["err"]["span"] == step["err"]["span"] and
                                           [f["name"] for f in a0["err"]["frames"]] == [f["name"] for f in step["err"]["frames"]]))
                if not same:
                    msg = (step.get("err") or {}).get("msg", "")
                    if "while iterating" in msg or "mutate an iterable" in msg:
                        st["f4_seen"] += 1     # F4 (property C12): a container left locked by an error that escaped a loop
                    else:
                        failures.append({"key": "history-differs-from-fresh", "what": "step %d of a history behaves differently from the same program on a fresh "
                                         "evaluator: here %s / %s ; fresh %s / %s" % (s + 1, json.dumps(step.get("err") or step.get("ok"))[:200], step.get("tr", [])[-2:],
                                                                                      json.dumps(a0.get("err") or a0.get("ok"))[:200], a0.get("tr", [])[-2:]), "replay": rep})
            if pr["kind"] == "nest":
                st["tags"][pr["tag"]] = st["tags"].get(pr["tag"], 0) + 1
                if pr["fails"] != ("err" in step) and "panic" not in step:
                    failures.append({"key": "planted-failure:%s" % ("missed" if pr["fails"] else "spurious"),
                                     "what": "nest program with planted failure `%s` (fails=%s) ended with %s" % (pr["tag"], pr["fails"], json.dumps(step.get("err") or step.get("ok"))[:200]),
                                     "replay": rep})
                elif pr["fails"] and "err" in step and step["err"].get("span"):
                    sp = step["err"]["span"]
                    st["line_checked"] += 1
                    if pr["tag"] != "overflow" and not (sp["bl"] <= pr["fail_line"] <= sp["el"]):
                        failures.append({"key": "wrong-line:%s" % pr["tag"], "what": "planted failure `%s` at line %d (0-based) but the error span is lines %d-%d: %s"
                                         % (pr["tag"], pr["fail_line"], sp["bl"], sp["el"], step["err"]["msg"][:120]), "replay": rep})
                    if pr["chain"] is not None:
                        names = [f["name"] for f in step["err"]["frames"]]
                        st["chain_checked"] += 1
                        # expected frames in order (a subsequence of the real stack: natives invoked by the failing statement come after)
                        want = pr["chain"]
                        j = 0
                        for nm in names:
                            if j < len(want) and (want[j] is None or want[j] == nm or (want[j] == "lambda" and "lambda" in nm)):
                                j += 1
                        if j < len(want):
                            failures.append({"key": "call-stack-chain", "what": "the error's call stack %s does not contain the active calls %s in order" % (names, want),
                                             "replay": rep})
                        elif len(model_rows) < 4000:
                            model_rows.append((h, s, model_tree(pr), len(names), len(want), rep))
            elif pr["kind"] == "ministar":
                ministar.append((pr, step, rep))
    # EvalState model on the same nests: stack length, span, count afterwards
    mm = 0
    if model_rows:
        files = []
        nshard = min(sv.NPROC, max(1, len(model_rows) // 50 + 1))
        for k in range(nshard):
            part = model_rows[k::nshard]
            text = ("From Coq Require Import ZArith NArith List.\nFrom SV Require Import EvalState.Model EvalState.Cases.\nImport ListNotations.\nOpen Scope Z_scope.\n")
            for q in range(0, len(part), 100):
                text += "Eval vm_compute in (map case_result [\n%s]).\n" % ";\n".join("(%s)" % p[2] for p in part[q:q + 100])
            files.append(("nest_%d" % k, text))
        outs = sv.coq_eval_files(ctx, files, timeout=600)
        for k, (rc, out) in enumerate(outs):
            part = model_rows[k::nshard]
            vals = [x for v in sv.coq_values(out) for x in v] if rc == 0 else []
            if rc != 0 or len(vals) != len(part):
                failures.append({"key": "model-run-failed", "what": "coqc failed on EvalState cases: %s" % out[-300:], "replay": {"out": out[-800:]}})
                continue
            for (h, s, tree, nframes, nwant, rep), v in zip(part, vals):
                st["model_cases"] += 1
                # v = (is_err, span, stack fn ids, count_after, restored)
                is_err, span, stack, cnt, restored = v
                ok = is_err == 1 and span == 900 and list(stack) == list(range(1, nwant + 1)) and cnt == 0 and restored == 1 and nframes >= nwant
                if not ok:
                    mm += 1
                    failures.append({"key": "model-differs:evalstate", "what": "EvalState model predicts %s for a nest of %d calls; implementation reports %d frames, stack_after 0"
                                     % (v, nwant, nframes), "replay": dict(rep, model=str(v), tree=tree)})
    st["model_mismatches"] = mm
    # (3) MiniStar programs inside histories: outcome class must equal the reference's
    if ministar:
        from props import C01
        sub = ministar[:ctx.n(60, 1500)]
        mres, mlog = C01.run_model(ctx, [pr["coq"] for pr, _, _ in sub])
        for (pr, step, rep), m in zip(sub, mres):
            if m == C01.RESOURCE:
                continue
            if m is None:
                failures.append({"key": "model-run-failed", "what": "the Coq reference could not be evaluated: %s" % mlog[-200:], "replay": rep})
                continue
            mtr, mout = m[:2]
            if "nofuel" in mout:
                continue
            st["ministar"] += 1
            itr = step.get("tr", [])
            ok = (("ok" in step) == ("ok" in mout)) and itr == mtr
            if ok and "err" in mout:
                sp = step["err"].get("span") or {}
                ok = sp.get("bl", -9) + 1 == mout["err"]["line"]
                ik = C01.impl_kind(step["err"]["msg"])
                mk = mout["err"]["kind"]
                if ok and ik != "?" and ik != mk and not (mk == "Unhashable" and ik == "TypeErr"):
                    ok = False
            if not ok:
                msg = (step.get("err") or {}).get("msg", "")
                if "while iterating" in msg or "mutate an iterable" in msg:
                    st["f4_seen"] += 1
                    continue
                failures.append({"key": "ministar-outcome-differs", "what": "outcome class differs from the reference interpreter: implementation %s %s | reference %s %s"
                                 % (json.dumps(step.get("err") or step.get("ok"))[:200], itr[-2:], mout, mtr[-2:]), "replay": dict(rep, coq=pr["coq"], model=[mtr, mout])})
    return failures, st


# ------------------------------------------------------------------------------------------------------------
def calibrate(ctx):
    """Largest nesting depth at which `==` of two nested lists still succeeds on a fresh evaluator (MAX_RECURSION differs between
    debug and release builds); the probe compares at exactly that depth, so a leaked guard depth of 1 changes its outcome."""
    cases = []
    ds = list(range(150, 215)) + [2990 + i for i in range(0, 20)]
    for d in ds:
        src = "def q(n):\n    x = [n]\n    for _ in range(n):\n        x = [x]\n    return x\nr = q(%d) == q(%d)\n" % (d, d)
        cases.append({"kind": "run", "files": [{"name": "c.star", "src": src}], "probe": None, "timeout_ms": 20000})
    rc, log, res = sv.run_harness_sharded(ctx, "total", cases, timeout=300)
    best = None
    for d, r in zip(ds, res):
        if r and "steps" in r and "ok" in r["steps"][0]:
            best = d if best is None or d == best + 1 or best < 215 <= d else best
    oks = [d for d, r in zip(ds, res) if r and "steps" in r and "ok" in r["steps"][0]]
    if not oks:
        raise RuntimeError("calibration failed: %s %s" % (rc, log[-200:]))
    # the largest depth below the first failure
    first_bad = min([d for d in ds if d not in oks] or [max(ds) + 1])
    good = max([d for d in oks if d < first_bad] or [min(oks)])
    return good


def setup_probe(ctx):
    eqd = calibrate(ctx)
    ctx.probe = PROBE.replace("@EQD@", str(eqd))
    ctx.eq_depth = eqd
    ctx.log("calibrated: nested == succeeds up to depth %d on a fresh evaluator" % eqd)


def corpus_cases(ctx):
    p = os.path.join(sv.ROOT, "corpus", "C07", "cases.jsonl")
    out = []
    if os.path.exists(p):
        for line in open(p, encoding="utf-8"):
            line = line.strip()
            if line and not line.startswith("#"):
                e = json.loads(line)
                # cases that need minutes and gigabytes (a 4 GiB string) only run in the thorough tier and in replays
                if e.get("tier") == "thorough" and ctx.tier != "thorough":
                    continue
                out.append(e)
    return out


def run_corpus(ctx):
    entries = corpus_cases(ctx)
    cases = []
    for e in entries:
        files = ([] if e.get("no_prelude") else [{"name": "prelude.star", "src": PRELUDE}]) + [{"name": "c%d.star" % i, "src": s} for i, s in enumerate(e["steps"])]
        cases.append({"kind": "run", "files": files, "probe": ctx.probe, "probe_each": True, "timeout_ms": e.get("timeout_ms", 120000), "disable_gc": e.get("disable_gc", False),
                      "interleave_fresh": e.get("interleave_fresh", False), "transcript": e.get("interleave_fresh", False)})
    res, deaths = run_resilient(ctx, cases, "corpus")
    failures = []
    dead = {}
    for i, why, log in deaths:
        m = re.findall(r"PANIC at (\S+)", log)
        dead[i] = "%s:after-panic:%s" % (why, m[0]) if m else why
    for i, (e, c) in enumerate(zip(entries, cases)):
        if i in dead:
            failures.append({"key": e.get("key_on_death") or "%s:corpus:%s" % (dead[i], e["name"]), "what": "corpus case %s: the process died (%s)" % (e["name"], dead[i]),
                             "replay": {"kind": "corpus", "entry": e}})
            continue
        r = res[i]
        if r is None or "steps" not in r:
            failures.append({"key": "panic:corpus:%s" % e["name"], "what": "corpus case %s: %s" % (e["name"], r), "replay": {"kind": "corpus", "entry": e}})
            continue
        for j, step in enumerate(r["steps"][(0 if e.get("no_prelude") else 1):]):
            for k, text in check_step(step, "corpus"):
                failures.append({"key": "%s:corpus:%s" % (k, e["name"]), "what": "corpus case %s step %d: %s" % (e["name"], j, text), "replay": {"kind": "corpus", "entry": e}})
            want = e.get("expect", [None] * (j + 1))[j] if j < len(e.get("expect", [])) else None
            if "panic" in step:
                continue
            if want == "ok" and "ok" not in step or want == "err" and "err" not in step:
                failures.append({"key": "corpus-outcome:%s" % e["name"], "what": "corpus case %s step %d: expected %s, got %s" % (e["name"], j, want, json.dumps(step)[:200]),
                                 "replay": {"kind": "corpus", "entry": e}})
    return failures, len(cases)


def run_api(ctx):
    """Embedder API on the recovered (idle) evaluator after a failing evaluation."""
    case = {"kind": "run", "files": [{"name": "a.star", "src": "def f():\n    return 1 // 0\nf()\n"}], "probe": ctx.probe, "api_idle_call_stack": True}
    res, deaths = run_resilient(ctx, [case], "api")
    failures = []
    if deaths or not res[0]:
        failures.append({"key": "%s:api" % (deaths[0][1] if deaths else "no-result"), "what": "API case died", "replay": {"kind": "case", "case": strip_case(case)}})
    elif "idle_call_stack_panic" in res[0].get("api", {}):
        failures.append({"key": "panic:api:idle-call-stack", "what": "Evaluator::call_stack() on the idle evaluator (after a failed evaluation, call_stack_count() == 0) panics: %s"
                         % res[0]["api"]["idle_call_stack_panic"], "replay": {"kind": "case", "case": strip_case(case)}})
    # host Module::get after an evaluation that failed in scope resolution (names registered, slots never allocated);
    # no probe here: a later successful evaluation would allocate the slots
    case2 = {"kind": "run", "files": [{"name": "s0.star", "src": "x = 1\nundefined_name\n"}], "probe": None, "api_module_get": "x"}
    res2, deaths2 = run_resilient(ctx, [case2], "api2")
    if deaths2 or not res2[0]:
        failures.append({"key": "%s:api" % (deaths2[0][1] if deaths2 else "no-result"), "what": "API case died", "replay": {"kind": "case", "case": case2}})
    elif "module_get_panic" in res2[0].get("api", {}):
        failures.append({"key": "panic:api:module-get-after-scope-error",
                         "what": "Module::get(\"x\") after eval_module of `x = 1; undefined_name` failed with a scope error panics: %s" % res2[0]["api"]["module_get_panic"],
                         "replay": {"kind": "case", "case": case2}})
    return failures


SCALE = float(os.environ.get("C07_SCALE", "1"))


def correspond(ctx):
    setup_probe(ctx)
    failures = run_api(ctx)
    f0, ncorpus = run_corpus(ctx)
    failures += f0
    callees, cat = catalogue(ctx)
    ctx.log("catalogue: %d callees (globals %d, receiver values %d)" % (len(callees), len(cat["globals"]), len(RECEIVERS)))
    per = max(3, int(ctx.n(12, 260) * SCALE))
    cases = sweep_cases(ctx, callees, per)
    ncalls = sum(len(c["meta"]) for c in cases)
    ctx.log("native sweep: %d calls in %d cases" % (ncalls, len(cases)))
    f1, st1 = run_sweep(ctx, cases, "sweep")
    ctx.log("sweep done: calls=%d ok=%d err=%d (arity %d) kinds=%s died=%d resource-bounded=%d failures=%d"
            % (st1["calls"], st1["ok"], st1["err"], st1["arity"], st1["kinds"], st1["died"], st1["resource"], len(f1)))
    failures += f1
    f2, st2 = run_deep(ctx, ctx.n(300000, 1000000), "deep") if SCALE >= 1 else ([], {"deep_cases": 0, "deep_survived": 0})
    ctx.log("deep recursion: %s failures=%d" % (st2, len(f2)))
    failures += f2
    f3, st3 = run_histories(ctx, max(10, int(ctx.n(60, 6000) * SCALE)), "hist")
    ctx.log("histories: %s failures=%d" % ({k: v for k, v in st3.items() if k != "tags"}, len(f3)))
    failures += f3
    if st3["f4_seen"]:
        ctx.log("NOTE: F4 (C12) seen %d time(s): a container stayed locked after an error escaped a loop over it" % st3["f4_seen"])
    cov = {
        "evaluations": st1["calls"] + st3["steps"] + st3["probes"] + st2["deep_cases"] + ncorpus,
        "distinct_nontrivial": len(st1["nontrivial"]),
        "rule": "native sweep: every global function, namespace member and every attribute reported by dir() on a value of each builtin type "
                "(the implementation's own catalogue) x argument tuples from the catalogue (extreme ints, None, floats incl. nan/inf, big and "
                "non-ASCII strings, empty/nested/self-containing/deep containers, callbacks that fail, wrong arities, unknown/duplicate "
                "keywords, */** of non-iterables) + operators; distinct_nontrivial = distinct (callee, argument-shape) pairs that reached "
                "success or a non-arity error",
        "callees": len(st1["callees"]),
        "native_calls": st1["calls"], "native_ok": st1["ok"], "native_err": st1["err"], "native_arity_errors": st1["arity"],
        "error_kinds": st1["kinds"], "resource_bounded_skipped": st1["resource"],
        "deep_recursion_cases": st2["deep_cases"], "deep_recursion_survived": st2["deep_survived"],
        "histories": st3["histories"], "history_steps": st3["steps"], "history_failing_steps": st3["failing_steps"],
        "probes_compared_with_fresh": st3["probes"] + len(cases), "planted_failure_lines_checked": st3["line_checked"],
        "call_stack_chains_checked": st3["chain_checked"],
        "traces_validated_against_impl": st3["model_cases"] + st3["ministar"],
        "evalstate_model_cases": st3["model_cases"], "ministar_outcomes_compared": st3["ministar"], "model_mismatches": st3["model_mismatches"],
        "planted_failure_kinds": st3["tags"], "f4_seen": st3["f4_seen"], "eq_depth_calibrated": ctx.eq_depth, "corpus_cases": ncorpus,
        "input_distribution": {"receivers": len(RECEIVERS), "arguments": len(ARGS), "special_forms": len(SPECIAL_FORMS), "tuples_per_callee": per},
        "exhaustive": False,
        "samples": [cases[0]["meta"][0][2], cases[-1]["meta"][-1][2]],
    }
    return {"coverage": cov, "failures": failures}


def search(ctx, broken):
    """A proof/pin/tie is broken: the deepest generators against the specification (thorough tuple catalogue, more histories)."""
    old = ctx.tier
    ctx.tier = "thorough"
    try:
        if not hasattr(ctx, "probe"):
            setup_probe(ctx)
        callees, _ = catalogue(ctx)
        f1, st1 = run_sweep(ctx, sweep_cases(ctx, callees, 120), "search.sweep")
        f2, _ = run_deep(ctx, 1000000, "search.deep")
        f3, st3 = run_histories(ctx, 1500, "search.hist")
    finally:
        ctx.tier = old
    return {"failures": f1 + f2 + f3, "coverage": {"evaluations": st1["calls"] + st3["steps"]}}


def replay(ctx, rep):
    r = rep.get("replay", {})
    setup_probe(ctx)
    kind = r.get("kind")
    if kind == "call":
        c = single_call_case(ctx, tuple(r["call"]))
        failures, st = run_sweep(ctx, [c], "replay")
        return {"coverage": {"evaluations": 1, "distinct_nontrivial": 1, "samples": [r["call"][2]]}, "failures": failures}
    if kind in ("deep", "history", "corpus", "case"):
        if kind == "deep":
            files = [{"name": "prelude.star", "src": PRELUDE}, {"name": "deep.star", "src": r["src"]}]
            case = {"kind": "run", "files": files, "probe": ctx.probe, "disable_gc": not r.get("gc", True), "timeout_ms": 60000}
        elif kind == "history":
            case = {"kind": "run", "files": r["files"], "probe": ctx.probe, "probe_each": True, "transcript": True, "timeout_ms": 60000}
        elif kind == "corpus":
            e = r["entry"]
            case = {"kind": "run", "files": [{"name": "prelude.star", "src": PRELUDE}] + [{"name": "c%d.star" % i, "src": s} for i, s in enumerate(e["steps"])],
                    "probe": ctx.probe, "probe_each": True, "timeout_ms": e.get("timeout_ms", 60000), "disable_gc": e.get("disable_gc", False)}
        else:
            case = dict(r["case"], probe=ctx.probe)
        res, deaths = run_resilient(ctx, [case], "replay")
        failures = []
        for _, why, log in deaths:
            failures.append({"key": rep.get("key", "%s:replay" % why), "what": "the process died (%s): %s" % (why, log[-200:]), "replay": r})
        if res[0] and "steps" in res[0]:
            for j, step in enumerate(res[0]["steps"]):
                for k, text in check_step(step, "replay"):
                    failures.append({"key": "%s:replay" % k, "what": "step %d: %s" % (j, text), "replay": r})
        return {"coverage": {"evaluations": 1, "distinct_nontrivial": 1, "samples": [json.dumps(r)[:300]]}, "failures": failures}
    return {"coverage": {}, "failures": []}


META = {
    "category": "proof",
    "level_text": "Partial. Proved in Coq for ALL computation trees and every subset of failing leaves (coq/EvalState): the bracketed operations of the "
                  "evaluator (with_call_stack, alloca_frame, eval_module, stack_guard, repr/json cycle guards) restore call-stack count, frame stack, "
                  "current frame, alloca pointer, module def-info and the thread-local guards on every exit path; outcomes never depend on stale "
                  "call-stack slots; after any history of evaluations a probe behaves as on a fresh evaluator; an error leaving an instruction "
                  "carries its span and the chain of active calls. Over MiniStar (coq/Core/Sem.v): every builtin and method is total (Ok or Fail, "
                  "never out of fuel) on every argument list, with exact rejection conditions for len/range/list.pop, and - FULL, "
                  "C07_error_has_line, coq/EvalState/Lines.v - for every program and every fuel, if run_program fails then the failure "
                  "carries Some line and that line is the line of a statement occurring in the program text at some nesting depth "
                  "(branches, loop bodies, bodies of defs the program defines); proved by induction on fuel through eval/call/exec "
                  "(including the sorted(key=, reverse=) key calls) with the closure-store invariant 'every closure body in the store "
                  "consists of statements whose lines are lines of the program'. The 'never panics/aborts' half is NOT a theorem: it is a search over the "
                  "implementation's own native catalogue x an argument catalogue, deep-recursion probes and failure histories, in child "
                  "processes (panic, abort, signal, hang and memory blow-up are all observed), with every error's span and call stack "
                  "validated against the source files.",
    "level_note": "Trusted: Coq kernel; harness bin total; generators in tools/props/C07.py and tools/gen/progs.py. Modelled rather than verified: "
                  "the evaluator bookkeeping (EvalState/Model.v is a hand-written mirror, tied to the implementation by call-stack length/"
                  "names/span predictions on generated failure nests and by the probe-after-failure comparison). Cannot be exhibited by the "
                  "model: panics/aborts/UB in unmodelled Rust (searched only). Known defect F4 (container stays locked after an error escapes a "
                  "loop) belongs to C12 and is excluded from the probe by construction.",
    "technique": "Coq proof of the state-recovery discipline (induction on computation trees) and of builtin totality on MiniStar; "
                 "catalogue-driven native sweep and failure histories in bisected child processes; model predictions vs implementation",
    "design_ref": "DESIGN.md section 4 C07, section 6",
}
