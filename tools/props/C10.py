"""C10 Integer arithmetic is exact at every magnitude.

Proof: coq/Int/{Model,Proofs}.v + Properties/C10.v (model of the Small/Big representation = Z).
Tie: the `ints` harness evaluates each operator on the real evaluator three ways (constant-folded
literals, run-time values through a def, augmented assignment) and the Coq model is run on the same
operands (Int/Cases.v, vm_compute); representation tags are compared too (hook H4).
The Python big-integer arithmetic below is the *specification* oracle used to decide whether a
disagreement is a violation of the property itself."""
import sv

PROP = "C10"
HARNESS_BINS = ["ints"]
COQ_TARGETS = ["Properties/C10.vo", "Int/Cases.vo", "Int/StrCases.vo", "Extract/IntX.vo"]
TRUSTED = ["extraction: ExtrOcamlBasic only (Extract Inductive bool/option/unit/prod/list/sumbool/sumor; Z/N/positive stay inductive); "
           "ocaml/int_driver.ml (hex <-> positive transport, hand-written); OCaml 4.13.1 ocamlopt",
           "num-bigint modelled as Z (quot/rem truncating, two's-complement bit operations)",
           "hook H4 verif_hooks::int_repr (reads the representation tag)"]
ASSUMPTIONS = ["integers needing more than 2^64 bits are excluded from the >> theorem (cannot exist in memory)",
               "the model/implementation tie is differential testing over the boundary grid (exhaustive pairs) and random operands"]

BIN = {"+": "OAdd", "-": "OSub", "*": "OMul", "//": "ODiv", "%": "OMod", "&": "OAnd", "|": "OOr", "^": "OXor",
       "<<": "OShl", ">>": "OShr", "==": "OEq", "!=": "ONe", "<": "OLt", "<=": "OLe", ">": "OGt", ">=": "OGe"}
UN = {"neg": "ONeg", "inv": "OInv", "pos": "OPos", "abs": "OAbs"}
ERR = {"divzero": "FloorDivisionByZero", "modzero": "ModuloByZero", "shlovf": "LeftShiftOverflow",
       "shlneg": "LeftShiftNegative", "shrneg": "RightShiftNegative"}
IMIN, IMAX = -2 ** 31, 2 ** 31 - 1
SHL_CAP = 100000


def small(z):
    return IMIN <= z <= IMAX


def spec(op, a, b):
    """The mathematical specification: ('int', z) | ('bool', b) | ('err', code)."""
    if op == "+":
        return ("int", a + b)
    if op == "-":
        return ("int", a - b)
    if op == "*":
        return ("int", a * b)
    if op == "//":
        return ("err", "divzero") if b == 0 else ("int", a // b)
    if op == "%":
        return ("err", "modzero") if b == 0 else ("int", a % b)
    if op == "&":
        return ("int", a & b)
    if op == "|":
        return ("int", a | b)
    if op == "^":
        return ("int", a ^ b)
    if op == "<<":
        if b < 0:
            return ("err", "shlneg")
        if a != 0 and b > SHL_CAP:
            return ("err", "shlovf")   # documented cap on the size of the result
        if a == 0:
            return ("int", 0)
        return ("int", a << b)
    if op == ">>":
        if b < 0:
            return ("err", "shrneg")
        if b > 10 ** 6:
            return ("int", -1 if a < 0 else 0)
        return ("int", a >> b)
    if op == "==":
        return ("bool", a == b)
    if op == "!=":
        return ("bool", a != b)
    if op == "<":
        return ("bool", a < b)
    if op == "<=":
        return ("bool", a <= b)
    if op == ">":
        return ("bool", a > b)
    if op == ">=":
        return ("bool", a >= b)
    if op == "neg":
        return ("int", -a)
    if op == "inv":
        return ("int", ~a)
    if op == "pos":
        return ("int", a)
    if op == "abs":
        return ("int", abs(a))
    raise ValueError(op)


def impl_out(r):
    """Harness result -> ('int', z, big) | ('bool', b) | ('err', code) | ('other', text)."""
    if r is None:
        return ("other", "missing")
    if "panic" in r:
        return ("other", "panic:" + str(r["panic"])[:100])
    if "err" in r:
        return ("err", r["err"])
    if r.get("repr") in ("small", "big"):
        return ("int", int(r["ok"]), r["repr"] == "big")
    if r.get("repr") == "bool":
        return ("bool", r["ok"] == "True")
    return ("other", "%s:%s" % (r.get("repr"), str(r.get("ok"))[:60]))


def coq_out(o):
    if o[0] == "int":
        return "OInt %s %s" % ("true" if o[2] else "false", sv.zlit(o[1]))
    if o[0] == "bool":
        return "OBool %s" % ("true" if o[1] else "false")
    if o[0] == "err" and o[1] in ERR:
        return "OErr %s" % ERR[o[1]]
    return None


def boundary_values(width):
    vals = set(range(-3, 4))
    for e in (31, 32, 53, 63, 64):
        for s in (1, -1):
            for d in range(-width, width + 1):
                vals.add(s * 2 ** e + d)
    vals.update([7, -7, 10, 255, 256, 65535, 65536, 46340, 46341, -46341, 2 ** 16, 2 ** 30, -2 ** 30, 2 ** 62, 10 ** 18,
                 10 ** 19, -10 ** 19, 2 ** 127, -2 ** 127 - 1, 2 ** 128])
    return sorted(vals)


SHIFTS = [0, 1, 2, 3, 7, 29, 30, 31, 32, 33, 34, 61, 62, 63, 64, 65, 66, 127, 128, 1000, -1, -2, -2 ** 31, 2 ** 31 - 1, 2 ** 31,
          2 ** 32, 2 ** 63, 2 ** 64 - 1, 2 ** 64, 2 ** 64 + 1, 2 ** 65, -2 ** 64, SHL_CAP - 1, SHL_CAP, SHL_CAP + 1]


def rand_int(rng):
    bits = rng.choice([0, 1, 2, 3, 5, 8, 15, 16, 28, 29, 30, 31, 32, 33, 34, 52, 53, 54, 62, 63, 64, 65, 66, 96, 127, 128, 129,
                       200, 255, 256])
    if bits == 0:
        return 0
    z = rng.getrandbits(bits) | (1 << (bits - 1) if rng.random() < 0.7 else 0)
    k = rng.random()
    if k < 0.25:   # near a power of two
        z = (1 << bits) + rng.randint(-2, 2)
    return -z if rng.random() < 0.5 else z


def gen_cases(ctx):
    rng = ctx.rng
    width = ctx.n(1, 2)
    grid = boundary_values(width)
    cases = []
    arith = ["+", "-", "*", "//", "%", "&", "|", "^", "==", "!=", "<", "<=", ">", ">="]
    for op in arith:
        for a in grid:
            for b in grid:
                cases.append({"op": op, "a": str(a), "b": str(b), "src": "grid"})
    sh_a = [v for v in grid if abs(v) <= 4 or abs(abs(v) - 2 ** 31) <= 1 or abs(abs(v) - 2 ** 63) <= 1 or abs(abs(v) - 2 ** 64) <= 1
            or v in (7, -7, 255, 2 ** 30, -2 ** 30, 2 ** 127)]
    for op in ("<<", ">>"):
        for a in sh_a:
            for b in SHIFTS:
                if op == "<<" and SHL_CAP - 1 <= b <= SHL_CAP and abs(a) > 2 ** 32:
                    continue   # keep results small enough to print quickly
                cases.append({"op": op, "a": str(a), "b": str(b), "src": "grid"})
    for op in UN:
        for a in grid:
            cases.append({"op": op, "a": str(a), "src": "grid"})
    nrand = ctx.n(150, 1500)
    for op in arith:
        for _ in range(nrand):
            cases.append({"op": op, "a": str(rand_int(rng)), "b": str(rand_int(rng)), "src": "rand"})
    for op in ("<<", ">>"):
        for _ in range(nrand):
            b = rng.choice([rng.randint(0, 70), rng.randint(0, 300), rng.choice(SHIFTS), rng.randint(-3, 40)])
            cases.append({"op": op, "a": str(rand_int(rng)), "b": str(b), "src": "rand"})
    for op in UN:
        for _ in range(nrand):
            cases.append({"op": op, "a": str(rand_int(rng)), "src": "rand"})
    return cases


def evaluate(ctx, cases):
    """Run implementation + Coq model + spec on `cases`; return (failures, stats)."""
    rc, log, res = sv.run_harness_sharded(ctx, "ints", cases, timeout=1200)
    ctx.log("harness done on %d cases" % len(cases))
    failures = []
    if rc != 0:
        failures.append({"key": "harness-crash", "what": "ints harness exited with %s: %s" % (rc, log[-300:]),
                         "replay": {"rc": rc}})
    coq_cases = []    # (id, op, a, b, out) distinct
    seen = {}
    evals = 0
    nontrivial = set()
    errs = 0
    for i, (c, r) in enumerate(zip(cases, res)):
        op = c["op"]
        a = int(c["a"])
        b = int(c.get("b", "0"))
        sp = spec(op, a, b)
        if r is None or "panic" in (r or {}):
            failures.append({"key": "%s:panic" % op, "what": "no result / panic for %s" % c, "replay": {"case": c, "impl": r}})
            continue
        big_case = (not small(a)) or (not small(b)) or sp[0] == "err" or (sp[0] == "int" and not small(sp[1]))
        if big_case:
            nontrivial.add((op, a, b))
        if sp[0] == "err":
            errs += 1
        for mode in ("fold", "run", "aug"):
            if r.get(mode) is None:
                continue
            evals += 1
            o = impl_out(r[mode])
            # (a) implementation against the specification
            bad = None
            if o[0] == "int":
                if sp != ("int", o[1]):
                    bad = "wrong-value"
                elif o[2] != (not small(o[1])):
                    bad = "wrong-repr"
            elif o[0] == "bool":
                if sp != ("bool", o[1]):
                    bad = "wrong-value"
            elif o[0] == "err":
                if sp != ("err", o[1]):
                    bad = "wrong-error"
            else:
                bad = "wrong-outcome"
            if bad:
                failures.append({"key": "%s:%s" % (op, bad),
                                 "what": "%s %s %s (%s) -> implementation %s, specification %s" % (a, op, b if "b" in c else "", mode, o, sp),
                                 "replay": {"case": c, "mode": mode, "impl": r[mode], "spec": sp}})
            # (b) the same outcome is handed to the Coq model
            co = coq_out(o)
            if co is None:
                continue
            k = (op, a, b, co)
            if k not in seen:
                seen[k] = len(coq_cases)
                coq_cases.append((len(coq_cases), op, a, b, co, i, mode))
    # Coq model (extracted to OCaml, Extract/IntX.v) on the same operands
    model_mismatch = 0
    if coq_cases:
        okd, exe = sv.ocaml_driver("Extract/IntX.vo", "int_model", "int_driver")
        if not okd:
            failures.append({"key": "model-run-failed", "what": "could not build the extracted model: " + exe[-300:], "replay": {"log": exe}})
        else:
            def hx(z):
                return ("-" if z < 0 else "") + format(abs(z), "x")
            lines = []
            for cid, op, a, b, co, _, _ in coq_cases:
                parts = co.split()
                if parts[0] == "OInt":
                    kv = ("G " if parts[1] == "true" else "I ") + hx(int(parts[2].strip("()")))
                elif parts[0] == "OBool":
                    kv = "B " + ("1" if parts[1] == "true" else "0")
                else:
                    kv = "E " + parts[1]
                lines.append("%d %s %s %s %s" % (cid, BIN.get(op) or UN[op], hx(a), hx(b), kv))
            okr, outl = sv.run_driver_sharded(ctx, exe, lines, "ints")
            done = sum(int(l.split()[1]) for l in outl if l.startswith("done "))
            if not okr or done != len(lines):
                failures.append({"key": "model-run-failed", "what": "extracted model driver failed (%d of %d cases): %s" % (done, len(lines), outl[-3:]),
                                 "replay": {"out": outl[-20:]}})
            ctx.log("extracted Coq model evaluated %d cases" % done)
            for l in outl:
                if l.startswith("done "):
                    continue
                cid = int(l.split()[0])
                m = l.split(" ", 1)[1]
                model_mismatch += 1
                _, op, a, b, co, i, mode = coq_cases[cid]
                sp = spec(op, a, b)
                already = any(f["replay"].get("case") == cases[i] for f in failures if isinstance(f.get("replay"), dict))
                if not already:
                    failures.append({"key": "%s:model-differs" % op,
                                     "what": "%s %s %s: implementation %s, Coq model %s (hex), specification %s" % (a, op, b, co, m, sp),
                                     "replay": {"case": cases[i], "mode": mode, "impl": co, "model": m, "spec": sp}})
    stats = {"evaluations": evals, "coq_cases": len(coq_cases), "model_mismatches": model_mismatch,
             "nontrivial": nontrivial, "errors": errs}
    return failures, stats


def string_cases(ctx):
    """Conversions to/from strings and host fixed-width types."""
    rng = ctx.rng
    vals = boundary_values(1) + [rand_int(rng) for _ in range(ctx.n(100, 1000))]
    cases = []
    for a in vals:
        for fmt in ("str", "repr", "format", "d", "x", "X", "o"):
            cases.append({"op": "tostr", "a": str(a), "fmt": fmt})
        cases.append({"op": "host", "a": str(a)})
        cases.append({"op": "str", "a": str(a)})
        for base in (0, 2, 8, 10, 16, 36, rng.randint(2, 36)):
            cases.append({"op": "parse", "s": to_base(a, base if base else 10, rng, prefix=(base == 0 or rng.random() < 0.3)),
                          "base": base, "z": str(a)})
        cases.append({"op": "parse", "s": str(a), "z": str(a)})
        if a >= 0:
            for base in (10, 16, 8, 2):
                cases.append({"op": "parse", "s": to_base(a, base, rng, prefix=True), "literal": True, "base": 0, "z": str(a)})
    return cases


DIG = "0123456789abcdefghijklmnopqrstuvwxyz"


def to_base(a, base, rng, prefix=False):
    n, s = abs(a), ""
    while True:
        s = DIG[n % base] + s
        n //= base
        if n == 0:
            break
    if rng.random() < 0.3:
        s = s.upper()
    p = ""
    if prefix and base in (2, 8, 16):
        p = {2: "0b", 8: "0o", 16: "0x"}[base]
        if rng.random() < 0.3:
            p = p.upper()
    return ("-" if a < 0 else "") + p + s


def fmt_spec(a, fmt):
    if fmt in ("str", "repr", "format", "d"):
        return str(a)
    if fmt == "x":
        return ("-" if a < 0 else "") + format(abs(a), "x")
    if fmt == "X":
        return ("-" if a < 0 else "") + format(abs(a), "X")
    if fmt == "o":
        return ("-" if a < 0 else "") + format(abs(a), "o")
    raise ValueError(fmt)


HOST = {"i32": (-2 ** 31, 2 ** 31 - 1), "u32": (0, 2 ** 32 - 1), "i64": (-2 ** 63, 2 ** 63 - 1), "u64": (0, 2 ** 64 - 1),
        "usize": (0, 2 ** 64 - 1), "isize": (-2 ** 63, 2 ** 63 - 1)}


def evaluate_strings(ctx, cases):
    rc, log, res = sv.run_harness_sharded(ctx, "ints", cases, timeout=1200)
    failures, evals = [], 0
    model_rows = []   # for Int/StrCases.v
    for c, r in zip(cases, res):
        if r is None or "panic" in (r or {}):
            failures.append({"key": "%s:panic" % c["op"], "what": "no result / panic for %s: %s" % (c, r), "replay": {"case": c, "impl": r}})
            continue
        if c["op"] == "tostr":
            a = int(c["a"])
            want = fmt_spec(a, c["fmt"])
            for mode in ("fold", "run"):
                evals += 1
                got = r[mode]
                ok = got.get("repr") == "string" and got.get("ok") == '"%s"' % want
                if not ok:
                    failures.append({"key": "tostr:%s" % c["fmt"], "what": "%s rendered with %s (%s): %s, expected %s" % (a, c["fmt"], mode, got, want),
                                     "replay": {"case": c, "mode": mode, "impl": got, "spec": want}})
            base = {"x": 16, "X": 16, "o": 8}.get(c["fmt"], 10)
            model_rows.append(("R", a, base, want.lower()))
        elif c["op"] == "str":
            a = int(c["a"])
            for mode in ("fold", "run"):
                evals += 1
                o = impl_out(r[mode])
                if o != ("int", a, not small(a)):
                    failures.append({"key": "str:roundtrip", "what": "int(str(%s)) (%s) = %s" % (a, mode, o), "replay": {"case": c, "impl": r[mode]}})
        elif c["op"] == "parse":
            z = int(c["z"])
            for mode in ("run", "lit"):
                if r.get(mode) is None:
                    continue
                evals += 1
                o = impl_out(r[mode])
                if o != ("int", z, not small(z)):
                    failures.append({"key": "parse:%s" % mode, "what": "parsing %r base %s (%s) = %s, expected %s" % (c["s"], c.get("base"), mode, o, z),
                                     "replay": {"case": c, "mode": mode, "impl": r[mode], "spec": z}})
            s = c["s"].lower().lstrip("-")
            b = c.get("base") or 0
            for pfx, pb in (("0x", 16), ("0o", 8), ("0b", 2)):
                if s.startswith(pfx) and b in (0, pb):
                    s, b = s[2:], pb
            model_rows.append(("P", z, b or 10, ("-" if z < 0 else "") + s))
        elif c["op"] == "host":
            a = int(c["a"])
            evals += 1
            o = impl_out(r["back"])
            if o != ("int", a, not small(a)):
                failures.append({"key": "host:alloc-bigint", "what": "alloc(BigInt %s) = %s" % (a, o), "replay": {"case": c, "impl": r}})
            for ty, (lo, hi) in HOST.items():
                evals += 1
                want = str(a) if lo <= a <= hi else None
                got = None if r.get(ty) == "error" else r.get(ty)   # Err and None are both clean failures
                if got != want:
                    failures.append({"key": "host:unpack-%s" % ty, "what": "unpack %s as %s = %s, expected %s" % (a, ty, r.get(ty), want),
                                     "replay": {"case": c, "impl": r}})
                if lo <= a <= hi and ("from_" + ty) in r:
                    o = impl_out(r["from_" + ty])
                    if o != ("int", a, not small(a)):
                        failures.append({"key": "host:alloc-%s" % ty, "what": "alloc(%s as %s) = %s" % (a, ty, o), "replay": {"case": c, "impl": r}})
            if r.get("bigint") != str(a):
                failures.append({"key": "host:unpack-bigint", "what": "unpack %s as BigInt = %s" % (a, r.get("bigint")), "replay": {"case": c, "impl": r}})
            model_rows.append(("H", a, 0, ",".join("1" if r.get(ty) not in (None, "error") else "0" for ty in ("i32", "u32", "i64", "u64"))))
    # Coq model of digit rendering/parsing and host ranges on the same data
    mm = 0
    if model_rows:
        files = []
        nshard = sv.NPROC
        for s in range(nshard):
            part = model_rows[s::nshard]
            if not part:
                continue
            rows = []
            for j, (k, z, base, txt) in enumerate(part):
                if k == "R":
                    rows.append("CRender %s %d %s" % (sv.zlit(z), base, sv.coq_str(txt)))
                elif k == "P":
                    rows.append("CParse %s %d %s" % (sv.zlit(z), base, sv.coq_str(txt)))
                else:
                    f = txt.split(",")
                    rows.append("CHost %s %s %s %s %s" % (sv.zlit(z), *["true" if x == "1" else "false" for x in f]))
            text = ("From Coq Require Import ZArith NArith List String.\nFrom SV Require Import Int.Model Int.Str Int.StrCases.\n"
                    "Import ListNotations.\nOpen Scope Z_scope.\nOpen Scope string_scope.\n")
            for k in range(0, len(rows), 200):
                text += "Eval vm_compute in (bad_from %d%%N [\n%s]).\n" % (k, ";\n".join(rows[k:k + 200]))
            files.append(("str_%d" % s, text))
        for (rc2, out), s in zip(sv.coq_eval_files(ctx, files, timeout=900), range(nshard)):
            vals = sv.coq_values(out) if rc2 == 0 else None
            if vals is None or not vals and rc2 != 0:
                failures.append({"key": "model-run-failed", "what": "coqc failed on string cases: " + out[-300:], "replay": {"out": out[-1000:]}})
                continue
            for idx in [x for v in (vals or []) for x in v]:
                mm += 1
                row = model_rows[s::nshard][idx]
                failures.append({"key": "str:model-differs", "what": "Coq digit/host model disagrees with implementation on %s" % (row,),
                                 "replay": {"row": row}})
    return failures, {"evaluations": evals, "model_rows": len(model_rows), "model_mismatches": mm}


def float_cases(ctx):
    """int(float) and float(int) around the boundaries where f64 and integers part ways."""
    import struct
    rng = ctx.rng
    fl = set()
    for e in (0, 1, 30, 31, 32, 52, 53, 54, 62, 63, 64, 65, 100, 127, 1000, 1023):
        for s_ in (1.0, -1.0):
            base = s_ * 2.0 ** e
            for v in (base, base + 1, base - 1, base * (1 + 2 ** -52), base * (1 - 2 ** -53), base + 0.5, base - 0.5):
                fl.add(v)
    fl.update([0.0, -0.0, 0.5, -0.5, 2.5, -2.5, 1e300, -1e300, 1.7976931348623157e308, 5e-324, float("inf"), float("-inf"), float("nan"),
               2147483647.0, 2147483648.0, -2147483648.0, -2147483649.0, 9223372036854775807.0, 9223372036854775808.0, -9223372036854775808.0,
               18446744073709551615.0, 18446744073709551616.0, 9007199254740993.0, 4294967295.5])
    for _ in range(ctx.n(300, 3000)):
        bits = rng.getrandbits(64)
        fl.add(struct.unpack(">d", struct.pack(">Q", bits))[0])
        fl.add(float(rand_int(rng)) if abs(rand_int(rng)) < 2 ** 1000 else 1.0)
    cases = []
    for f in fl:
        cases.append({"op": "f2i", "bits": "%016x" % struct.unpack(">Q", struct.pack(">d", f))[0]})
    ints = set(boundary_values(2))
    for e in (53, 54, 63, 64, 100, 200, 1023):
        for d in (-3, -2, -1, 0, 1, 2, 3, 2 ** (e - 53), 2 ** (e - 53) + 1, 2 ** (e - 53) - 1, 3 * 2 ** (e - 54)):
            for s_ in (1, -1):
                ints.add(s_ * (2 ** e + d))
    for _ in range(ctx.n(300, 3000)):
        ints.add(rand_int(rng))
    for a in ints:
        if abs(a) < 2 ** 1023:
            cases.append({"op": "i2f", "a": str(a)})
    return cases


def evaluate_floats(ctx, cases):
    import math
    import struct
    rc, log, res = sv.run_harness_sharded(ctx, "ints", cases, timeout=900)
    failures, evals, nontriv = [], 0, 0
    for c, r in zip(cases, res):
        if r is None or "panic" in (r or {}):
            failures.append({"key": "%s:panic" % c["op"], "what": "no result / panic for %s: %s" % (c, r), "replay": {"case": c, "impl": r}})
            continue
        if c["op"] == "f2i":
            f = struct.unpack(">d", struct.pack(">Q", int(c["bits"], 16)))[0]
            want = ("err",) if (math.isnan(f) or math.isinf(f)) else ("int", int(f))     # truncation toward zero, exact
            for mode in ("run", "fold"):
                if r.get(mode) is None:
                    continue
                evals += 1
                o = impl_out(r[mode])
                ok = (o[0] == "err") if want[0] == "err" else (o[:2] == want and o[2] == (not small(want[1])))
                if not ok:
                    failures.append({"key": "int-of-float:%s" % ("wrong-value" if o[0] == "int" else "wrong-outcome"),
                                     "what": "int(%r) (%s) -> implementation %s, exact value %s" % (f, mode, o, want),
                                     "replay": {"case": c, "mode": mode, "impl": r[mode], "spec": want}})
            if want[0] == "int" and not small(want[1]):
                nontriv += 1
        else:
            a = int(c["a"])
            want = "%016x" % struct.unpack(">Q", struct.pack(">d", float(a)))[0]       # correctly rounded (nearest, ties to even)
            for mode in ("run", "fold"):
                evals += 1
                got = r[mode].get("bits")
                if got != want:
                    failures.append({"key": "float-of-int:wrong-value", "what": "float(%d) (%s) -> bits %s, correctly rounded %s" % (a, mode, r[mode], want),
                                     "replay": {"case": c, "mode": mode, "impl": r[mode], "spec": want}})
            if abs(a) > 2 ** 53:
                nontriv += 1
    return failures, {"evaluations": evals, "nontrivial": nontriv}


def correspond(ctx):
    cases = gen_cases(ctx)
    ctx.log("generated %d operator cases" % len(cases))
    failures, st = evaluate(ctx, cases)
    scases = string_cases(ctx)
    f2, st2 = evaluate_strings(ctx, scases)
    failures += f2
    fcases = float_cases(ctx)
    f3, st3 = evaluate_floats(ctx, fcases)
    failures += f3
    ctx.log("int<->float conversion cases=%d evals=%d failures=%d" % (len(fcases), st3["evaluations"], len(f3)))
    ctx.log("operator evals=%d coq_cases=%d model_mismatches=%d; string/host evals=%d model_rows=%d failures=%d"
            % (st["evaluations"], st["coq_cases"], st["model_mismatches"], st2["evaluations"], st2["model_rows"], len(failures)))
    dist = {}
    for c in cases:
        dist[c["op"]] = dist.get(c["op"], 0) + 1
    cov = {
        "evaluations": st["evaluations"] + st2["evaluations"] + st3["evaluations"],
        "distinct_nontrivial": len(st["nontrivial"]) + st3["nontrivial"],
        "int_float_conversion_cases": len(fcases),
        "rule": "boundary grid around 0, +-2^31, +-2^32, +-2^53, +-2^63, +-2^64 (exhaustive pairs per operator) + random operands up to "
                "256 bits; each evaluated folded, at run time and by augmented assignment; non-trivial = an operand or the exact result "
                "lies outside the i32 range, or the specification is an error; distinct by (op, a, b)",
        "traces_validated_against_impl": st["coq_cases"] + st2["model_rows"],
        "model_mismatches": st["model_mismatches"] + st2["model_mismatches"],
        "spec_errors_exercised": st["errors"],
        "input_distribution": dist,
        "string_host_cases": len(scases),
        "exhaustive": False,
        "samples": [cases[0], cases[len(cases) // 2], cases[-1], scases[0], scases[-1]],
    }
    return {"coverage": cov, "failures": failures}


def search(ctx, broken):
    """A proof obligation or the tie broke: look for an operand pair on which the implementation
    differs from exact arithmetic, with the thorough generators."""
    old = ctx.tier
    ctx.tier = "thorough"
    try:
        failures, st = evaluate(ctx, gen_cases(ctx))
        f2, _ = evaluate_strings(ctx, string_cases(ctx))
        f3, _ = evaluate_floats(ctx, float_cases(ctx))
        f2 = f2 + f3
    finally:
        ctx.tier = old
    return {"failures": failures + f2, "coverage": {"evaluations": st["evaluations"]}}


def replay(ctx, rep):
    c = rep.get("replay", {}).get("case")
    if not c:
        return {"coverage": {}, "failures": []}
    if c["op"] in ("f2i", "i2f"):
        failures, st = evaluate_floats(ctx, [c])
    elif c["op"] in BIN or c["op"] in UN:
        failures, st = evaluate(ctx, [c])
    else:
        failures, st = evaluate_strings(ctx, [c])
    return {"coverage": {"evaluations": st["evaluations"], "distinct_nontrivial": 1, "samples": [c]}, "failures": failures}


META = {
    "category": "proof",
    "level_text": "Full. Coq theorems (Properties/C10.v, 23 statements, closed under the global context) show that the model of the "
                  "Small/Big integer representation returns a canonical representation of the exact Z result for + - * // % unary - ~ & | ^ "
                  "<< >> abs, comparisons, i32 unpacking, and that digit rendering/parsing in any base 2..36 round-trips; errors are exactly "
                  "division by zero, negative shifts and the documented shift cap. The model is tied to /repo on every run: constants "
                  "(InlineInt::BITS, shift cap) are re-extracted from the source, and the model (extracted to OCaml) is run against the "
                  "real evaluator on exhaustive boundary-grid pairs and random operands up to 256 bits, folded and at run time, "
                  "including representation tags and host fixed-width conversions.",
    "level_note": "Trusted: Coq kernel; extraction (ExtrOcamlBasic only) + ocaml/int_driver.ml; tools/extract.py; harness bin ints + hook H4; "
                  "num-bigint modelled as Z; f64 conversions are not modelled (int<->float is checked under C09). The tie is differential "
                  "testing, so a code change outside the generated operands' reach can escape.",
    "technique": "Coq proof of model = Z arithmetic; translator-extracted constants; extracted model vs implementation on boundary grid",
    "design_ref": "DESIGN.md section 4 C10",
}
