"""C15 Call-depth, tick and cancellation limits end evaluation with an error, exactly.

Proof: coq/Limits/{Model,Proofs}.v + Properties/C15.v.  The model is the tick machinery of evaluator.rs (the pair
total_at_last_check/counter, report_forward_progress with its failing-check-returns-early behaviour, the cancellation
callback as an oracle indexed by invocation, `current > limit`), the call-stack counter with the hidden module frame,
and a cost language (Skip/Emit/Seq/Loop/Frame) with `ticks`, `max_depth`, `emits` computed structurally.

Tie: programs are generated as cost-language terms and rendered to Starlark by the calibrated mapping below
(which construct ticks, which pushes a frame); the real evaluator (harness bin `eval`) runs them under
max_callstack_size / max_tick_count / a cancellation callback answering true from its K-th invocation, three times each,
with a second (and third) program on the SAME evaluator; the Coq model (extracted to OCaml) runs the same term and
configuration.  Compared per step: outcome class, get_total_tick_count(), call_stack_count() afterwards, transcript.
Independently of the model, the specification is checked: over budget <=> tick-limit error, raised no later than one
period after the budget; depth error <=> max_depth >= max_callstack_size; cancellation honoured at its check; stack empty
afterwards; same tick count on every run.

Calibration (measured on the unchanged tree, mirrored by `model_of`):
  ticks:  loop back-edge (InstrContinue; also comprehension clauses; once per item, none for an empty iterable, none on
          `break`); every call through a call instruction: def / lambda / frozen def / native function / method looked up
          by name / bound method / partial object / struct field.
  no tick: known-method fast path (`xs.append(..)` on a list) ; Starlark functions called back by natives
          (`map`, `filter`, `sorted(key=)`, `partial`'s inner call) ; calls folded at compile time (`len([1,2])`,
          `range(3)` with constant arguments) ; calls inlined by the optimiser (frozen callee whose body is
          `return <expr over parameters/constants/calls>` or empty).
  frames: every non-inlined call pushes one frame, ticking or not (natives and known methods too); `map(f, xs)` holds
          2 frames while `f` runs; `partial(f)()` 2; the module itself holds one hidden frame, so
          max_callstack_size = N admits N - 1 nested calls.
"""
import json
import os
import re

import sv

PROP = "C15"
HARNESS_BINS = ["eval", "limits"]
COQ_TARGETS = ["Properties/C15.vo", "Limits/Cases.vo", "Extract/LimitsX.vo"]
TRUSTED = ["harness bin limits (eval_function entry point, check_tick_count_limit classified by enum discriminant)",
           "extraction: ExtrOcamlBasic only (nat stays unary); ocaml/limits_driver.ml (token parser / printer, hand-written); OCaml 4.13.1 ocamlopt",
           "tools/props/C15.py: the renderer cost-language term -> Starlark source (the calibrated mapping of constructs to "
           "ticks/frames; every generated program is also checked against the structural `ticks`/`max_depth`/`emits`)",
           "harness bin eval (options max_callstack / max_ticks / cancel_after_checks, per-step ticks and stack_after)",
           "the cancellation callback is modelled as an oracle indexed by its invocation count (Section variable `cancelled`)"]
ASSUMPTIONS = ["the heap-size limit (second check of run_infrequent_instr_checks) is not configured and not modelled",
               "native stack exhaustion before the configured call depth is out of scope (depth limits <= 200 are used)",
               "which Starlark construct ticks / pushes a frame is established by calibration and differential testing, "
               "not by proof (bytecode compiler and interpreter loop are not modelled); the translator anchors the five "
               "report_forward_progress call sites",
               "evaluations start on a fresh evaluator or one re-used after a previous evaluation; set_max_* are called before the first evaluation"]

PERIOD_FALLBACK = 1000


# ---------------------------------------------------------------------------------------------
# cost-language terms (Python mirror of the Coq `prog`):  ("S",) ("E",k) ("Q",[..]) ("L",n,b) ("F",t,b)

def seq(items):
    items = [x for x in items if x != ("S",)]
    if not items:
        return ("S",)
    if len(items) == 1:
        return items[0]
    return ("Q", items)


def ticks(p):
    k = p[0]
    if k in ("S", "E"):
        return 0
    if k == "Q":
        return sum(ticks(x) for x in p[1])
    if k == "L":
        return p[1] * (ticks(p[2]) + 1)
    return (1 if p[1] else 0) + ticks(p[2])


def max_depth(p):
    k = p[0]
    if k in ("S", "E"):
        return 0
    if k == "Q":
        return max(max_depth(x) for x in p[1])
    if k == "L":
        return max_depth(p[2]) if p[1] > 0 else 0
    return 1 + max_depth(p[2])


def emits(p):
    k = p[0]
    if k == "S":
        return []
    if k == "E":
        return [p[1]]
    if k == "Q":
        out = []
        for x in p[1]:
            out += emits(x)
        return out
    if k == "L":
        return emits(p[2]) * p[1]
    return emits(p[2])


def tokens(p):
    k = p[0]
    if k == "S":
        return "S"
    if k == "E":
        return "E %d" % p[1]
    if k == "Q":
        items = p[1]
        s = tokens(items[-1])
        for x in reversed(items[:-1]):
            s = "Q %s %s" % (tokens(x), s)
        return s
    if k == "L":
        return "L %d %s" % (p[1], tokens(p[2]))
    return "%s %s" % ("F1" if p[1] else "F0", tokens(p[2]))


# ---------------------------------------------------------------------------------------------
# source-level programs: a small AST rendered to Starlark AND mapped to the cost language
#
#   ("pass",)                          statement without calls or loops
#   ("block", [stmts])
#   ("for", n, stmt)                   for _i in range(n): stmt          (range of a literal is folded: no tick)
#   ("compr", n, call)                 [call for _i in range(n)]         (a clause is a loop; no frame of its own)
#   ("break_after", n, stmt)           for _i in range(n + 3): if _i == n: break ; stmt    (n back-edges, no tick on break)
#   call nodes (usable as statement or inside compr / lambda):
#   ("emit", k)                        emit(k)                           native through a call instruction
#   ("native",)                        opaque(0)
#   ("def", body)                      f() for a fresh `def f(): body`
#   ("lambda", call)                   l() for a fresh `l = lambda: call`
#   ("cb", fn, m, body)                fn in map/filter/sorted: fn(g, [0]*m) for a fresh `def g(x): body`
#   ("partial", body)                  partial(f)() for a fresh def f
#   ("struct", body)                   struct(f = f).f()
#   ("method",)                        [].append(0)                      known-method fast path: frame, no tick
#   ("bound",)                         ([].append)(0) via a temporary    bound method object through InstrCall
#   ("inl_emit", k)                    inl(k) with `def inl(x): return emit(x)`; inlined only when the callee is frozen

CALLS = ("emit", "native", "def", "lambda", "cb", "partial", "struct", "method", "inl_emit")
# lambda bodies that def_inline.rs classifies as safe to inline (no reference to module variables or locals)
INLINABLE_EXPR = ("emit", "native", "method")


def model_of(n, frozen):
    k = n[0]
    if k == "pass":
        return ("S",)
    if k == "block":
        return seq([model_of(x, frozen) for x in n[1]])
    if k == "for":
        return ("L", n[1], model_of(n[2], frozen))
    if k == "compr":
        return ("L", n[1], model_of(n[2], frozen))
    if k == "break_after":
        b = model_of(n[2], frozen)
        return seq([("L", n[1], b), b])          # the iteration that breaks runs the body's prefix = whole body here, no tick
    if k == "emit":
        return ("F", True, ("E", n[1]))
    if k == "native":
        return ("F", True, ("S",))
    if k == "def":
        return ("F", True, model_of(n[1], frozen))
    if k == "lambda":
        if frozen and n[1][0] in INLINABLE_EXPR:
            return model_of(n[1], frozen)        # `lambda: emit(3)` is `return <call of a frozen global on constants>`: inlined once frozen
        return ("F", True, model_of(n[1], frozen))
    if k == "cb":
        b = model_of(n[3], frozen)
        return ("F", True, seq([("F", False, b)] * n[2]))
    if k == "partial":
        return seq([("F", True, ("S",)), ("F", True, ("F", False, model_of(n[1], frozen)))])
    if k == "struct":
        return seq([("F", True, ("S",)), ("F", True, model_of(n[1], frozen))])
    if k == "method":
        return ("F", False, ("S",))
    if k == "bound":
        return ("F", True, ("S",))
    if k == "inl_emit":
        return ("F", True, ("E", n[1])) if frozen else ("F", True, ("F", True, ("E", n[1])))
    raise ValueError(k)


class Render:
    """Renders a source-level program; all helper defs go to `defs` (module level, or the frozen library)."""

    def __init__(self, prefix="f"):
        self.defs = []
        self.n = 0
        self.prefix = prefix
        self.need_inl = False

    def fresh(self, kind):
        self.n += 1
        return "%s%s%d" % (self.prefix, kind, self.n)

    def expr(self, n):
        k = n[0]
        if k == "emit":
            return "emit(%d)" % n[1]
        if k == "native":
            return "opaque(0)"
        if k == "def":
            name = self.fresh("d")
            body = self.stmts(n[1], 1)
            self.defs.append("def %s():\n    _u = 0\n%s\n" % (name, "\n".join(body)))
            return "%s()" % name
        if k == "lambda":
            inner = self.expr(n[1])
            name = self.fresh("l")
            self.defs.append("%s = lambda: %s\n" % (name, inner))
            return "%s()" % name
        if k == "cb":
            name = self.fresh("g")
            body = self.stmts(n[3], 1)
            self.defs.append("def %s(_x):\n    _u = 0\n%s\n    return 0\n" % (name, "\n".join(body)))
            lst = "[" + ", ".join(["0"] * n[2]) + "]"
            if n[1] == "sorted":
                return "sorted(%s, key = %s)" % (lst, name)
            return "%s(%s, %s)" % (n[1], name, lst)
        if k == "partial":
            name = self.fresh("p")
            body = self.stmts(n[1], 1)
            self.defs.append("def %s():\n    _u = 0\n%s\n" % (name, "\n".join(body)))
            return "partial(%s)()" % name
        if k == "struct":
            name = self.fresh("s")
            body = self.stmts(n[1], 1)
            self.defs.append("def %s():\n    _u = 0\n%s\n" % (name, "\n".join(body)))
            return "struct(f = %s).f()" % name
        if k == "method":
            return "[].append(0)"
        if k == "inl_emit":
            self.need_inl = True
            return "inl(%d)" % n[1]
        raise ValueError(k)

    def stmts(self, n, ind):
        pad = "    " * ind
        k = n[0]
        if k == "pass":
            return [pad + "pass"]
        if k == "block":
            out = []
            for x in n[1]:
                out += self.stmts(x, ind)
            return out or [pad + "pass"]
        if k == "for":
            v = self.fresh("i")
            return [pad + "for _%s in range(%d):" % (v, n[1])] + self.stmts(n[2], ind + 1)
        if k == "break_after":
            v = self.fresh("i")
            return ([pad + "for _%s in range(%d):" % (v, n[1] + 3)] + self.stmts(n[2], ind + 1)
                    + [pad + "    if _%s == %d:" % (v, n[1]), pad + "        break"])
        if k == "compr":
            v = self.fresh("i")
            return [pad + "_c = [%s for _%s in range(%d)]" % (self.expr(n[2]), v, n[1])]
        if k == "bound":
            return [pad + "_b = [].append", pad + "_b(0)"]
        return [pad + self.expr(n)]


INL_DEF = "def inl(_x):\n    return emit(_x)\n"


def build(node, variant, prefix="f"):
    """-> (src, mods, term).  variant: module | def | frozen."""
    r = Render(prefix)
    if variant == "module":
        body = r.stmts(node, 0)
        src = "".join(r.defs) + (INL_DEF if r.need_inl else "") + "\n".join(body) + "\n"
        return src, None, model_of(node, False)
    body = r.stmts(node, 1)
    main = "def %smain():\n    _u = 0\n%s\n" % (prefix, "\n".join(body))
    if variant == "def":
        src = "".join(r.defs) + (INL_DEF if r.need_inl else "") + main + "%smain()\n" % prefix
        return src, None, ("F", True, model_of(node, False))
    lib = (INL_DEF if r.need_inl else "") + "".join(r.defs) + main
    src = "load('lib.star', '%smain')\n%smain()\n" % (prefix, prefix)
    return src, [{"name": "lib.star", "src": lib}], ("F", True, model_of(node, True))


# ---------------------------------------------------------------------------------------------
# recursion shapes: (name, source builder(d) -> (src, mods), term builder(d))

def nest(d, leaf=("S",)):
    t = leaf
    for _ in range(d):
        t = ("F", True, t)
    return t


def _rec_cb(d, wrap):
    # f(d) = F1 body_d ; body_1 = Skip ; body_n = wrap(body_{n-1})
    b = ("S",)
    for _ in range(d - 1):
        b = wrap(b)
    return ("F", True, b)


def rec_shapes():
    sh = {}
    direct = "def f(n):\n    if n <= 1:\n        return 0\n    return 1 + f(n - 1)\n"
    sh["direct"] = (lambda d: (direct + "f(%d)\n" % d, None), lambda d: nest(d))
    sh["direct_frozen"] = (lambda d: ("load('lib.star', 'f')\nf(%d)\n" % d, [{"name": "lib.star", "src": direct}]), lambda d: nest(d))
    mutual = ("def f(n):\n    if n <= 1:\n        return 0\n    return 1 + g(n - 1)\n"
              "def g(n):\n    if n <= 1:\n        return 0\n    return 1 + f(n - 1)\n")
    sh["mutual"] = (lambda d: (mutual + "f(%d)\n" % d, None), lambda d: nest(d))
    sh["mutual_frozen"] = (lambda d: ("load('lib.star', 'f')\nf(%d)\n" % d, [{"name": "lib.star", "src": mutual}]), lambda d: nest(d))
    lam = "f = lambda n: 0 if n <= 1 else 1 + f(n - 1)\n"
    sh["lambda"] = (lambda d: (lam + "f(%d)\n" % d, None), lambda d: nest(d))
    compr = "def f(n):\n    return [f(n - 1) for _i in range(1)] if n > 1 else []\n"
    sh["comprehension"] = (lambda d: (compr + "f(%d)\n" % d, None),
                           lambda d: _rec_cb(d, lambda b: ("L", 1, ("F", True, b))))
    for fn, call in (("map", "map(f, [n - 1])"), ("filter", "filter(f, [n - 1])"), ("sorted_key", "sorted([n - 1], key = f)")):
        src = "def f(n):\n    if n > 1:\n        %s\n    return 0\n" % call
        sh[fn] = ((lambda s: lambda d: (s + "f(%d)\n" % d, None))(src),
                  lambda d: _rec_cb(d, lambda b: ("F", True, ("F", False, b))))
    part = "def f(n):\n    if n > 1:\n        partial(f, n - 1)()\n    return 0\n"
    sh["partial"] = (lambda d: (part + "f(%d)\n" % d, None),
                     lambda d: _rec_cb(d, lambda b: ("Q", [("F", True, ("S",)), ("F", True, ("F", False, b))])))
    struct = "def f(n):\n    if n > 1:\n        struct(g = f).g(n - 1)\n    return 0\n"
    sh["struct_field"] = (lambda d: (struct + "f(%d)\n" % d, None),
                          lambda d: _rec_cb(d, lambda b: ("Q", [("F", True, ("S",)), ("F", True, b)])))
    bound = "def f(n):\n    if n <= 1:\n        b = [].append\n        b(0)\n        return 0\n    return 1 + f(n - 1)\n"
    sh["bound_method_leaf"] = (lambda d: (bound + "f(%d)\n" % d, None), lambda d: nest(d, ("F", True, ("S",))))
    known = "def f(n):\n    if n <= 1:\n        x = []\n        x.append(0)\n        return 0\n    return 1 + f(n - 1)\n"
    sh["known_method_leaf"] = (lambda d: (known + "f(%d)\n" % d, None), lambda d: nest(d, ("F", False, ("S",))))
    emitleaf = "def f(n):\n    if n <= 1:\n        emit(n)\n        return 0\n    return 1 + f(n - 1)\n"
    sh["native_leaf"] = (lambda d: (emitleaf + "f(%d)\n" % d, None), lambda d: nest(d, ("F", True, ("E", 1))))
    # callees small enough to be inlined (frozen library): idt and inl disappear, emit's own call remains
    inl = ("def idt(_x):\n    return _x\n" + INL_DEF +
           "def f(n):\n    if n <= 1:\n        return inl(7)\n    return f(idt(n) - 1)\n")
    sh["inlined_frozen"] = (lambda d: ("load('lib.star', 'f')\nf(%d)\n" % d, [{"name": "lib.star", "src": inl}]),
                            lambda d: nest(d, ("F", True, ("E", 7))))

    def not_inlined(d):
        b = ("F", True, ("F", True, ("E", 7)))          # body of f(1): inl(7) -> emit(7), both real calls in an unfrozen module
        for _ in range(d - 1):
            b = ("Q", [("F", True, ("S",)), ("F", True, b)])   # body of f(n): idt(n), then f(..)
        return ("F", True, b)
    sh["small_callee_same_module"] = (lambda d: (inl + "f(%d)\n" % d, None), not_inlined)
    return sh


# ---------------------------------------------------------------------------------------------
# random structures

def gen_call(rng, depth, allow_emit=True):
    """A call node of nesting budget `depth`."""
    kinds = ["native", "method"]
    if allow_emit:
        kinds += ["emit", "emit", "inl_emit"]
    if depth > 0:
        kinds += ["def", "def", "def", "lambda", "cb", "cb", "partial", "struct"]
    k = rng.choice(kinds)
    if k == "emit":
        return ("emit", rng.randint(0, 99))
    if k == "inl_emit":
        return ("inl_emit", rng.randint(100, 199))
    if k in ("native", "method"):
        return (k,)
    if k == "def":
        return ("def", gen_block(rng, depth - 1, allow_emit, small=True))
    if k == "lambda":
        return ("lambda", gen_call(rng, depth - 1, allow_emit))
    if k == "cb":
        return ("cb", rng.choice(["map", "filter", "sorted"]), rng.randint(0, 3), gen_block(rng, depth - 1, allow_emit, small=True))
    return (k, gen_block(rng, depth - 1, allow_emit, small=True))


def gen_stmt(rng, depth, allow_emit, small):
    r = rng.random()
    if r < 0.12:
        return ("pass",)
    if r < 0.22:
        return ("bound",)
    if r < 0.38 and depth > 0:
        n = rng.choice([0, 1, 2, 3]) if small else rng.choice([0, 1, 2, 3, 5, 8])
        return ("for", n, gen_block(rng, depth - 1, allow_emit, small=True))
    if r < 0.46 and depth > 0:
        return ("compr", rng.choice([0, 1, 2, 4]), gen_call(rng, depth - 1, allow_emit))
    if r < 0.52 and depth > 0:
        return ("break_after", rng.choice([0, 1, 3]), gen_block(rng, depth - 1, allow_emit, small=True))
    return gen_call(rng, depth, allow_emit)


def gen_block(rng, depth, allow_emit=True, small=False):
    n = rng.randint(1, 2 if small else 4)
    return ("block", [gen_stmt(rng, depth, allow_emit, small) for _ in range(n)])


def gen_big(rng, target):
    """A program of roughly `target` ticks: a few big loops around small bodies, with small emitting structure around."""
    parts = [gen_block(rng, 2, True, small=True)]
    remaining = target
    nloops = rng.randint(1, 3)
    for i in range(nloops):
        body = gen_block(rng, 2, False, small=True)
        per = ticks(model_of(body, False)) + 1
        share = remaining if i == nloops - 1 else rng.randint(remaining // 4, max(remaining // 4, remaining * 3 // 4))
        n = max(1, share // per)
        if rng.random() < 0.3:
            parts.append(("for", n, body))
        elif rng.random() < 0.5:
            inner = rng.choice([2, 3, 7])
            parts.append(("for", max(1, n // (inner + 1)), ("block", [("for", inner, body), ("pass",)])))
        else:
            parts.append(("def", ("for", n, body)))
        remaining = max(per, remaining - n * per)
        if rng.random() < 0.5:
            parts.append(gen_call(rng, 1, True))
    parts.append(gen_block(rng, 1, True, small=True))
    return ("block", parts)


# ---------------------------------------------------------------------------------------------
# running both sides

def classify(out):
    if "ok" in out:
        return ("ok", None)
    e = out.get("err", {})
    msg = e.get("msg", "")
    if e.get("kind") == "StackOverflow" and "call stack overflow" in msg:
        return ("overflow", None)
    m = re.search(r"Execution duration limit of (\d+) ticks has been exceeded", msg)
    if m:
        return ("ticklimit", int(m.group(1)))
    if "Evaluation cancelled" in msg:
        return ("cancelled", None)
    return ("other:%s:%s" % (e.get("kind"), msg[:80]), None)


def harness_case(c):
    """eval.rs case, or (when the case has `calls`) a limits.rs case: the first source defines functions, every further
    step is Evaluator::eval_function(name, args)."""
    opts = {}
    if c["D"] is not None:
        opts["max_callstack"] = c["D"]
    if c["L"] is not None:
        opts["max_ticks"] = c["L"]
    if c["K"] is not None:
        opts["cancel_after_checks"] = c["K"]
    if c.get("calls") is not None:
        h = {"steps": [{"src": c["srcs"][0]}] + [{"call": f, "args": a} for f, a in c["calls"]], "opts": opts}
    else:
        h = {"src": c["srcs"][0], "then": c["srcs"][1:], "opts": opts}
    if c.get("mods"):
        h["mods"] = c["mods"]
    return h


def run_impl(ctx, cases):
    """Each case three times (neighbours land in different shards = different processes). -> (rc, log, [[r1, r2, r3], ...])"""
    out = [None] * len(cases)
    rc_all, log_all = 0, ""
    for bin_name, idx in (("eval", [i for i, c in enumerate(cases) if c.get("calls") is None]),
                          ("limits", [i for i, c in enumerate(cases) if c.get("calls") is not None])):
        if not idx:
            continue
        hcases = []
        for i in idx:
            h = harness_case(cases[i])
            hcases += [h, h, h]
        rc, log, res = sv.run_harness_sharded(ctx, bin_name, hcases, timeout=1500)
        if rc != 0:
            rc_all, log_all = rc, log_all + log
        for k, i in enumerate(idx):
            out[i] = res[3 * k:3 * k + 3]
    return rc_all, log_all, out


def extracted_constants():
    """(check period, default stack size) as extracted from the sources of the tree under check."""
    try:
        txt = open(os.path.join(sv.COQ, "Extracted", "LimitsC.v")).read()
        per = int(re.search(r"Definition tick_period : Z := (\d+)%Z", txt).group(1))
        dflt = int(re.search(r"Definition default_stack_size : Z := (\d+)%Z", txt).group(1))
        return per, dflt
    except Exception:  # noqa: BLE001
        return PERIOD_FALLBACK, 50


def run_model(ctx, cases):
    """-> (list of per-case model results or None, error text)"""
    okd, exe = sv.ocaml_driver("Extract/LimitsX.vo", "limits_model", "limits_driver")
    if not okd:
        return None, "could not build the extracted model: " + exe[-400:]
    lines = []
    for i, c in enumerate(cases):
        o = lambda v: "-" if v is None else str(v)
        lines.append("%d %s %s %s %s" % (i, o(c["D"]), o(c["L"]), o(c["K"]), " | ".join(tokens(t) for t in c["terms"])))
    okr, outl = sv.run_driver_sharded(ctx, exe, lines, "limits", timeout=600)
    res = [None] * len(cases)
    done = 0
    for l in outl:
        if l.startswith("done "):
            done += int(l.split()[1])
            continue
        m = re.match(r"(\d+) (.*) # (.*)$", l)
        if not m:
            continue
        steps = []
        for s in m.group(2).split(" ; "):
            code, t, d, lim, tr = s.strip().split(":")
            steps.append({"code": code, "ticks": int(t), "depth": int(d), "limit": None if lim == "-" else int(lim),
                          "tr": [int(x) for x in tr.split(",") if x != ""]})
        facts = []
        for s in m.group(3).split(" ; "):
            t, d, tr = s.strip().split(":")
            facts.append((int(t), int(d), [int(x) for x in tr.split(",") if x != ""]))
        res[int(m.group(1))] = {"steps": steps, "facts": facts}
    if not okr or done != len(cases):
        return res, "extracted model driver failed (%d of %d cases): %s" % (done, len(cases), outl[-3:])
    return res, ""


def evaluate(ctx, cases, use_model=True):
    """cases: dicts {shape, D, L, K, srcs[], mods, terms[]}.  Returns (failures, broken, stats)."""
    period, dflt = extracted_constants()
    failures, broken = [], []
    rc, log, res = run_impl(ctx, cases)
    ctx.log("implementation ran %d cases x3 (rc=%s)" % (len(cases), rc))
    if rc != 0:
        failures.append({"key": "harness-crash", "what": "eval harness exited with %s (crash instead of an error?): %s" % (rc, log[-300:]),
                         "replay": {"rc": rc, "log": log[-500:]}})
    model, merr = (None, "")
    if use_model:
        model, merr = run_model(ctx, cases)
        if merr:
            broken.append(("model-run-failed", merr))
        ctx.log("extracted Coq model evaluated %d cases %s" % (len([m for m in (model or []) if m]), merr[:100]))
    st = {"steps": 0, "model_agree": 0, "errors": {"overflow": 0, "ticklimit": 0, "cancelled": 0}, "nontrivial": set(),
          "spec_checks": 0, "reuse_steps": 0}

    def fail(c, key, what, extra):
        # key = "<shape>:<kind>"; a disagreement about one construct keeps the full shape, a violation of a global
        # mechanism (budget / depth / cancellation boundary) is keyed by the family of the shape only
        shp, kind = key.rsplit(":", 1)
        if kind not in ("tick-count", "model-differs", "transcript", "unexpected-error", "crash", "library-failed"):
            key = "%s:%s" % (shp.split("/")[0], kind)
        rep = {"case": {k: c.get(k) for k in ("shape", "D", "L", "K", "srcs", "mods", "calls")}, "terms": [tokens(t) for t in c["terms"]]}
        rep.update(extra)
        failures.append({"key": key, "what": what, "replay": rep})

    for i, c in enumerate(cases):
        runs = res[i]
        shape = c["shape"]
        if any(r is None or "panic" in (r or {}) for r in runs):
            fail(c, "%s:crash" % shape, "the evaluator crashed/panicked instead of returning an error: %s" % (runs,), {"impl": runs})
            continue
        if any(any("err" in x for x in r.get("lib", [])) for r in runs):
            fail(c, "%s:library-failed" % shape, "library module failed to load: %s" % (runs[0].get("lib"),), {"impl": runs[0]})
            continue
        # run-to-run equality (tick counts, outcomes, transcripts)
        views = [[(classify(s["out"]), s["ticks"], s["stack_after"], s["tr"]) for s in r["steps"]] for r in runs]
        checks = [[s.get("check") for s in r["steps"]] for r in runs]
        if checks[0] != checks[1] or checks[0] != checks[2]:
            views[1] = None
        if views[0] != views[1] or views[0] != views[2]:
            fail(c, "%s:nondeterministic" % shape, "three runs of the same program/configuration differ: %s" % (views,), {"impl": runs})
            continue
        steps = views[0]
        tms = c["terms"]
        sp_t = [ticks(t) for t in tms]
        sp_d = [max_depth(t) for t in tms]
        sp_e = [emits(t) for t in tms]
        D = c["D"] if c["D"] is not None else dflt
        L, K = c["L"], c["K"]
        # ---- specification, independent of the Coq model -------------------------------------
        prev = 0
        budget_blown = False
        for j, ((cls, lim), tk, stack, tr) in enumerate(steps):
            st["steps"] += 1
            if j > 0:
                st["reuse_steps"] += 1
            tr_i = []
            bad_tr = False
            for x in tr:
                if x.startswith("i") and x[1:].isdigit():
                    tr_i.append(int(x[1:]))
                else:
                    bad_tr = True
            where = "step %d of %s (D=%s L=%s K=%s)" % (j, shape, c["D"], L, K)
            if cls.startswith("other") or bad_tr:
                fail(c, "%s:unexpected-error" % shape, "%s: unexpected outcome %s / transcript %s" % (where, cls, tr[:5]), {"impl": runs[0], "step": j})
                break
            if stack != 0:
                fail(c, "%s:stack-not-restored" % shape, "%s: call_stack_count() = %d after the evaluation (%s)" % (where, stack, cls),
                     {"impl": runs[0], "step": j})
            done = tk - prev
            if done < 0 or done > sp_t[j] or (cls == "ok" and done != sp_t[j]):
                fail(c, "%s:tick-count" % shape,
                     "%s: %d ticks counted for this step, the program has %d (outcome %s); a call path or loop edge ticks differently"
                     % (where, done, sp_t[j], cls), {"impl": runs[0], "step": j, "spec_ticks": sp_t[j]})
            if (cls == "ok" and tr_i != sp_e[j]) or tr_i != sp_e[j][:len(tr_i)]:
                fail(c, "%s:transcript" % shape, "%s: transcript %s is not %s of %s" % (where, tr_i[:20], "equal to" if cls == "ok" else "a prefix", sp_e[j][:20]),
                     {"impl": runs[0], "step": j})
            chk = runs[0]["steps"][j].get("check")
            if chk is not None:
                want_chk = "none" if L is None else ("exceeded" if tk > L else ("warn" if tk > L // 2 else "ok"))
                st["check_calls"] = st.get("check_calls", 0) + 1
                if chk != want_chk:
                    fail(c, "%s:check-tick-count-limit" % shape,
                         "%s: check_tick_count_limit() is %s at %d ticks with limit %s, expected %s" % (where, chk, tk, L, want_chk),
                         {"impl": runs[0], "step": j, "spec": want_chk})
            if cls in st["errors"]:
                st["errors"][cls] += 1
            fits = sp_d[j] < D
            st["spec_checks"] += 1
            # (a) tick budget
            if L is not None and K is None and fits:
                over = prev + sp_t[j] > L
                if over and cls != "ticklimit":
                    fail(c, "%s:budget-exceeded-unnoticed" % shape,
                         "%s: %d ticks executed in total with a budget of %d but the outcome is %s" % (where, tk, L, cls),
                         {"impl": runs[0], "step": j, "spec": "ticklimit"})
                elif not over and cls != "ok":
                    fail(c, "%s:fails-within-budget" % shape,
                         "%s: total %d + %d ticks <= budget %d but the outcome is %s at %d ticks" % (where, prev, sp_t[j], L, cls, tk),
                         {"impl": runs[0], "step": j, "spec": "ok"})
                elif over and cls == "ticklimit":
                    if lim != L:
                        fail(c, "%s:wrong-limit-reported" % shape, "%s: error reports limit %s, configured %s" % (where, lim, L), {"impl": runs[0], "step": j})
                    if not budget_blown and not (L < tk <= L + period):
                        fail(c, "%s:late-tick-limit" % shape,
                             "%s: tick-limit error raised at %d ticks, budget %d, check period %d: not within (L, L+period]" % (where, tk, L, period),
                             {"impl": runs[0], "step": j, "spec": "L < t <= L + period"})
                    if budget_blown and done > period:
                        fail(c, "%s:late-tick-limit-reuse" % shape,
                             "%s: budget already exceeded before this evaluation, yet it ran %d ticks (more than a period) before failing" % (where, done),
                             {"impl": runs[0], "step": j})
                if cls == "ticklimit":
                    budget_blown = True
            # (b) depth
            if L is None and K is None:
                if fits and cls != "ok":
                    fail(c, "%s:fails-within-depth" % shape,
                         "%s: program nests %d calls, max_callstack_size %d admits %d, but the outcome is %s" % (where, sp_d[j], D, D - 1, cls),
                         {"impl": runs[0], "step": j, "spec": "ok"})
                if not fits and cls != "overflow":
                    fail(c, "%s:depth-exceeded-unnoticed" % shape,
                         "%s: program nests %d calls, max_callstack_size %d admits %d, but the outcome is %s" % (where, sp_d[j], D, D - 1, cls),
                         {"impl": runs[0], "step": j, "spec": "overflow"})
            # (c) cancellation (first step of a fresh evaluator)
            if K is not None and L is None and fits and j == 0:
                want = "cancelled" if K <= sp_t[0] // period else "ok"
                at = min(sp_t[0], (K + 1) * period) if want == "cancelled" else sp_t[0]
                if cls != want or tk != at:
                    fail(c, "%s:cancellation" % shape,
                         "%s: cancellation requested from check %d on: expected %s at %d ticks, got %s at %d" % (where, K, want, at, cls, tk),
                         {"impl": runs[0], "step": j, "spec": [want, at]})
            prev = tk
        # ---- the Coq model on the same term and configuration ----------------------------------
        if model is not None and model[i] is not None:
            m = model[i]
            if [(f[0], f[1], f[2]) for f in m["facts"]] != list(zip(sp_t, sp_d, sp_e)):
                broken.append(("spec-functions-differ", "Coq ticks/max_depth/emits differ from the Python mirror on %s" % tokens(tms[0])[:200]))
            for j, ((cls, lim), tk, stack, tr) in enumerate(steps):
                ms = m["steps"][j]
                tr_i = [int(x[1:]) for x in tr if x.startswith("i") and x[1:].isdigit()]
                if (cls, lim, tk, stack, tr_i) != (ms["code"], ms["limit"], ms["ticks"], ms["depth"], ms["tr"]):
                    fail(c, "%s:model-differs" % shape,
                         "step %d of %s (D=%s L=%s K=%s): implementation (%s, ticks=%d, stack=%d, %d emits) but Coq model (%s, ticks=%d, stack=%d, %d emits); "
                         "program ticks=%d depth=%d" % (j, shape, c["D"], L, K, cls, tk, stack, len(tr_i), ms["code"], ms["ticks"], ms["depth"], len(ms["tr"]),
                                                         sp_t[j], sp_d[j]),
                         {"impl": runs[0]["steps"][j], "model": ms, "step": j, "spec_ticks": sp_t[j], "spec_depth": sp_d[j]})
                    break
                st["model_agree"] += 1
        if sp_t[0] >= 1 or sp_d[0] >= 1:
            st["nontrivial"].add((c["srcs"][0], json.dumps(c.get("mods")), c["D"], L, K))
    return failures, broken, st


# ---------------------------------------------------------------------------------------------
# case generation

THEN_NODE = ("block", [("emit", 900), ("for", 3, ("def", ("emit", 901))), ("cb", "map", 2, ("pass",))])


def then_steps(prefix="t"):
    src, _, term = build(THEN_NODE, "module", prefix)
    return [(src, term), ("x = 1\n", ("S",))]


def depth_cases(ctx, limits, window=2):
    cases = []
    shapes = rec_shapes()
    then = then_steps()
    for name, (mk_src, mk_term) in shapes.items():
        for D in limits:
            if D > 60 and name in ("map", "filter", "sorted_key", "partial", "comprehension", "struct_field", "small_callee_same_module"):
                continue          # keep native stack use of debug builds modest
            for d in range(1, D + window + 3):
                term = mk_term(d)
                md = max_depth(term)
                # frames used including the hidden one = md + 1; sweep every depth in [limit-2, limit+2] (+1 for 2-frame shapes)
                if not (D - window - 1 <= md + 1 <= D + window + 1):
                    continue
                src, mods = mk_src(d)
                for Dopt in ([D, None] if D == 50 else [D]):
                    cases.append({"shape": "rec/" + name, "D": Dopt, "L": None, "K": None, "srcs": [src] + [s for s, _ in then],
                                  "mods": mods, "terms": [term] + [t for _, t in then]})
    return cases


def tick_cases(ctx, nprog, per_prog_budgets, period):
    rng = ctx.rng
    cases = []
    then = then_steps()
    for pi in range(nprog):
        target = rng.choice([300, 1200, 2100, 3300, 4200])
        node = gen_big(rng, target)
        variant = rng.choice(["module", "def", "frozen"])
        src, mods, term = build(node, variant)
        T = ticks(term)
        budgets = set()
        for dlt in range(-2, 3):
            budgets.add(T + dlt)
        for m in range(1, T // period + 2):
            for dlt in (-1, 0, 1):
                budgets.add(m * period + dlt)
        budgets |= {1, 2, period // 2, T + period, T // 2}
        budgets = sorted(b for b in budgets if b >= 1)
        if len(budgets) > per_prog_budgets:
            must = [b for b in budgets if abs(b - T) <= 2]
            rest = [b for b in budgets if abs(b - T) > 2]
            rng.shuffle(rest)
            budgets = sorted(must + rest[:max(0, per_prog_budgets - len(must))])
        for L in budgets:
            cases.append({"shape": "ticks/" + variant, "D": None, "L": L, "K": None, "srcs": [src] + [s for s, _ in then], "mods": mods,
                          "terms": [term] + [t for _, t in then]})
        # cancellation at every check position of this program (and one past the end)
        if pi % 2 == 0:
            for K in range(0, T // period + 3):
                cases.append({"shape": "cancel/" + variant, "D": None, "L": None, "K": K, "srcs": [src] + [s for s, _ in then], "mods": mods,
                              "terms": [term] + [t for _, t in then]})
        # everything at once (model comparison only)
        if pi % 3 == 0:
            for _ in range(3):
                cases.append({"shape": "combined/" + variant, "D": rng.choice([None, 3, 5, 8, max(2, max_depth(term) + 1), max_depth(term) + 2]),   # never 1: see corpus size1-*
                              "L": rng.choice([None, T - 1, T, T + 3, max(1, T // 2), period + 1]), "K": rng.choice([None, 0, 1, 2, T // period]),
                              "srcs": [src] + [s for s, _ in then], "mods": mods, "terms": [term] + [t for _, t in then]})
    return cases


def construct_cases(ctx, period):
    """One program per construct, with the budget / depth / cancellation swept around it (used by corpus and search)."""
    cases = []
    then = then_steps()
    singles = [("emit", 1), ("native",), ("method",), ("bound",), ("inl_emit", 7), ("def", ("pass",)), ("lambda", ("native",)),
               ("cb", "map", 3, ("emit", 2)), ("cb", "filter", 2, ("pass",)), ("cb", "sorted", 3, ("emit", 3)), ("partial", ("emit", 4)),
               ("struct", ("emit", 5)), ("for", 4, ("pass",)), ("compr", 4, ("native",)), ("break_after", 2, ("emit", 6)), ("for", 0, ("emit", 8))]
    for node in singles:
        for variant in ("module", "def", "frozen"):
            reps = period + 3
            big = ("block", [("for", reps, node), node])
            src, mods, term = build(big, variant)
            T = ticks(term)
            for L in sorted({T - 2, T - 1, T, T + 1, period - 1, period, period + 1, 2 * period - 1, 2 * period, 2 * period + 1, 1}):
                if L >= 1:
                    cases.append({"shape": "construct/%s/%s" % (node[0] if node[0] != "cb" else node[1], variant), "D": None, "L": L, "K": None,
                                  "srcs": [src] + [s for s, _ in then], "mods": mods, "terms": [term] + [t for _, t in then]})
            for K in range(0, T // period + 2):
                cases.append({"shape": "construct/%s/%s" % (node[0] if node[0] != "cb" else node[1], variant), "D": None, "L": None, "K": K,
                              "srcs": [src] + [s for s, _ in then], "mods": mods, "terms": [term] + [t for _, t in then]})
            ssrc, smods, sterm = build(node, variant)
            md = max_depth(sterm)
            # D >= 2: at max_callstack_size = 1 even the compile-time evaluation of `range(<literal>)` cannot run (see corpus)
            for D in range(max(2, md - 1), md + 4):
                cases.append({"shape": "construct/%s/%s" % (node[0] if node[0] != "cb" else node[1], variant), "D": D, "L": None, "K": None,
                              "srcs": [ssrc] + [s for s, _ in then], "mods": smods, "terms": [sterm] + [t for _, t in then]})
    return cases


ENTRY_DEFS = ("def rec(n):\n    if n <= 1:\n        return 0\n    return 1 + rec(n - 1)\n"
              "def loop(n):\n    for _i in range(n):\n        pass\n    return n\n"
              "def work(n):\n    for _i in range(n):\n        emit(7)\n    return n\n")


def entry_term(f, a):
    """Evaluator::eval_function(f, [a]): hidden frame + the function's own frame through Value::invoke (no tick)."""
    if f == "rec":
        return ("F", False, nest(max(0, a - 1)))
    if f == "loop":                                     # range(n) with a run-time n is a real native call
        return ("F", False, seq([("F", True, ("S",)), ("L", a, ("S",))]))
    return ("F", False, seq([("F", True, ("S",)), ("L", a, ("F", True, ("E", 7)))]))


def entry_cases(ctx, period):
    cases = []

    def add(shape, D, L, K, calls):
        for variant in ("module", "frozen"):
            if variant == "module":
                src0, mods = ENTRY_DEFS, None
            else:
                src0, mods = "load('lib.star', 'rec', 'loop', 'work')\n", [{"name": "lib.star", "src": ENTRY_DEFS}]
            cases.append({"shape": "entry/%s/%s" % (shape, variant), "D": D, "L": L, "K": K, "srcs": [src0] + ["%s(%d)" % fa for fa in calls],
                          "mods": mods, "calls": [[f, [a]] for f, a in calls], "terms": [("S",)] + [entry_term(f, a) for f, a in calls]})
    for D in (2, 5, 10, None):
        lim = D if D is not None else 50
        for d in range(max(1, lim - 3), lim + 3):
            add("depth", D, None, None, [("rec", d), ("rec", 2), ("work", 3)])
    n = period * 7 // 10
    T = n + 1
    for L in sorted({T - 1, T, T + 1, 2 * T - 1, 2 * T, 2 * T + 1, 3 * T - 1, 3 * T, 3 * T + 1, period - 1, period, period + 1, 2 * period, 2 * period + 1, 1}):
        add("ticks", None, L, None, [("loop", n), ("loop", n), ("work", 2), ("loop", n), ("rec", 3)])
    for K in range(0, 5):
        add("cancel", None, None, K, [("loop", period + period // 5), ("work", 1), ("loop", period + period // 5), ("rec", 2)])
    return cases


def corpus_cases():
    p = os.path.join(sv.ROOT, "corpus", "C15", "boundary.jsonl")
    out = []
    if os.path.exists(p):
        for line in open(p):
            line = line.strip()
            if line and not line.startswith("#"):
                c = json.loads(line)
                c["terms"] = [parse_tokens(t) for t in c["terms"]]
                out.append(c)
    return out


def parse_tokens(s):
    toks = s.split()
    pos = [0]

    def go():
        t = toks[pos[0]]
        pos[0] += 1
        if t == "S":
            return ("S",)
        if t == "E":
            pos[0] += 1
            return ("E", int(toks[pos[0] - 1]))
        if t == "Q":
            a = go()
            b = go()
            return ("Q", [a, b])
        if t == "L":
            pos[0] += 1
            n = int(toks[pos[0] - 1])
            return ("L", n, go())
        if t in ("F1", "F0"):
            return ("F", t == "F1", go())
        raise ValueError(t)
    return go()


def all_cases(ctx, thorough=False):
    period, _ = extracted_constants()
    cases = corpus_cases()
    # configured limits on both sides of the default, next to powers of two and multiples of the default (an allocation
    # that grows lazily or in steps must still enforce the configured number exactly), plus two limits drawn per run
    limits = [5, 10, 50, 51, 64, 99, 100, 101, 130] + sorted({ctx.rng.randint(52, 160) for _ in range(2)})
    cases += depth_cases(ctx, limits if not thorough else limits + [200, 257], window=2)
    cases += construct_cases(ctx, period)
    cases += entry_cases(ctx, period)
    cases += tick_cases(ctx, 60 if not thorough else 1500, 16 if not thorough else 40, period)
    return cases


def coverage_of(cases, st, failures):
    dist = {}
    for c in cases:
        k = c["shape"].split("/")[0]
        dist[k] = dist.get(k, 0) + 1
    sample = []
    for want in ("rec/", "ticks/", "cancel/", "entry/"):
        for c in cases:
            if c["shape"].startswith(want):
                sample.append({"shape": c["shape"], "D": c["D"], "L": c["L"], "K": c["K"], "src": c["srcs"][0][:1500], "term": tokens(c["terms"][0])[:600],
                               "ticks": ticks(c["terms"][0]), "max_depth": max_depth(c["terms"][0])})
                break
    return {
        "evaluations": 3 * len(cases),
        "distinct_nontrivial": len(st["nontrivial"]),
        "rule": "recursion shapes (direct, mutual, lambda, comprehension, map, filter, sorted(key=), partial, struct field, bound/known method and native leaves, "
                "frozen defs, inlinable callees) at every depth whose frame count lies within limit-3..limit+3 for limits 10, 50 (default and explicit) "
                "[200 in the thorough tier]; one program per construct x (module | inside a def | frozen library) with budgets at ticks-2..ticks+1 and "
                "period*{1,2}+-1, cancellation at every check index, depth limits around its nesting; random loop/call structures of 300..4500 ticks "
                "with budgets at ticks-2..ticks+2, every multiple of the period +-1, and cancellation at every check index; Evaluator::eval_function "
                "entry (recursion around each depth limit, budget and cancellation sweeps, check_tick_count_limit() class after every call); "
                "hand-written corpus; each case run three times "
                "in different processes and followed by two more evaluations on the same evaluator. non-trivial = the first program ticks or nests at "
                "least once; distinct by (source, library, D, L, K)",
        "configurations": len(cases),
        "steps_compared": st["steps"],
        "reuse_steps_compared": st["reuse_steps"],
        "traces_validated_against_impl": st["model_agree"],
        "spec_checks": st["spec_checks"],
        "limit_errors_observed": st["errors"],
        "check_tick_count_limit_calls_compared": st.get("check_calls", 0),
        "input_distribution": dist,
        "exhaustive": False,
        "samples": sample,
        "corpus": sorted(os.listdir(os.path.join(sv.ROOT, "corpus", "C15"))) if os.path.isdir(os.path.join(sv.ROOT, "corpus", "C15")) else [],
    }


def correspond(ctx):
    cases = all_cases(ctx, thorough=not ctx.quick())
    ctx.log("generated %d configurations" % len(cases))
    failures, broken, st = evaluate(ctx, cases)
    ctx.log("steps=%d model-agree=%d spec-checks=%d errors=%s failures=%d" % (st["steps"], st["model_agree"], st["spec_checks"], st["errors"], len(failures)))
    return {"coverage": coverage_of(cases, st, failures), "failures": failures, "broken": broken}


def search(ctx, broken):
    """A proof / pin / translator item / the model run broke: sweep budgets, depths and cancellation points around every
    construct and every recursion shape and compare the implementation with the SPECIFICATION (the model may be the broken part)."""
    period, _ = extracted_constants()
    cases = corpus_cases() + construct_cases(ctx, period) + entry_cases(ctx, period) + depth_cases(ctx, [10, 50], window=2) + tick_cases(ctx, 60, 30, period)
    failures, _, st = evaluate(ctx, cases, use_model=False)
    return {"failures": failures, "coverage": {"evaluations": 3 * len(cases), "spec_checks": st["spec_checks"]}}


def replay(ctx, rep):
    r = rep.get("replay", {})
    c = r.get("case")
    if not c:
        return {"coverage": {}, "failures": []}
    c = dict(c)
    c["terms"] = [parse_tokens(t) for t in r["terms"]]
    failures, broken, st = evaluate(ctx, [c])
    return {"coverage": {"evaluations": 3, "distinct_nontrivial": 1, "samples": [c["srcs"][0][:500]]}, "failures": failures, "broken": broken}


META = {
    "category": "proof",
    "level_text": "Full for the modelled mechanism. Coq theorems (Properties/C15.v, closed under the global context) show for ALL programs of the cost "
                  "language, all check periods > 0, stack sizes > 0, budgets and cancellation oracles: get_total_tick_count advances by exactly one per "
                  "tick across checks and failed checks (C15_tick_total); over budget <=> tick-limit error, raised at a tick count in (L, L+period], at a "
                  "multiple of the period or by the end-of-evaluation check (C15_tick_limit_bound / _unaffected / _sticky); a stack of N frames admits exactly "
                  "N-1 nested calls under the hidden module frame (C15_depth_exact, boundary examples at N and N+1); a cancellation request is honoured at "
                  "its check, within one period (C15_cancel_within_period); after any outcome the stack is empty and the tick total continues "
                  "(C15_reusable_after_limit). The model is tied to /repo on every run: period, default stack size, the comparison operators, the shape of "
                  "report_forward_progress / run_infrequent_instr_checks / push / eval_module and the five tick sites are re-extracted from the source, and "
                  "the extracted model is run against the real evaluator on recursion shapes at every depth around each limit, budget sweeps around each "
                  "program's tick count and every multiple of the period, and cancellation at every check index.",
    "level_note": "Trusted: Coq kernel; extraction (ExtrOcamlBasic) + ocaml/limits_driver.ml; tools/extract.py; harness bin eval; the renderer from "
                  "cost-language terms to Starlark in tools/props/C15.py (calibrated mapping of constructs to ticks/frames). Which source construct ticks "
                  "or pushes a frame is tied by differential testing, not proved (compiler/interpreter loop are not modelled); eval_function is "
                  "modelled as eval_module of a non-ticking frame around the body; the heap limit is not exercised.",
    "technique": "Coq proof over an executable model of the tick/depth/cancellation machinery; translator-anchored constants and statement shapes; "
                 "extracted model vs implementation on boundary sweeps; independent specification checks",
    "design_ref": "DESIGN.md section 4 C15",
}
