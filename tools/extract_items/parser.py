"""Translator items of C06 (group ParserC -> coq/Extracted/ParserC.v), all from
starlark_syntax/src/syntax/parser_rd.rs:

* bp_table           : the arms of `infix_binding_power` as (Token variant, BinOp variant, left bp, right bp)
* not_prefix_max     : `not` is a prefix operator in `parse_expr` when `min_bp <= <this>`
* not_prefix_rbp     : the operand of the prefix `not` is `parse_expr(<this>)`
* notin_expr_l/r     : the literal powers of the two-token `not in` in the loop of `parse_expr`
* notin_cont_l/r     : the same literals in the (duplicated) loop of `continue_infix`
* bitor_min_bp       : `parse_bitor_expr` = `continue_infix(parse_unary, <this>)` (assignment / for targets)
* argument_min_bp    : `parse_argument` re-enters with `continue_infix(expr, <this>)`
* or_test_min_bp, test_min_bp : `parse_or_test` / `parse_test` call `parse_expr(<this>)`
* comparison_ops     : the BinOp set of `is_comparison`
* expr_start         : the token set of `is_expr_start`
* assign_ops         : `parse_assign_op` (Token variant, AssignOp variant; "" for plain `=`)
* unary_ops          : the prefix arms of `parse_unary` (Token variant, Expr constructor)
and from starlark_syntax/src/syntax/ast.rs:

* str_escapes        : the arms of `fmt_string_literal` (the printer of string literals, load() names and desugared
                       f-string formats) as (code point, code points of the text written); the regular expression pins the
                       whole function: opening quote, one `match c` over `s.chars()` whose last arm writes the char itself,
                       closing quote - any other shape (an extra fast path, a second loop) fails the translator
Every regular expression must match exactly once; anything else fails the translator loudly.
"""
import re

P = "starlark_syntax/src/syntax/parser_rd.rs"
A = "starlark_syntax/src/syntax/ast.rs"


def rust_unescape(body):
    """code points of the body of a Rust char / string literal (the escapes Rust has: \\n \\r \\t \\0 \\\\ \\' \\" \\xHH \\u{..})"""
    out, i = [], 0
    simple = {"n": 10, "r": 13, "t": 9, "0": 0, "\\": 92, "'": 39, '"': 34}
    while i < len(body):
        c = body[i]
        if c != "\\":
            out.append(ord(c))
            i += 1
            continue
        k = body[i + 1]
        if k in simple:
            out.append(simple[k])
            i += 2
        elif k == "x":
            out.append(int(body[i + 2:i + 4], 16))
            i += 4
        elif k == "u":
            j = body.index("}", i)
            out.append(int(body[i + 3:j].replace("_", ""), 16))
            i = j + 1
        else:
            raise ValueError("unknown Rust escape in %r" % body)
    return out


def register(item, z, coq_list, coq_string0, num, src):
    def coq_string(s):
        return coq_string0(s) + "%string"

    def fn_body(name):
        # body of `fn name(` up to the closing brace at the method indentation (4 spaces)
        return r"\n    fn %s\b[^\n]*\{\n.*?\n    \}\n" % name

    def bp_table(m):
        rows = re.findall(r"Token::(\w+)\s*=>\s*\(BinOp::(\w+),\s*(\d+),\s*(\d+)\)", m.group(0))
        arms = re.findall(r"Token::\w+\s*=>", m.group(0))
        if len(rows) != len(arms) or not rows:
            raise ValueError("infix_binding_power: %d arms, %d parsed" % (len(arms), len(rows)))
        return coq_list(["(%s, %s, %s, %s)" % (coq_string(t), coq_string(o), z(num(l)), z(num(r))) for t, o, l, r in rows])

    item("ParserC", "bp_table", P, fn_body("infix_binding_power"), bp_table, coq_type="list (string * string * Z * Z)")

    pe = r"\n    fn parse_expr\(&mut self, min_bp: u8\)[^\n]*\{\n.*?\n    \}\n"
    item("ParserC", "not_prefix_max", P,
         r"fn parse_expr\(&mut self, min_bp: u8\)[^\n]*\{[^{}]*?if self\.peek\(\) == Some\(&Token::Not\) && min_bp <= (\d+) \{",
         lambda m: z(num(m.group(1))))
    item("ParserC", "not_prefix_rbp", P,
         r"&& min_bp <= \d+ \{\s*let l = self\.pos\(\);\s*self\.advance\(\);\s*let e = self\.parse_expr\((\d+)\)\?;\s*"
         r"let r = self\.last_end;\s*Expr::Not\(Box::new\(e\)\)",
         lambda m: z(num(m.group(1))))
    ni = r"if matches!\(tok, Token::Not\) \{\s*let left_bp = (\d+)u8;\s*let right_bp = (\d+)u8;\s*if left_bp < min_bp \{\s*break;"
    item("ParserC", "notin_expr_l", P, ni, lambda m: z(num(m.group(1))))
    item("ParserC", "notin_expr_r", P, ni, lambda m: z(num(m.group(2))))
    nc = r"if matches!\(tok, Token::Not\) \{\s*let \(_, left_bp, right_bp\) = \(BinOp::NotIn, (\d+)u8, (\d+)u8\);\s*if left_bp < min_bp \{\s*break;"
    item("ParserC", "notin_cont_l", P, nc, lambda m: z(num(m.group(1))))
    item("ParserC", "notin_cont_r", P, nc, lambda m: z(num(m.group(2))))
    item("ParserC", "bitor_min_bp", P,
         r"fn parse_bitor_expr\(&mut self\)[^\n]*\{\s*let lhs = self\.parse_unary\(\)\?;\s*self\.continue_infix\(lhs, (\d+)\)\s*\}",
         lambda m: z(num(m.group(1))))
    item("ParserC", "argument_min_bp", P,
         r"let expr = self\.continue_primary\(ident_expr\)\?;\s*let expr = self\.continue_infix\(expr, (\d+)\)\?;\s*"
         r"// Handle ternary if\s*let expr = self\.continue_ternary\(expr\)\?;",
         lambda m: z(num(m.group(1))))
    item("ParserC", "or_test_min_bp", P,
         r"fn parse_or_test\(&mut self\)[^\n]*\{\s*self\.parse_expr\((\d+)\)\s*\}", lambda m: z(num(m.group(1))))
    item("ParserC", "test_min_bp", P,
         r"fn parse_test\(&mut self\)[^\n]*\{\s*if self\.peek\(\) == Some\(&Token::Lambda\) \{\s*return self\.parse_lambda\(\);\s*\}\s*"
         r"let expr = self\.parse_expr\((\d+)\)\?;\s*self\.continue_ternary\(expr\)\s*\}", lambda m: z(num(m.group(1))))

    def names(rx):
        def conv(m):
            xs = re.findall(rx, m.group(1))
            if not xs:
                raise ValueError("empty set")
            return coq_list([coq_string(x) for x in xs])
        return conv

    item("ParserC", "comparison_ops", P,
         r"fn is_comparison\(op: BinOp\) -> bool \{\s*matches!\(\s*op,(.*?)\)\s*\}", names(r"BinOp::(\w+)"), coq_type="list string")
    item("ParserC", "expr_start", P,
         r"fn is_expr_start\(&self\) -> bool \{\s*matches!\(\s*self\.peek\(\),\s*Some\((.*?)\)\s*\)\s*\}",
         names(r"Token::(\w+)"), coq_type="list string")

    def assign_ops(m):
        rows = re.findall(r"Some\(Token::(\w+)\)\s*=>\s*(None|Some\(AssignOp::(\w+)\))", m.group(0))
        if len(rows) < 2:
            raise ValueError("parse_assign_op: no arms")
        return coq_list(["(%s, %s)" % (coq_string(t), coq_string(o)) for t, _, o in rows])

    item("ParserC", "assign_ops", P, fn_body("parse_assign_op"), assign_ops, coq_type="list (string * string)")

    def unary_ops(m):
        rows = re.findall(r"Some\(Token::(\w+)\)\s*=>\s*\{.*?Ok\(Expr::(\w+)\(Box::new\(e\)\)", m.group(0), re.S)
        if not rows:
            raise ValueError("parse_unary: no arms")
        return coq_list(["(%s, %s)" % (coq_string(t), coq_string(o)) for t, o in rows])

    item("ParserC", "unary_ops", P, fn_body("parse_unary"), unary_ops, coq_type="list (string * string)")

    def str_escapes(m):
        lines = [l for l in m.group(1).split("\n") if l.strip()]
        rows = []
        for l in lines:
            a = re.fullmatch(r"""\s*'((?:\\.|[^'\\])+)' => f\.write_str\("((?:\\.|[^"\\])*)"\)\?,""", l)
            if not a:
                raise ValueError("fmt_string_literal: unrecognised arm %r" % l)
            c = rust_unescape(a.group(1))
            if len(c) != 1:
                raise ValueError("fmt_string_literal: arm pattern %r is not one char" % a.group(1))
            rows.append("(%s, %s)" % (z(c[0]), coq_list([z(x) for x in rust_unescape(a.group(2))])))
        if not rows:
            raise ValueError("fmt_string_literal: no arms")
        return coq_list(rows)

    item("ParserC", "str_escapes", A,
         r"""\nfn fmt_string_literal\(f: &mut Formatter<'_>, s: &str\) -> fmt::Result \{\n    f\.write_str\("\\""\)\?;\n"""
         r"""    for c in s\.chars\(\) \{\n        match c \{\n(.*?)\n            x => f\.write_str\(&x\.to_string\(\)\)\?,\n"""
         r"""        \}\n    \}\n    f\.write_str\("\\""\)\n\}\n""",
         str_escapes, coq_type="list (Z * list Z)")
