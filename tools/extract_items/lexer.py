"""Translator items of the lexer/dialect component (C05): group LexC -> coq/Extracted/LexC.v.

Tables are re-read from /repo on every run:
  * the escape table of `lexer.rs: escape` (and a pin that `escape_bytes` carries the same table),
    digit counts of \\x \\u \\U and of octal escapes (`escape_char(it, min, max, radix)` call sites);
  * every `#[token("...")]` spelling of `enum Token` in declaration order (the variant names stay on the
    Python side, `token_names`, the model refers to a token by its index), the reserved words, and the
    regex/skip rules as pinned strings (the hand-written scanner of Lex/Model.v mirrors them;
    `C05_extracted_tables` fails to build when one of them changes);
  * the tab width of `calculate_indent`; the dialect presets of `dialect.rs`.
"""
import os
import re

LEXER = "starlark_syntax/src/lexer.rs"
DIALECT = "starlark_syntax/src/dialect.rs"

ESC_RE = r"fn escape\(it: &mut CursorChars, res: &mut String\) -> Result<\(\), \(\)> \{(.*?)\n    \}\n"
ESCB_RE = r"fn escape_bytes\(it: &mut CursorChars, res: &mut Vec<u8>\) -> Result<\(\), \(\)> \{(.*?)\n    \}\n"
TOKEN_ENUM_RE = r"pub enum Token \{(.*?)\n\}\n"
CHARS = {"\\n": 10, "\\r": 13, "\\t": 9, "\\x07": 7, "\\x08": 8, "\\x0C": 12, "\\x0B": 11}

FLAGS = ["enable_def", "enable_lambda", "enable_load", "enable_keyword_only_arguments",
         "enable_positional_only_arguments", "enable_types", "enable_load_reexport", "enable_top_level_stmt",
         "enable_f_strings"]
TYPES = {"DialectTypes::Disable": 0, "DialectTypes::ParseOnly": 1, "DialectTypes::Enable": 2}


def unrust(s):
    """Rust string-literal body -> text (only the escapes used in the token table)."""
    return s.replace('\\"', '"').replace("\\\\", "\\")


def simple_escapes(body, byte):
    pat = r"Some\('(\w)'\) => res\.push\(%s'(\\?[^']+)'\)" % ("b" if byte else "")
    out = []
    for m in re.finditer(pat, body):
        out.append((ord(m.group(1)), CHARS[m.group(2)]))
    if len(out) < 5:
        raise ValueError("escape table not found")
    return out


def token_attrs(text):
    """[(spelling, variant)] for every #[token("...")] in declaration order."""
    m = re.search(TOKEN_ENUM_RE, text, re.S)
    body = m.group(1)
    out = []
    pending = []
    for line in body.splitlines():
        s = line.strip()
        t = re.match(r'#\[token\("((?:[^"\\]|\\.)*)"\)\]', s)
        if t:
            pending.append(unrust(t.group(1)))
            continue
        v = re.match(r"([A-Z][A-Za-z0-9]*)\b", s)
        if v and pending:
            for p in pending:
                out.append((p, v.group(1)))
            pending = []
    return out


def reserved_words(text):
    m = re.search(r'#\[regex\(\s*"((?:[a-z]+\|\\\s*)+[a-z]+)"\s*\)\]\s*Reserved,', text)
    return [w for w in re.split(r"\|\\\s*", m.group(1))]


def regex_of(text, variant):
    """All #[regex(...)] patterns (Rust source text) attached to a variant."""
    m = re.search(TOKEN_ENUM_RE, text, re.S).group(1)
    out, pending = [], []
    for line in m.splitlines():
        s = line.strip()
        t = re.match(r'#\[regex\((r#?)?"(.*?)"#?(?:\s*,.*)?\)\]', s)
        if t:
            pending.append(t.group(2))
            continue
        if s.startswith("#[regex(") or s.startswith('"[a-zA-Z_]'):
            t2 = re.search(r'"(\[a-zA-Z_\].*?)"', s)
            if t2:
                pending.append(t2.group(1))
            continue
        v = re.match(r"([A-Z][A-Za-z0-9]*)\b", s)
        if v:
            if v.group(1) == variant:
                out += pending
            pending = []
    return out


def tables(repo):
    """Python-side view used by tools/props/C05.py."""
    text = open(os.path.join(repo, LEXER), encoding="utf-8").read()
    attrs = token_attrs(text)
    return {"spellings": [a for a, _ in attrs], "token_names": [b for _, b in attrs], "reserved": reserved_words(text)}


def preset(text, name):
    m = re.search(r"pub const %s: Self = Self \{(.*?)\};" % name, text, re.S)
    vals = []
    for f in FLAGS:
        v = re.search(r"\b%s: ([A-Za-z:]+)," % f, m.group(1)).group(1)
        vals.append(TYPES[v] if f == "enable_types" else {"true": 1, "false": 0}[v])
    return vals


def register(item, z, coq_list, coq_string, num, src):
    def cps(s):
        return coq_list([z(ord(c)) for c in s])

    def pairs(ps):
        return coq_list(["(%s, %s)" % (z(a), z(b)) for a, b in ps])

    item("LexC", "escape_simple", LEXER, ESC_RE, lambda m: pairs(simple_escapes(m.group(1), False)), coq_type="list (Z * Z)")
    item("LexC", "escape_simple_bytes", LEXER, ESCB_RE, lambda m: pairs(simple_escapes(m.group(1), True)), coq_type="list (Z * Z)")
    # (min, max, radix) of the numeric escapes, string and bytes variants
    item("LexC", "escape_x", LEXER, r"Some\('x'\) => res\.push\(Self::escape_char\(it, (\d+), (\d+), (\d+)\)\?\)",
         lambda m: coq_list([z(num(m.group(i))) for i in (1, 2, 3)]), coq_type="list Z")
    item("LexC", "escape_u", LEXER, r"Some\('u'\) => res\.push\(Self::escape_char\(it, (\d+), (\d+), (\d+)\)\?\)",
         lambda m: coq_list([z(num(m.group(i))) for i in (1, 2, 3)]), coq_type="list Z")
    item("LexC", "escape_U", LEXER, r"Some\('U'\) => res\.push\(Self::escape_char\(it, (\d+), (\d+), (\d+)\)\?\)",
         lambda m: coq_list([z(num(m.group(i))) for i in (1, 2, 3)]), coq_type="list Z")
    item("LexC", "escape_oct", LEXER, r"'0'\.\.='7' => \{\s*it\.unnext\(c\);\s*res\.push\(Self::escape_char\(it, (\d+), (\d+), (\d+)\)\?\)",
         lambda m: coq_list([z(num(m.group(i))) for i in (1, 2, 3)]), coq_type="list Z")
    item("LexC", "escape_bytes_x", LEXER, r"Some\('x'\) => \{\s*let c = Self::escape_char\(it, (\d+), (\d+), (\d+)\)\?;",
         lambda m: coq_list([z(num(m.group(i))) for i in (1, 2, 3)]), coq_type="list Z")
    item("LexC", "escape_bytes_u", LEXER, r"Some\('u'\) => \{\s*let c = Self::escape_char\(it, (\d+), (\d+), (\d+)\)\?;",
         lambda m: coq_list([z(num(m.group(i))) for i in (1, 2, 3)]), coq_type="list Z")
    item("LexC", "escape_bytes_U", LEXER, r"Some\('U'\) => \{\s*let c = Self::escape_char\(it, (\d+), (\d+), (\d+)\)\?;",
         lambda m: coq_list([z(num(m.group(i))) for i in (1, 2, 3)]), coq_type="list Z")
    item("LexC", "escape_bytes_oct", LEXER,
         r"'0'\.\.='7' => \{\s*it\.unnext\(c\);\s*let c = Self::escape_char\(it, (\d+), (\d+), (\d+)\)\?;\s*if c as u32 > (\d+) \{",
         lambda m: coq_list([z(num(m.group(i))) for i in (1, 2, 3, 4)]), coq_type="list Z")
    # lex_fstring_content: which begin offset the invalid-escape error gets.  0 = `start + it.pos() - 1` (one byte before
    # the end whatever was consumed: finding F2); 1 = anything else, modelled as the offset of the backslash (the repair)
    item("LexC", "fstring_escape_span_begin", LEXER, r"Some\('\\\\'\) if !raw => \{(.*?)Some\('\\\\'\) if raw =>",
         lambda m: z(0 if re.search(r"start \+ it\.pos\(\) - 1,\s*start \+ it\.pos\(\),", m.group(1)) else 1))
    item("LexC", "indent_tab_width", LEXER, r"let indent = spaces \+ tabs \* (\d+);", lambda m: z(num(m.group(1))))
    item("LexC", "token_spellings", LEXER, TOKEN_ENUM_RE,
         lambda m: coq_list([cps(a) for a, _ in token_attrs(m.group(0))]), coq_type="list (list Z)")
    item("LexC", "token_count", LEXER, TOKEN_ENUM_RE, lambda m: z(len(token_attrs(m.group(0)))))
    item("LexC", "reserved_words", LEXER, TOKEN_ENUM_RE,
         lambda m: coq_list([cps(w) for w in reserved_words(m.group(0))]), coq_type="list (list Z)")
    # the regex rules, pinned as text (the scanner of Lex/Model.v is the hand translation of exactly these)
    for nm, var in (("re_comment", "Comment"), ("re_tabs", "Tabs"), ("re_newline", "Newline"), ("re_ident", "Identifier"),
                    ("re_dec", "RawDecInt"), ("re_hex", "RawHexInt"), ("re_bin", "RawBinInt"), ("re_oct", "RawOctInt"),
                    ("re_float", "Float")):
        item("LexC", nm, LEXER, TOKEN_ENUM_RE,
             (lambda var: lambda m: coq_list([coq_string(r) + "%string" for r in regex_of(m.group(0), var)]))(var), coq_type="list string")
    item("LexC", "re_skip", LEXER, r"((?:#\[logos\(skip r\"[^\"]*\"\)\][^\n]*\n)+)pub enum Token",
         lambda m: coq_list([coq_string(s) + "%string" for s in re.findall(r'skip r"([^"]*)"', m.group(1))]), coq_type="list string")
    # dialect presets, flags in struct order: def lambda load kwonly posonly types(0/1/2) load_reexport top_level_stmt f_strings
    for nm in ("Standard", "Extended", "AllOptionsInternal"):
        item("LexC", "dialect_" + nm, DIALECT, r"pub const %s: Self = Self \{(.*?)\};" % nm,
             (lambda nm: lambda m: coq_list([z(v) for v in preset(m.group(0), nm)]))(nm), coq_type="list Z")
