"""Translator items of C03 (group TraceC -> coq/Extracted/TraceC.v).

trace_table : list (string * list string * list string)
    one row per type that takes part in tracing: (type, value-bearing fields DECLARED, fields VISITED by trace)
    * `#[derive(Trace)]` structs/enums under starlark/src/values/** and starlark/src/eval/**: declared = fields whose type
      mentions `'v`, `Value<..>` or a generic parameter (PhantomData excluded); visited = all fields except
      `#[trace(unsafe_ignore)]` / `#[trace(static)]` ones (what starlark_derive/src/trace.rs generates);
    * hand-written `unsafe impl ... Trace<'v> for T`: declared as above from the struct definition; visited = fields that
      occur as `self.<field>` in the body of `fn trace`, directly or through `self.<method>()` calls resolved (depth <= 3)
      against `fn <method>` bodies of the same file;
    * the root set: `Evaluator::trace` (evaluator.rs) and `Module::trace` (modules.rs) as pseudo types;
    * the copy protocol: `heap_copy_impl` (avalue.rs) and the hand-written `heap_copy` of tuples and arrays as pseudo types
      whose "fields" are the protocol obligations (forward before trace, payload traced, fill after trace).
trace_unparsed : list string
    types with a Trace impl / derive the script could not parse (never reported as OK).

Best effort and purely syntactic: a row whose declared fields are all visited discharges `visit_complete` for that type at the
granularity of named fields; a dropped field in a manual impl shows up as declared-but-not-visited.
"""
import os
import re

REPO = os.environ.get("SV_REPO", "/repo")
SCAN_DIRS = ["starlark/src/values", "starlark/src/eval"]


def strip_comments(s):
    s = re.sub(r"//[^\n]*", "", s)
    s = re.sub(r"/\*.*?\*/", "", s, flags=re.S)
    return s


def match_close(s, i, open_c, close_c):
    """s[i] == open_c; index of the matching close_c."""
    depth = 0
    for j in range(i, len(s)):
        c = s[j]
        if c == open_c:
            depth += 1
        elif c == close_c:
            depth -= 1
            if depth == 0:
                return j
    return -1


def split_top(s):
    """split at top-level commas (ignoring (), [], {}, <>)"""
    out, depth, cur = [], 0, ""
    prev = ""
    for c in s:
        if c in "([{<":
            depth += 1
        elif c in ")]}":
            depth -= 1
        elif c == ">" and prev != "-" and prev != "=":
            depth -= 1
        if c == "," and depth == 0:
            out.append(cur)
            cur = ""
        else:
            cur += c
        prev = c
    if cur.strip():
        out.append(cur)
    return out


def generics_of(g):
    """'<'v, V: X, T>' -> ['V', 'T']"""
    if not g:
        return []
    names = []
    for part in split_top(g.strip()[1:-1]):
        part = part.strip()
        if not part or part.startswith("'") or part.startswith("const "):
            continue
        if re.search(r":[^,]*'static", part):
            continue     # `V: Bound + 'static` cannot hold a `Value<'v>`
        names.append(re.split(r"[:\s=]", part)[0])
    return names


def drop_generic_app(ty, head_re):
    """remove every `Head<...>` (balanced) / bare `Head` whose head matches head_re"""
    while True:
        m = re.search(head_re, ty)
        if not m:
            return ty
        j = m.end()
        k = j
        while k < len(ty) and ty[k].isspace():
            k += 1
        if k < len(ty) and ty[k] == "<":
            depth = 0
            e = k
            for e in range(k, len(ty)):
                if ty[e] == "<":
                    depth += 1
                elif ty[e] == ">" and ty[e - 1] not in "-=":
                    depth -= 1
                    if depth == 0:
                        break
            j = e + 1
        ty = ty[:m.start()] + " " + ty[j:]


def value_bearing(ty, gens):
    # PhantomData<..> holds nothing; Frozen*<..> values live in frozen heaps and are never moved
    ty2 = drop_generic_app(ty, r"(std::marker::|marker::)?PhantomData\b")
    ty2 = drop_generic_app(ty2, r"\bFrozen[A-Za-z]*\b")
    if re.search(r"'v\b", ty2) or re.search(r"(?<![A-Za-z_])Value\b", ty2) or "ValueTyped" in ty2.replace("FrozenValueTyped", ""):
        return True
    for g in gens:
        if re.search(r"\b%s\b" % re.escape(g), ty2):
            return True
    return False


def parse_fields(body, tuple_like, gens):
    """-> list of (name, type, attrs) or None"""
    fields = []
    for idx, part in enumerate(split_top(body)):
        part = part.strip()
        if not part:
            continue
        attrs = []
        while part.startswith("#"):
            k = part.index("[")
            e = match_close(part, k, "[", "]")
            if e < 0:
                return None
            attrs.append(part[:e + 1])
            part = part[e + 1:].strip()
        part = re.sub(r"^pub(\s*\([^)]*\))?\s*", "", part)
        if tuple_like:
            fields.append((str(idx), part, attrs))
        else:
            m = re.match(r"(r#)?([A-Za-z_][A-Za-z0-9_]*)\s*:\s*(.*)$", part, re.S)
            if not m:
                return None
            fields.append((m.group(2), m.group(3), attrs))
    return fields


TYPE_HEAD = re.compile(r"\b(struct|enum)\s+([A-Za-z_][A-Za-z0-9_]*)\s*(<[^{;(]*?>)?\s*(where[^{;(]*)?\s*([({;])", re.S)


def find_type(text, name):
    """definition of struct/enum `name` in text -> (kind, gens, fields) | None (not found) | 'unparsed'"""
    for m in TYPE_HEAD.finditer(text):
        if m.group(2) != name:
            continue
        return parse_type_at(text, m)
    return None


def parse_type_at(text, m):
    kind, gens = m.group(1), generics_of(m.group(3))
    opener = m.group(5)
    if opener == ";":
        return (kind, gens, [])
    i = m.end() - 1
    j = match_close(text, i, opener, ")" if opener == "(" else "}")
    if j < 0:
        return "unparsed"
    body = text[i + 1:j]
    if kind == "struct":
        fs = parse_fields(body, opener == "(", gens)
        return "unparsed" if fs is None else (kind, gens, fs)
    # enum: one pseudo field per variant that carries data
    fs = []
    for part in split_top(body):
        part = part.strip()
        attrs = []
        while part.startswith("#"):
            k = part.index("[")
            e = match_close(part, k, "[", "]")
            if e < 0:
                return "unparsed"
            attrs.append(part[:e + 1])
            part = part[e + 1:].strip()
        if not part:
            continue
        vm = re.match(r"([A-Za-z_][A-Za-z0-9_]*)\s*(.*)$", part, re.S)
        if not vm:
            return "unparsed"
        payload = vm.group(2).strip()
        if payload and payload[0] in "({":
            fs.append((vm.group(1), payload, attrs))
    return (kind, gens, fs)


def rs_files():
    out = []
    for d in SCAN_DIRS:
        for root, _, files in os.walk(os.path.join(REPO, d)):
            for f in sorted(files):
                if f.endswith(".rs"):
                    p = os.path.join(root, f)
                    rel = os.path.relpath(p, REPO)
                    if "/tests/" in rel or rel.endswith("/tests.rs"):
                        continue
                    out.append(rel)
    return sorted(out)


def method_bodies(text):
    """name -> list of bodies of `fn name(...) {...}` in the file"""
    res = {}
    for m in re.finditer(r"\bfn\s+([A-Za-z_][A-Za-z0-9_]*)\s*(<[^>(]*>)?\s*\(", text):
        i = text.find("{", m.end())
        semi = text.find(";", m.end())
        if i < 0 or (0 <= semi < i):
            continue
        j = match_close(text, i, "{", "}")
        if j > 0:
            res.setdefault(m.group(1), []).append(text[i:j + 1])
    return res


def fields_mentioned(body, methods, depth=3, seen=None):
    """fields occurring as `self.<field>` in body, directly or through `self.<method>()` (same-file methods, depth <= 3)"""
    seen = seen if seen is not None else set()
    touched = set(re.findall(r"\bself\s*\.\s*([A-Za-z_0-9]+)\b(?!\s*\()", body))
    if depth > 0:
        for name in set(re.findall(r"\bself\s*\.\s*([A-Za-z_][A-Za-z0-9_]*)\s*\(", body)):
            if name in seen or name == "trace":
                continue
            seen.add(name)
            for b in methods.get(name, []):
                touched |= fields_mentioned(b, methods, depth - 1, seen)
    return touched


_KW = {"mut", "ref", "let", "Some", "Ok", "Err", "None", "self", "_"}


def fields_touched(body, methods, depth=3, seen=None):
    """fields TRACED by a `fn trace` body: a field counts when it is mentioned in a statement that also mentions
    `trace`/`tracer`, or when it is bound to a local name (`let n = self.f...;`, `let (a, b) = self.f.split();`,
    `let T(a, b) = self;`, `let T { f, g: n, .. } = self;`) that is later used in such a statement."""
    segs = [x for x in re.split(r";", body)]
    traced = set()
    binds = {}          # local name -> set of fields
    for seg in segs:
        is_trace = re.search(r"\btrace\w*\b|\btracer\b", seg) is not None
        lm = re.search(r"\blet\s+(.*?)=(?!=)(.*)$", seg, re.S)
        if lm:
            pat, rhs = lm.group(1), lm.group(2)
            if re.fullmatch(r"\s*(&mut\s+)?\*?self\s*", rhs):
                inner = re.search(r"([({])(.*)[)}]", pat, re.S)
                if inner:
                    for idx, part in enumerate(split_top(inner.group(2))):
                        part = part.strip()
                        if not part or part in ("..", "_"):
                            continue
                        if inner.group(1) == "(":
                            fname, bind = str(idx), part
                        else:
                            fname, _, bind = part.partition(":")
                            fname, bind = fname.strip(), (bind.strip() or fname.strip())
                        bind = re.sub(r"^(ref\s+)?(mut\s+)?", "", bind)
                        if bind not in _KW:
                            binds.setdefault(bind, set()).add(fname)
            else:
                fs = fields_mentioned(rhs, methods)
                if fs:
                    for nm in re.findall(r"[A-Za-z_][A-Za-z0-9_]*", pat):
                        if nm not in _KW and not nm[0].isupper():
                            binds.setdefault(nm, set()).update(fs)
        if is_trace:
            traced |= fields_mentioned(seg if not lm else lm.group(2), methods)
            for nm, fs in binds.items():
                if re.search(r"\b%s\b" % re.escape(nm), seg if not lm else lm.group(2)):
                    traced |= fs
    return traced


def build():
    rows, unparsed = [], []
    texts = {rel: strip_comments(open(os.path.join(REPO, rel), encoding="utf-8").read()) for rel in rs_files()}

    def short(rel):
        return rel.replace("starlark/src/", "")

    # 1. derives
    for rel, text in texts.items():
        for m in re.finditer(r"#\[derive\(([^\]]*?)\)\]", text, re.S):
            if not re.search(r"(?<![A-Za-z_:])Trace\b", m.group(1)):
                continue
            hm = TYPE_HEAD.search(text, m.end())
            # the type head must follow the attribute block directly (only attributes / visibility in between)
            between = text[m.end():hm.start()] if hm else "x"
            between = re.sub(r"#\[[^\]]*\]", "", between)
            between = re.sub(r"pub(\s*\([^)]*\))?", "", between).strip()
            if not hm or between:
                unparsed.append("%s:derive@%d" % (short(rel), text.count("\n", 0, m.start()) + 1))
                continue
            name = "%s:%s" % (short(rel), hm.group(2))
            t = parse_type_at(text, hm)
            if t == "unparsed":
                unparsed.append(name)
                continue
            kind, gens, fs = t
            declared = [f for f, ty, _ in fs if value_bearing(ty, gens)]
            visited = [f for f, ty, attrs in fs
                       if not any(re.search(r"trace\s*\(\s*(unsafe_ignore|static)", a) for a in attrs)]
            rows.append((name, declared, [f for f in visited if f in declared]))

    # 2. manual impls
    impl_re = re.compile(r"unsafe\s+impl\s*(<[^{]*?>)?\s*Trace\s*<\s*'[a-z_]+\s*>\s+for\s+([A-Za-z_][A-Za-z0-9_]*)\b[^{]*\{", re.S)
    for rel, text in texts.items():
        if rel.endswith("values/trace.rs"):
            continue     # blanket impls for std containers: element-wise by construction
        meths = None
        for m in impl_re.finditer(text):
            tname = m.group(2)
            name = "%s:%s" % (short(rel), tname)
            j = match_close(text, m.end() - 1, "{", "}")
            t = find_type(text, tname)
            if t is None:
                for rel2, text2 in texts.items():
                    t = find_type(text2, tname)
                    if t is not None:
                        break
            fm = re.search(r"fn\s+trace\s*\([^)]*\)\s*\{", text[m.end():j]) if j > 0 else None
            if t in (None, "unparsed") or not fm:
                unparsed.append(name)
                continue
            bi = m.end() + fm.end() - 1
            bj = match_close(text, bi, "{", "}")
            body = text[bi:bj + 1]
            if meths is None:
                meths = method_bodies(text)
            kind, gens, fs = t
            declared = [f for f, ty, _ in fs if value_bearing(ty, gens)]
            touched = fields_touched(body, meths)
            rows.append((name, declared, [f for f in declared if f in touched]))

    # 3. root set
    for rel, tname, where in (("starlark/src/eval/runtime/evaluator.rs", "Evaluator", r"fn\s+trace\s*\(\s*&mut\s+self\s*,\s*tracer\s*:\s*&Tracer<'v>\s*\)\s*\{"),
                              ("starlark/src/environment/modules.rs", "Module", r"pub\(crate\)\s+fn\s+trace\s*\(\s*&self\s*,\s*tracer\s*:\s*&Tracer<'v>\s*\)\s*\{")):
        name = "%s:%s::trace" % (short(rel), tname)
        try:
            text = strip_comments(open(os.path.join(REPO, rel), encoding="utf-8").read())
            t = find_type(text, tname)
            fm = list(re.finditer(where, text))
            if t in (None, "unparsed") or len(fm) != 1:
                unparsed.append(name)
                continue
            bi = fm[0].end() - 1
            body = text[bi:match_close(text, bi, "{", "}") + 1]
            kind, gens, fs = t
            declared = [f for f, ty, _ in fs if re.search(r"'v\b", ty) and "PhantomData" not in ty]
            touched = fields_touched(body, method_bodies(text))
            rows.append((name, declared, [f for f in declared if f in touched]))
        except OSError:
            unparsed.append(name)

    # 4. copy protocol
    def protocol(rel, label, head_re, trace_re):
        name = "%s:%s" % (short(rel), label)
        text = texts.get(rel) or strip_comments(open(os.path.join(REPO, rel), encoding="utf-8").read())
        hm = list(re.finditer(head_re, text, re.S))
        if len(hm) != 1:
            unparsed.append(name)
            return
        bi = text.find("{", hm[0].end() - 1)
        body = text[bi:match_close(text, bi, "{", "}") + 1]
        pos = {k: (re.search(r, body).start() if re.search(r, body) else -1)
               for k, r in (("reserve", r"\breserve(_with_extra)?\s*(::<[^>]*>)?\s*\("), ("forward", r"overwrite_with_forward"),
                            ("trace", trace_re), ("fill", r"\.\s*fill\s*\("))}
        declared = ["reserve", "forward_before_trace", "payload_traced", "fill_after_trace"]
        ok = []
        if pos["reserve"] >= 0 and (pos["forward"] < 0 or pos["reserve"] < pos["forward"]):
            ok.append("reserve")
        if 0 <= pos["forward"] < pos["trace"]:
            ok.append("forward_before_trace")
        if pos["trace"] >= 0:
            ok.append("payload_traced")
        if 0 <= pos["trace"] < pos["fill"]:
            ok.append("fill_after_trace")
        rows.append((name, declared, ok))

    protocol("starlark/src/values/layout/avalue.rs", "heap_copy_impl", r"unsafe\s+fn\s+heap_copy_impl\b[^{]*\{", r"\btrace\s*\(\s*&mut\s+[^,;]+,\s*tracer\s*\)")
    protocol("starlark/src/values/layout/avalues/tuple.rs", "AValueTuple::heap_copy",
             r"impl<'v>\s+AValue<'v>\s+for\s+AValueTuple\b.*?unsafe\s+fn\s+heap_copy\b[^{]*\{", r"tracer\s*\.\s*trace\s*\(\s*elem\s*\)|content\s*\.\s*trace\s*\(\s*tracer\s*\)")
    protocol("starlark/src/values/layout/avalues/array.rs", "AValueArray::heap_copy",
             r"impl<'v>\s+AValue<'v>\s+for\s+AValueArray\b.*?unsafe\s+fn\s+heap_copy\b[^{]*\{", r"content\s*\.\s*trace\s*\(\s*tracer\s*\)|tracer\s*\.\s*trace\s*\(\s*elem\s*\)")
    # payload tracing of the generic complex values: heap_copy_impl::<Self>(me, tracer, Trace::trace)
    for rel, label in (("starlark/src/values/layout/avalues/complex.rs", "AValueComplex"), ("starlark/src/values/layout/avalues/list.rs", "AValueList"),
                       ("starlark/src/values/layout/avalues/complex_branded.rs", "AValueComplexBranded")):
        text = texts.get(rel, "")
        name = "%s:%s::heap_copy" % (short(rel), label)
        ms = re.findall(r"heap_copy_impl::<Self>\(\s*me\s*,\s*tracer\s*,\s*([^)]*?)\s*\)", text)
        if not ms:
            unparsed.append(name)
        else:
            rows.append((name, ["payload_traced"], ["payload_traced"] if all(x.strip() == "Trace::trace" for x in ms) else []))
    rows.sort()
    return rows, sorted(set(unparsed))


# ---- root completeness ------------------------------------------------------------------------------------------------
#
# root_required : list (string * string)   (function, root) - every table that holds heap values and must be visited by the
#     root-set functions: the `'v`-typed fields of `Module` (except the `heap` handle) and of `Evaluator` (as in trace_table), and
#     `heap.<field>` for every field of `OwnedHeap` (heap_type.rs) whose type mentions `Value` or a type that has a Trace impl
#     (e.g. `str_interner: RefCell<StringValueInterner>`).
# root_calls : list (string * string * bool)   (function, root, unconditional) - the `.trace*(tracer)` calls of `Module::trace` /
#     `Evaluator::trace` in source order; the root is the field the receiver resolves to (through `let` / `if let` / `for` bindings
#     and same-file accessor methods; `self.heap().trace_xxx(tracer)` is resolved through the bodies of `Heap::trace_xxx` to the
#     `self.0.<field>` they reach); unconditional = no `return` / `break` / `continue` / `?` / panic occurs textually before the call
#     in the function body AND every enclosing block header (`if let Some(x) = <root>`, `for f in <root>`) is a test of this very root.

_EXIT = re.compile(r"\breturn\b|\bbreak\b|\bcontinue\b|\?\s*[;.)]|\bpanic!|\bunreachable!|\bunimplemented!|\btodo!")


def heap_fields_of(method, heap_methods, depth=3, seen=None):
    seen = seen if seen is not None else set()
    out = set()
    for b in heap_methods.get(method, []):
        out |= set(re.findall(r"\bself\s*\.\s*0\s*\.\s*([A-Za-z_][A-Za-z0-9_]*)\b(?!\s*\()", b))
        if depth > 0:
            for name in set(re.findall(r"\bself\s*\.\s*([A-Za-z_][A-Za-z0-9_]*)\s*\(", b)):
                if name not in seen:
                    seen.add(name)
                    out |= heap_fields_of(name, heap_methods, depth - 1, seen)
    return out


def root_calls_of(body, methods, heap_methods):
    """body = `{ ... }` of the trace function -> [(root, unconditional)] in source order"""
    calls = []
    binds = {}          # local name -> set of fields
    headers = []        # one set of fields per enclosing block
    state = {"exit": False}

    def refs(text):
        fs = set(fields_mentioned(text, methods))
        for nm, f2 in binds.items():
            if re.search(r"(?<![.\w])%s\b" % re.escape(nm), text):
                fs |= f2
        return fs

    def bind(pat, rhs):
        fs = refs(rhs)
        if fs:
            for nm in re.findall(r"[A-Za-z_][A-Za-z0-9_]*", pat):
                if nm not in _KW and not nm[0].isupper():
                    binds.setdefault(nm, set()).update(fs)

    def process(seg):
        lm = re.search(r"\blet\s+(.*?)=(?!=)(.*)$", seg, re.S)
        fm = re.search(r"\bfor\s+(.*?)\bin\b(.*)$", seg, re.S)
        if lm:
            bind(lm.group(1), lm.group(2))
        elif fm:
            bind(fm.group(1), fm.group(2))
        for m in re.finditer(r"\.\s*(trace[A-Za-z0-9_]*)\s*\(\s*tracer\s*\)", seg):
            recv = seg[:m.start()]
            k = max(recv.rfind("="), recv.rfind(","))
            recv = recv[k + 1:]
            fs = refs(recv)
            roots = set()
            if m.group(1) != "trace" and "heap" in fs:
                roots = {"heap." + f for f in heap_fields_of(m.group(1), heap_methods)}
            else:
                roots = {f for f in fs}
            for root in sorted(roots):
                base = root.split(".")[0]
                guard_ok = all(base in h for h in headers)
                calls.append((root, guard_ok and not state["exit"]))
        if _EXIT.search(seg):
            state["exit"] = True

    inner = body[1:-1]
    seg = ""
    for c in inner:
        if c == "{":
            process(seg)
            headers.append(refs(seg))
            seg = ""
        elif c == "}":
            process(seg)
            if headers:
                headers.pop()
            seg = ""
        elif c == ";":
            process(seg)
            seg = ""
        else:
            seg += c
    process(seg)
    return calls


def build_roots():
    """-> (required [(fn, root)], calls [(fn, root, unconditional)])"""
    rows, _ = table()
    traced_types = {n.split(":")[-1] for n, _, _ in rows if "::" not in n.split(":")[-1]}
    required, calls = [], []
    heap_rel = "starlark/src/values/layout/heap/heap_type.rs"
    try:
        heap_text = strip_comments(open(os.path.join(REPO, heap_rel), encoding="utf-8").read())
    except OSError:
        heap_text = ""
    heap_methods = method_bodies(heap_text)
    oh = find_type(heap_text, "OwnedHeap")
    heap_fields = []
    if oh not in (None, "unparsed"):
        for f, ty, _ in oh[2]:
            ty2 = drop_generic_app(ty, r"\bFrozen[A-Za-z]*\b")
            if re.search(r"(?<![A-Za-z_])Value\b", ty2) or any(re.search(r"\b%s\b" % re.escape(t), ty2) for t in traced_types):
                heap_fields.append(f)
    for rel, tname, where in (("starlark/src/eval/runtime/evaluator.rs", "Evaluator", r"fn\s+trace\s*\(\s*&mut\s+self\s*,\s*tracer\s*:\s*&Tracer<'v>\s*\)\s*\{"),
                              ("starlark/src/environment/modules.rs", "Module", r"pub\(crate\)\s+fn\s+trace\s*\(\s*&self\s*,\s*tracer\s*:\s*&Tracer<'v>\s*\)\s*\{")):
        fn = "%s::trace" % tname
        try:
            text = strip_comments(open(os.path.join(REPO, rel), encoding="utf-8").read())
        except OSError:
            continue
        t = find_type(text, tname)
        fm = list(re.finditer(where, text))
        if t in (None, "unparsed") or len(fm) != 1:
            continue
        bi = fm[0].end() - 1
        body = text[bi:match_close(text, bi, "{", "}") + 1]
        for f, ty, _ in t[2]:
            if re.search(r"'v\b", ty) and "PhantomData" not in ty and not (tname == "Module" and f == "heap"):
                required.append((fn, f))
        if tname == "Module":
            required += [(fn, "heap." + f) for f in heap_fields]
        calls += [(fn, root, u) for root, u in root_calls_of(body, method_bodies(text), heap_methods)]
    return sorted(set(required)), calls


_CACHE = {}


def table():
    if "t" not in _CACHE:
        _CACHE["t"] = build()
    return _CACHE["t"]


def register(item, z, coq_list, coq_string, num, src):
    def cs(s):
        return coq_string(s) + "%string"

    def conv_table(m):
        rows, _ = table()
        return coq_list(["(%s, %s, %s)" % (cs(n), coq_list([cs(f) for f in d]), coq_list([cs(f) for f in v])) for n, d, v in rows])

    def conv_unparsed(m):
        _, un = table()
        return coq_list([cs(u) for u in un])

    def conv_required(m):
        req, _ = build_roots()
        return coq_list(["(%s, %s)" % (cs(f), cs(r)) for f, r in req])

    def conv_calls(m):
        _, calls = build_roots()
        return coq_list(["(%s, %s, %s)" % (cs(f), cs(r), "true" if u else "false") for f, r, u in calls])

    item("TraceC", "root_required", "starlark/src/environment/modules.rs", r"pub\(crate\) fn trace\(&self, tracer: &Tracer<'v>\) \{",
         conv_required, coq_type="list (string * string)")
    item("TraceC", "root_calls", "starlark/src/environment/modules.rs", r"pub\(crate\) fn trace\(&self, tracer: &Tracer<'v>\) \{",
         conv_calls, coq_type="list (string * string * bool)")
    anchor = r"pub unsafe trait Trace<'v> \{"
    item("TraceC", "trace_table", "starlark/src/values/trace.rs", anchor, conv_table, coq_type="list (string * list string * list string)")
    item("TraceC", "trace_unparsed", "starlark/src/values/trace.rs", anchor, conv_unparsed, coq_type="list string")


if __name__ == "__main__":
    rows, un = build()
    for n, d, v in rows:
        flag = "" if set(d) <= set(v) else "   <-- NOT VISITED: %s" % sorted(set(d) - set(v))
        print("%-70s declared=%s visited=%s%s" % (n, d, v, flag))
    print("unparsed:", un)
    req, calls = build_roots()
    print("root_required:", req)
    print("root_calls:", calls)
