"""Translator items of C15 (group LimitsC -> coq/Extracted/LimitsC.v).

* `INFREQUENT_INSTRUCTION_CHECK_PERIOD` and `DEFAULT_STACK_SIZE` (evaluator.rs);
* the shape of the comparisons the model mirrors, each anchored on the exact statement:
  - `report_forward_progress`: increment, `counter >= PERIOD` -> checks, fold the counter into the total AFTER
    the (possibly failing) checks, reset;
  - `check_tick_count_limit`: `current > limit` (strict);
  - `get_total_tick_count`: total_at_last_check + counter;
  - `run_infrequent_instr_checks`: cancellation first, then heap, then ticks;
  - `CheapCallStack::push`: `count >= stack.len()` -> StackOverflow;
  - `eval_module`: alloc, push of the hidden frame, pop, then the final `run_infrequent_instr_checks()?` before the result.
A `true` means "the code has the shape the model assumes"; any edit of these statements makes the item fail to
match (ok:false -> broken tie) or flips the boolean (the Coq proof of `C15_extracted_shape` then fails).
"""
import re


def register(item, z, coq_list, coq_string, num, src):
    ev = "starlark/src/eval/runtime/evaluator.rs"
    item("LimitsC", "tick_period", ev, r"\nconst INFREQUENT_INSTRUCTION_CHECK_PERIOD: u32 = ([\d_]+);", lambda m: z(num(m.group(1))))
    item("LimitsC", "default_stack_size", ev, r"\npub\(crate\) const DEFAULT_STACK_SIZE: usize = ([\d_]+);", lambda m: z(num(m.group(1))))

    # check_tick_count_limit: which comparison decides "exceeded"
    item("LimitsC", "tick_limit_strict", ev,
         r"pub fn check_tick_count_limit\(&self\) -> Option<ResourceCheckResult> \{\s*"
         r"let limit = self\.max_tick_count\?;\s*"
         r"let current = self\.get_total_tick_count\(\);\s*"
         r"if current (>=|>) limit \{\s*Some\(ResourceCheckResult::Exceeded\(",
         lambda m: "true" if m.group(1) == ">" else "false", coq_type="bool")

    item("LimitsC", "total_is_sum", ev,
         r"pub fn get_total_tick_count\(&self\) -> u64 \{\s*"
         r"self\.total_tick_count_at_last_infrequent_check \+ self\.infrequent_instr_check_counter as u64\s*\}",
         lambda m: "true", coq_type="bool")

    # report_forward_progress, statement by statement
    item("LimitsC", "progress_shape", ev,
         r"pub\(crate\) fn report_forward_progress\(&mut self\) -> crate::Result<\(\)> \{\s*"
         r"self\.infrequent_instr_check_counter \+= 1;\s*"
         r"if self\.infrequent_instr_check_counter (>=|>|==) INFREQUENT_INSTRUCTION_CHECK_PERIOD \{\s*"
         r"(?:#\[cfg\(rust_nightly\)\]\s*std::hint::cold_path\(\);\s*)?"
         r"self\.run_infrequent_instr_checks\(\)\?;\s*"
         r"self\.total_tick_count_at_last_infrequent_check \+=\s*self\.infrequent_instr_check_counter as u64;\s*"
         r"self\.infrequent_instr_check_counter = 0;\s*\};?\s*Ok\(\(\)\)\s*\}",
         lambda m: "true" if m.group(1) == ">=" else "false", coq_type="bool")

    item("LimitsC", "checks_order", ev,
         r"pub\(crate\) fn run_infrequent_instr_checks\(&mut self\) -> crate::Result<\(\)> \{\s*"
         r"if \(self\.is_cancelled\)\(\) \{\s*return Err\(crate::Error::new_other\(EvaluatorError::Cancelled\)\);\s*\}\s*"
         r"if let Some\(ResourceCheckResult::Exceeded\(e\)\) = self\.check_heap_size_limit\(\) \{\s*return Err\(e\);\s*\}\s*"
         r"if let Some\(ResourceCheckResult::Exceeded\(e\)\) = self\.check_tick_count_limit\(\) \{\s*return Err\(e\);\s*\}\s*"
         r"Ok\(\(\)\)\s*\}",
         lambda m: "true", coq_type="bool")

    cs = "starlark/src/eval/runtime/cheap_call_stack.rs"
    item("LimitsC", "push_ge", cs,
         r"if unlikely\(self\.count (>=|>|==) self\.stack\.len\(\)\) \{\s*return Err\(crate::Error::new_kind\(ErrorKind::StackOverflow\(",
         lambda m: "true" if m.group(1) == ">=" else "false", coq_type="bool")
    item("LimitsC", "push_pop_shape", cs,
         r"self\.stack\[self\.count\] = CheapFrame \{ function, span \};\s*self\.count \+= 1;\s*Ok\(\(\)\)\s*\}"
         r".*?pub\(crate\) fn pop\(&mut self\) \{\s*debug_assert!\(self\.count >= 1\);[^}]*?self\.count -= 1;\s*\}",
         lambda m: "true", coq_type="bool")

    item("LimitsC", "with_call_stack_shape", ev,
         r"self\.call_stack\.push\(function, span\)\?;\s*// Must always call \.pop regardless\s*"
         r"let res = within\(self\)\.map_err\(\|e\| add_diagnostics\(e, self\)\);\s*self\.call_stack\.pop\(\);\s*res\s*\}",
         lambda m: "true", coq_type="bool")

    el = "starlark/src/eval.rs"
    item("LimitsC", "eval_module_shape", el,
         r"self\.call_stack\.alloc_if_needed\(\s*self\.max_callstack_size\s*\.unwrap_or\(evaluator::DEFAULT_STACK_SIZE\),\s*\)\?;\s*"
         r"// Set up the world to allow evaluation \(do NOT use \? from now on\)\s*"
         r"self\.call_stack\.push\(Value::new_none\(\), None\)\.unwrap\(\);"
         r".*?let res = compiler\.eval_module\(cst, local_names\);\s*"
         r"// Clean up the world, putting everything back\s*self\.call_stack\.pop\(\);"
         r".*?self\.run_infrequent_instr_checks\(\)\?;\s*// Return the result of evaluation\s*res\.map_err\(\|e\| e\.into_error\(\)\)",
         lambda m: "true", coq_type="bool")
    item("LimitsC", "eval_function_shape", el,
         r"self\.call_stack\.alloc_if_needed\(\s*self\.max_callstack_size\s*\.unwrap_or\(evaluator::DEFAULT_STACK_SIZE\),\s*\)\?;\s*"
         r"// eval_module pushes an \"empty\" call stack frame\.[^\n]*\n[^\n]*\n\s*"
         r"let res = self\.with_call_stack\(Value::new_none\(\), None, \|this\| \{\s*function\.invoke\(&params, this\)\s*\}\);\s*"
         r"self\.run_infrequent_instr_checks\(\)\?;\s*res\s*\}",
         lambda m: "true", coq_type="bool")

    # which instruction implementations report forward progress: the loop back-edge and the four call families
    ii = "starlark/src/eval/bc/instr_impl.rs"

    def count_is(n):
        return lambda m: "true"

    item("LimitsC", "tick_in_continue", ii,
         r"impl BcInstr for InstrContinue \{.*?\) -> InstrControl<'v, 'b> \{\s*"
         r"if let Err\(e\) = eval\.report_forward_progress\(\) \{\s*return InstrControl::Err\(e\);\s*\}\s*let iter = frame\.get_bc_slot\(\*iter\);",
         lambda m: "true", coq_type="bool")
    item("LimitsC", "tick_in_call", ii,
         r"impl<A: BcCallArgs<Symbol>> InstrNoFlowImpl for InstrCallImpl<A> \{.*?\) -> crate::Result<\(\)> \{\s*"
         r"eval\.report_forward_progress\(\)\?;\s*let f = frame\.get_bc_slot\(\*this\);",
         lambda m: "true", coq_type="bool")
    item("LimitsC", "tick_in_call_frozen_generic", ii,
         r"for InstrCallFrozenGenericImpl<F, A>\s*\{.*?\) -> crate::Result<\(\)> \{\s*"
         r"eval\.report_forward_progress\(\)\?;\s*let arguments = Arguments\(args\.pop_from_stack\(frame\)\);\s*let r = fun\.bc_invoke\(",
         lambda m: "true", coq_type="bool")
    item("LimitsC", "tick_in_call_frozen_def", ii,
         r"impl<A: BcCallArgsForDef> InstrNoFlowImpl for InstrCallFrozenDefImpl<A> \{.*?\) -> crate::Result<\(\)> \{\s*"
         r"eval\.report_forward_progress\(\)\?;\s*let arguments = args\.pop_from_stack\(frame\);\s*let r = eval\.with_call_stack\(",
         lambda m: "true", coq_type="bool")
    item("LimitsC", "tick_in_call_method", ii,
         r"fn call_method_common<'v>\(.*?\) -> crate::Result<\(\)> \{\s*eval\.report_forward_progress\(\)\?;",
         lambda m: "true", coq_type="bool")
    # the number of report_forward_progress call sites in the interpreter (a new or removed site changes the calibration)
    item("LimitsC", "tick_sites", ii, r"\A.*\Z",
         lambda m: z(len(re.findall(r"\beval\.report_forward_progress\(\)", m.group(0)))))
