"""Translator items of the Map component (C11): constants of starlark_map read from the source on every run."""


def register(item, z, coq_list, coq_string, num, src):
    # stable rustc is used by the harness build, so `rust_nightly` is off and the 16 branch is the live one
    item("MapC", "no_index_threshold", "starlark_map/src/small_map.rs",
         r"#\[cfg\(not\(rust_nightly\)\)\]\s*const NO_INDEX_THRESHOLD: usize = (\d+);",
         lambda m: z(num(m.group(1))))
    # the nightly value is recorded too (theorems are generic in the threshold)
    item("MapC", "no_index_threshold_nightly", "starlark_map/src/small_map.rs",
         r"#\[cfg\(rust_nightly\)\]\s*const NO_INDEX_THRESHOLD: usize = (\d+);",
         lambda m: z(num(m.group(1))))
    # Vec2::sort_by: insertion sort up to this length, collect + slice::sort_by above
    item("MapC", "max_insertion", "starlark_map/src/vec2.rs",
         r"const MAX_INSERTION: usize = (\d+);\s*if self\.len\(\) <= MAX_INSERTION \{\s*self\.sort_insertion_by\(compare\);",
         lambda m: z(num(m.group(1))))
    # the comparison that decides when insert_hashed_unique_unchecked builds the index
    item("MapC", "create_index_at_offset", "starlark_map/src/small_map.rs",
         r"\} else if self\.entries\.len\(\) == NO_INDEX_THRESHOLD \+ (\d+) \{\s*self\.create_index\(self\.entries\.len\(\)\);",
         lambda m: z(num(m.group(1))))
