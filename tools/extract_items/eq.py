"""Translator items of C09 (group EqC -> coq/Extracted/EqC.v).

* which numeric types define `fn get_hash` themselves inside their `impl StarlarkValue for ...` block
  (override = `StarlarkHashValue::hash_64(get_hash_64)`), and which inherit the default of traits.rs
  (`StarlarkHasher` over `write_hash`, then `finish_small`);
* the constants of the two mixing functions (fmix64 of hash_value.rs; Fx64 K / rotation of fx64.rs; the
  fold of hasher.rs: finish_small) and the fixed hashes / hashed words of None and bool.
"""
import re


def register(item, z, coq_list, coq_string, num, src):
    def has_get_hash(m):
        return "true" if re.search(r"\bfn\s+get_hash\s*\(", m.group(0)) else "false"

    def block(ty):
        # the whole impl block: from its header to the first closing brace in column 0
        return r"impl<'v> StarlarkValue<'v> for %s \{.*?\n\}\n" % ty

    item("EqC", "hash_override_small", "starlark/src/values/types/int/pointer_i32.rs", block("PointerI32"), has_get_hash, coq_type="bool")
    item("EqC", "hash_override_big", "starlark/src/values/types/bigint.rs", block("StarlarkBigInt"), has_get_hash, coq_type="bool")
    item("EqC", "hash_override_float", "starlark/src/values/types/float/float.rs", block("StarlarkFloat"), has_get_hash, coq_type="bool")

    def hx(s):
        return int(s.replace("_", ""), 16)

    hv = "starlark_map/src/hash_value.rs"
    fm = (r"pub const fn hash_64\(h: u64\) -> Self \{.*?"
          r"let h = h \^ \(h >> (\d+)\);\s*"
          r"let h = h\.wrapping_mul\(0x([0-9a-fA-F_]+)\);\s*"
          r"let h = h \^ \(h >> (\d+)\);\s*"
          r"let h = h\.wrapping_mul\(0x([0-9a-fA-F_]+)\);\s*"
          r"let h = h \^ \(h >> (\d+)\);\s*"
          r"StarlarkHashValue::new_unchecked\(h as u32\)")
    item("EqC", "fmix_s1", hv, fm, lambda m: z(num(m.group(1))))
    item("EqC", "fmix_c1", hv, fm, lambda m: z(hx(m.group(2))))
    item("EqC", "fmix_s2", hv, fm, lambda m: z(num(m.group(3))))
    item("EqC", "fmix_c2", hv, fm, lambda m: z(hx(m.group(4))))
    item("EqC", "fmix_s3", hv, fm, lambda m: z(num(m.group(5))))

    fx = "starlark_map/src/fx64.rs"
    item("EqC", "fx_k", fx, r"\nconst K: u64 = 0x([0-9a-fA-F_]+);", lambda m: z(hx(m.group(1))))
    item("EqC", "fx_add_is_add_mul", fx,
         r"fn add_to_hash\(&mut self, i: u64\) \{\s*self\.hash = self\.hash\.wrapping_add\(i\)\.wrapping_mul\(K\);\s*\}",
         lambda m: "true", coq_type="bool")
    item("EqC", "fx_write_u64_is_add", fx, r"fn write_u64\(&mut self, i: u64\) \{\s*self\.add_to_hash\(i\);\s*\}",
         lambda m: "true", coq_type="bool")
    item("EqC", "fx_rot", fx, r"fn finish\(&self\) -> u64 \{.*?self\.hash\.rotate_left\((\d+)\)\s*\}", lambda m: z(num(m.group(1))))
    item("EqC", "fold_shift", "starlark_map/src/hasher.rs",
         r"pub fn finish_small\(&self\) -> StarlarkHashValue \{.*?let hash = self\.finish\(\);\s*"
         r"StarlarkHashValue::new_unchecked\(\(hash \^ \(hash >> (\d+)\)\) as u32\)",
         lambda m: z(num(m.group(1))))

    nn = "starlark/src/values/types/none/none_type.rs"
    item("EqC", "none_word", nn, r"fn write_hash\(&self, hasher: &mut StarlarkHasher\)[^{]*\{[^}]*?hasher\.write_u64\(([\d_]+)\);",
         lambda m: z(num(m.group(1))))
    item("EqC", "none_hash", nn, r"fn get_hash\(&self, _private: Private\)[^{]*\{[^}]*?StarlarkHashValue::new_unchecked\(0x([0-9a-fA-F_]+)\)",
         lambda m: z(hx(m.group(1))))
    bb = "starlark/src/values/types/bool/value.rs"
    bh = (r"fn get_hash\(&self, _private: Private\)[^{]*\{[^}]*?StarlarkHashValue::new_unchecked\(if self\.0 \{\s*0x([0-9a-fA-F_]+)\s*\}"
          r" else \{\s*0x([0-9a-fA-F_]+)\s*\}\)")
    item("EqC", "bool_hash_true", bb, bh, lambda m: z(hx(m.group(1))))
    item("EqC", "bool_hash_false", bb, bh, lambda m: z(hx(m.group(2))))
