"""Translator items of C04 (group FreezeC -> coq/Extracted/FreezeC.v).

The catalogue of Freeze/Mutate.v is only as good as its coverage of the code's mutation entry points, so the
entry points are re-extracted from the source on every run:
* for list/dict/set `methods.rs`: every method of the `#[starlark_module]` block, whether its body asks for the
  MUTABLE layout (`ListData::from_value_mut(this)` / `DictMut::from_value(this)` / `SetMut::from_value(this)`), and
  whether that guard is the first statement of the body (guard-first) or preceded by other code;
* `is_list_type` / `is_dict_type` (used by `add_assign` / `bit_or_assign`) accept BOTH layouts, so `+=` / `|=` on a
  frozen list/dict reach the mutable-downcast guard instead of falling back to `lhs + rhs`;
* the frozen `set_at` of list and dict and the default `StarlarkValue::set_at` return CannotMutateImmutableValue.
Properties/C04.v compares these with the modelled catalogue (`C04_catalogue_covers_source`)."""
import re


def register(item, z, coq_list, coq_string, num, src):
    def methods(m, guard):
        """[(name, guarded, guard_first)] for every `fn` of the module block."""
        out = []
        for f in re.finditer(r"\n    fn (\w+)\s*(?:<[^>]*>)?\s*\((.*?)\n    \}\n", m.group(0), re.S):
            name, rest = f.group(1), f.group(2)
            body = rest.split("{", 1)[1] if "{" in rest else ""
            # first statement of the body, comments removed
            code = re.sub(r"//[^\n]*", "", body).strip()
            guarded = guard in code
            first = code.split(";", 1)[0]
            out.append((name, guarded, guarded and guard in first))
        return sorted(out)

    def conv(guard, what):
        def f(m):
            ms = methods(m, guard)
            if what == "all":
                return coq_list([coq_string(n) + "%string" for n, _, _ in ms])
            if what == "guarded":
                return coq_list([coq_string(n) + "%string" for n, g, _ in ms if g])
            return coq_list([coq_string(n) + "%string" for n, g, first in ms if g and first])
        return f

    blk = r"#\[starlark_module\]\s*pub\(crate\) fn %s\(\w+: &mut MethodsBuilder\) \{.*?\n\}\n"
    for comp, path, fn, guard in (
            ("list", "starlark/src/values/types/list/methods.rs", "list_methods", "ListData::from_value_mut(this)"),
            ("dict", "starlark/src/values/types/dict/methods.rs", "dict_methods", "DictMut::from_value(this)"),
            ("set", "starlark/src/values/types/set/methods.rs", "set_methods", "SetMut::from_value(this)")):
        item("FreezeC", comp + "_methods_all", path, blk % fn, conv(guard, "all"), coq_type="list string")
        item("FreezeC", comp + "_methods_mutable_downcast", path, blk % fn, conv(guard, "guarded"), coq_type="list string")
        item("FreezeC", comp + "_methods_guard_first", path, blk % fn, conv(guard, "first"), coq_type="list string")

    def both(m):
        return "true" if ("FrozenListData" in m.group(0) or "FrozenDictData" in m.group(0)) and m.group(0).count("TypeId::of") == 2 else "false"

    item("FreezeC", "is_list_type_both_layouts", "starlark/src/values/types/list/value.rs",
         r"pub\(crate\) fn is_list_type\(x: TypeId\) -> bool \{.*?\n    \}", both, coq_type="bool")
    item("FreezeC", "is_dict_type_both_layouts", "starlark/src/values/types/dict/value.rs",
         r"pub\(crate\) fn is_dict_type\(x: TypeId\) -> bool \{.*?\n    \}", both, coq_type="bool")

    def immut(m):
        return "true" if "CannotMutateImmutableValue" in m.group(0) and "Ok(" not in m.group(0) else "false"

    item("FreezeC", "add_assign_uses_mutable_downcast", "starlark/src/eval/compiler/stmt.rs",
         r"pub\(crate\) fn add_assign<'v>\(.*?\n\}\n",
         lambda m: "true" if re.search(r"if ListData::is_list_type\(lhs_ty\) \{.*?ListData::from_value_mut\(lhs\)\?", m.group(0), re.S) else "false",
         coq_type="bool")
    item("FreezeC", "bit_or_assign_uses_mutable_downcast", "starlark/src/eval/compiler/stmt.rs",
         r"pub\(crate\) fn bit_or_assign<'v>\(.*?\n\}\n",
         lambda m: "true" if re.search(r"if Dict::is_dict_type\(lhs_ty\) \{\s*let mut dict = DictMut::from_value\(lhs\)\?;", m.group(0)) else "false",
         coq_type="bool")
    item("FreezeC", "frozen_list_set_at_errors", "starlark/src/values/types/list/value.rs",
         r"impl<'v> ListLike<'v> for FrozenListData \{.*?fn set_at\(&self, _i: usize, _v: Value<'v>\) -> crate::Result<\(\)> \{.*?\n    \}",
         immut, coq_type="bool")
    item("FreezeC", "frozen_dict_set_at_errors", "starlark/src/values/types/dict/value.rs",
         r"impl<'v> DictLike<'v> for FrozenDictData \{.*?fn set_at\(&self, _index: Hashed<Value<'v>>, _value: Value<'v>\) -> crate::Result<\(\)> \{.*?\n    \}",
         immut, coq_type="bool")
    item("FreezeC", "default_set_at_errors", "starlark/src/values/traits.rs",
         r"    fn set_at\(&self, _index: Value<'v>, _new_value: Value<'v>\) -> crate::Result<\(\)> \{.*?\n    \}",
         immut, coq_type="bool")
    # freeze order: list elements / dict entries are frozen front to back (the model's `freeze_list`)
    item("FreezeC", "dict_freeze_in_order", "starlark/src/values/types/dict/value.rs",
         r"impl<'v> FreezeBranded for DictGen<RefCell<Dict<'v>>> \{.*?\n\}\n",
         lambda m: "true" if re.search(r"for \(key, value\) in entries\.into_iter_hashed\(\) \{.*?freezer\.freeze\(key\.into_key\(\)\)\?.*?"
                                       r"content\.insert_hashed_unique_unchecked\(key, freezer\.freeze\(value\)\?\);", m.group(0), re.S) else "false",
         coq_type="bool")
    item("FreezeC", "list_freeze_in_order", "starlark/src/values/layout/avalues/list.rs",
         r"for \(elem_place, elem\) in extra\.iter_mut\(\)\.zip\(content\) \{\s*elem_place\.write\(freezer\.freeze\(\*elem\)\?\);\s*\}\s*r\.fill\(ListGen\(FrozenListData::new\(content\.len\(\)\)\)\);",
         lambda m: "true", coq_type="bool")
