"""Translator items of C17 (group TypingC -> coq/Extracted/TypingC.v).

* `ITERATIONS` of `solve_bindings` (typing/typecheck.rs): the bound of the union iteration;
* the shape of the loop the model's `solve` mirrors, anchored on the exact statements:
  - the loop runs `for _iteration in 0..ITERATIONS`, resets `changed`, clears the errors, and leaves with `break` when
    nothing changed (`solve_breaks_when_stable`);
  - after the loop an `Approximation` is pushed exactly when `changed` is still set (`solve_flags_nonconvergence`);
  - every binding starts from `Ty::never()` (`solve_starts_from_never`) and is updated with `Ty::union2(t.clone(), ty)`
    (`solve_updates_by_union`).
A `true` means "the code has the shape the model assumes"; an edit of these statements makes the item fail to match
(ok:false -> broken tie) or flips the boolean (the proof of `C17_extracted_shape` then fails).

* `int_mul_any_is_any` (values/types/num/typecheck.rs) and `tuple_slice_is_homogeneous` (typing/oracle/ctx.rs
  expr_slice_basic): the two repaired typing rules; `true` = the repaired shape the model follows, `false` = the exact
  old (unsound) shape, anything else does not match (broken tie).
"""


def register(item, z, coq_list, coq_string, num, src):
    tc = "starlark/src/typing/typecheck.rs"
    item("TypingC", "iterations", tc, r"\n    const ITERATIONS: usize = ([\d_]+);", lambda m: z(num(m.group(1))))
    item("TypingC", "solve_breaks_when_stable", tc,
         r"for _iteration in 0\.\.ITERATIONS \{\s*changed = false;\s*ctx\.errors\.borrow_mut\(\)\.clear\(\);\s*"
         r"for \(name, exprs\) in &bindings\.expressions \{.*?\n        \}\s*if (!?)changed \{\s*break;\s*\}\s*\}",
         lambda m: "true" if m.group(1) == "!" else "false", coq_type="bool")
    item("TypingC", "solve_flags_nonconvergence", tc,
         r"\n    if (!?)changed \{\s*ctx\.approximoations\.borrow_mut\(\)\.push\(Approximation::new\(\s*"
         r"\"Fixed point didn't converge\",\s*ITERATIONS,\s*\)\);\s*\}",
         lambda m: "true" if m.group(1) == "" else "false", coq_type="bool")
    item("TypingC", "solve_starts_from_never", tc,
         r"let mut types = bindings\s*\.expressions\s*\.keys\(\)\s*\.map\(\|x\| \(\*x, Ty::(\w+)\(\)\)\)",
         lambda m: "true" if m.group(1) == "never" else "false", coq_type="bool")
    item("TypingC", "solve_updates_by_union", tc,
         r"let ty = ctx\.expression_bind_type\(expr\)\?;\s*let t = ctx\.types\.get_mut\(name\)\.unwrap\(\);\s*"
         r"let new = (Ty::union2\(t\.clone\(\), ty\));\s*if &new != t \{\s*changed = true;\s*\*t = new;\s*\}",
         lambda m: "true", coq_type="bool")
    # the rule for `int * Any` (values/types/num/typecheck.rs): true = an early return of `Any` precedes the operator classes
    # (the repaired rule, model flag fixmul = true), false = Mul is only in the class of Add (`float | int`, unsound)
    item("TypingC", "int_mul_any_is_any", "starlark/src/values/types/num/typecheck.rs",
         r"return None;\s*\};\s*((?://[^\n]*\n\s*)*if matches!\(\s*\(&lhs, op, &rhs\),\s*\(NumTy::Int, TypingBinOp::Mul, NumRhsTy::Any\)\s*\) \{\s*"
         r"return Some\(Ty::any\(\)\);\s*\}\s*)?let op = match op \{\s*TypingBinOp::Add\s*\| TypingBinOp::Sub\s*\| TypingBinOp::Mul",
         lambda m: "true" if m.group(1) else "false", coq_type="bool")
    # the rule for slicing a tuple type (typing/oracle/ctx.rs expr_slice_basic, the whole function is anchored):
    # true  = `TyBasic::Tuple(tuple)` slices to `Ty::tuple_of(tuple.item_ty())` (repair 0f4399a; Typing/Model.v slice_basic),
    # false = the old shape `array.is_tuple() || array.is_list()` returning the array type unchanged (keeps the arity: unsound);
    # the other branches (StarlarkValue -> v.slice(), list -> itself, else error) must be exactly as the model has them
    item("TypingC", "tuple_slice_is_homogeneous", "starlark/src/typing/oracle/ctx.rs",
         r"fn expr_slice_basic\(&self, array: &TyBasic\) -> Result<Ty, TypingNoContextError> \{\s*"
         r"if let TyBasic::StarlarkValue\(v\) = array \{\s*v\.slice\(\)\s*\} else if "
         r"(?:(let TyBasic::Tuple\(tuple\) = array \{\s*(?://[^\n]*\n\s*)*Ok\(Ty::tuple_of\(tuple\.item_ty\(\)\)\)\s*"
         r"\} else if array\.is_list\(\))|(array\.is_tuple\(\) \|\| array\.is_list\(\))) \{\s*"
         r"Ok\(Ty::basic\(array\.dupe\(\)\)\)\s*\} else \{\s*Err\(TypingNoContextError\)\s*\}\s*\}",
         lambda m: "true" if m.group(1) else "false", coq_type="bool")
    # the two helpers the repaired rule is made of, as the model has them (Typing/Model.v item_ty; TTupleOf)
    item("TypingC", "tuple_item_ty_is_union_of_elems", "starlark/src/typing/tuple.rs",
         r"pub\(crate\) fn item_ty\(&self\) -> Ty \{\s*match self \{\s*TyTuple::Elems\(elems\) => Ty::unions\(elems\.to_vec\(\)\),\s*"
         r"TyTuple::Of\(t\) => \(\*\*t\)\.clone\(\),\s*\}\s*\}",
         lambda m: "true", coq_type="bool")
    item("TypingC", "tuple_of_is_homogeneous_tuple", "starlark/src/typing/ty.rs",
         r"pub\(crate\) fn tuple_of\(item: Ty\) -> Self \{\s*Ty::basic\(TyBasic::Tuple\(TyTuple::Of\(ArcTy::new\(item\)\)\)\)\s*\}",
         lambda m: "true", coq_type="bool")
