"""Translator items of C17 (group TypingC -> coq/Extracted/TypingC.v).

* `ITERATIONS` of `solve_bindings` (typing/typecheck.rs): the bound of the union iteration;
* the shape of the loop the model's `solve` mirrors, anchored on the exact statements:
  - the loop runs `for _iteration in 0..ITERATIONS`, resets `changed`, clears the errors, and leaves with `break` when
    nothing changed (`solve_breaks_when_stable`);
  - after the loop an `Approximation` is pushed exactly when `changed` is still set (`solve_flags_nonconvergence`);
  - every binding starts from `Ty::never()` (`solve_starts_from_never`) and is updated with `Ty::union2(t.clone(), ty)`
    (`solve_updates_by_union`).
A `true` means "the code has the shape the model assumes"; an edit of these statements makes the item fail to match
(ok:false -> broken tie) or flips the boolean (the proof of `C17_extracted_shape` then fails).
"""


def register(item, z, coq_list, coq_string, num, src):
    tc = "starlark/src/typing/typecheck.rs"
    item("TypingC", "iterations", tc, r"\n    const ITERATIONS: usize = ([\d_]+);", lambda m: z(num(m.group(1))))
    item("TypingC", "solve_breaks_when_stable", tc,
         r"for _iteration in 0\.\.ITERATIONS \{\s*changed = false;\s*ctx\.errors\.borrow_mut\(\)\.clear\(\);\s*"
         r"for \(name, exprs\) in &bindings\.expressions \{.*?\n        \}\s*if (!?)changed \{\s*break;\s*\}\s*\}",
         lambda m: "true" if m.group(1) == "!" else "false", coq_type="bool")
    item("TypingC", "solve_flags_nonconvergence", tc,
         r"\n    if (!?)changed \{\s*ctx\.approximoations\.borrow_mut\(\)\.push\(Approximation::new\(\s*"
         r"\"Fixed point didn't converge\",\s*ITERATIONS,\s*\)\);\s*\}",
         lambda m: "true" if m.group(1) == "" else "false", coq_type="bool")
    item("TypingC", "solve_starts_from_never", tc,
         r"let mut types = bindings\s*\.expressions\s*\.keys\(\)\s*\.map\(\|x\| \(\*x, Ty::(\w+)\(\)\)\)",
         lambda m: "true" if m.group(1) == "never" else "false", coq_type="bool")
    item("TypingC", "solve_updates_by_union", tc,
         r"let ty = ctx\.expression_bind_type\(expr\)\?;\s*let t = ctx\.types\.get_mut\(name\)\.unwrap\(\);\s*"
         r"let new = (Ty::union2\(t\.clone\(\), ty\));\s*if &new != t \{\s*changed = true;\s*\*t = new;\s*\}",
         lambda m: "true", coq_type="bool")
