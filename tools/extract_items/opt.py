"""Translator items of C02 (group OptC -> coq/Extracted/OptC.v): the guards of the optimiser's smart constructors that
the Coq model (coq/Opt/Model.v) mirrors, read from the Rust text.  Every item matches the whole file (so a refactoring can
never make the translator itself fail) and reports whether the guard is still there; Properties/C02.v proves
`C02_extracted_guards` from them by reflexivity, so removing a guard breaks the proof build and triggers the search."""
import re


def register(item, z, coq_list, coq_string, num, src):
    whole = r"\A.*\Z"

    def has(fn_start, fn_end, pat):
        def conv(m):
            text = m.group(0)
            i = text.find(fn_start)
            j = text.find(fn_end, i + 1) if i >= 0 else -1
            body = text[i:j] if i >= 0 and j > i else ""
            return "true" if re.search(pat, body, re.S) else "false"
        return conv

    ex = "starlark/src/eval/compiler/expr.rs"
    item("OptC", "iterable_empty_excludes_str", ex, whole,
         has("fn is_iterable_empty(", "fn is_definitely_bool(", r"ExprCompiled::Value\(v\)\s+if\s+v\.is_builtin\(\)\s*&&\s*!v\.is_str\(\)"), coq_type="bool")
    item("OptC", "seq_drops_only_pure_infallible", ex, whole,
         has("pub(crate) fn seq(", "fn percent(", r"if\s+l\.is_pure_infallible\(\)\s*\{\s*r\s*\}\s*else"), coq_type="bool")
    item("OptC", "logical_uses_to_bool", ex, whole,
         has("pub(crate) fn logical_bin_op(", "pub(crate) fn seq(",
             r"if\s+let\s+Some\(l_v\)\s*=\s*l\.is_pure_infallible_to_bool\(\)\s*\{\s*if\s+l_v\s*==\s*\(op\s*==\s*ExprLogicalBinOp::Or\)\s*\{\s*l\s*\}\s*else\s*\{\s*r\s*\}"),
         coq_type="bool")
    item("OptC", "bin_op_folds_only_on_ok", ex, whole,
         has("pub(crate) fn bin_op(", "pub(crate) fn if_expr(",
             r"if\s+let\s+\(Some\(l\),\s*Some\(r\)\)\s*=\s*\(l\.as_builtin_value\(\),\s*r\.as_builtin_value\(\)\)\s*\{\s*if\s+let\s+Ok\(v\)\s*=\s*bin_op\.eval\("),
         coq_type="bool")
    item("OptC", "un_op_folds_only_on_some", ex, whole,
         has("pub(crate) fn un_op(", "fn try_values(", r"if\s+let\s+Some\(v\)\s*=\s*expr\.as_builtin_value\(\)\s*\{\s*if\s+let\s+Some\(v\)\s*=\s*op\.eval\(v,\s*ctx\)"),
         coq_type="bool")
    item("OptC", "not_not_needs_definitely_bool", ex, whole,
         has("pub(crate) fn not(", "fn or(", r"ExprCompiled::Builtin1\(Builtin1::Not,\s*e\)\s+if\s+e\.is_definitely_bool\(\)\s*=>"), coq_type="bool")
    item("OptC", "index_folds_only_on_ok", ex, whole,
         has("pub(crate) fn index(", "pub(crate) fn index2(", r"if\s+let\s+Ok\(v\)\s*=\s*array\.to_value\(\)\.at\("), coq_type="bool")
    item("OptC", "pure_infallible_value_list_not_typeis", ex, whole,
         has("pub(crate) fn is_pure_infallible(&self)", "pub(crate) fn is_pure_infallible_to_bool(",
             r"Self::Value\(\.\.\)\s*=>\s*true,\s*Self::List\(xs\)\s*\|\s*Self::Tuple\(xs\)\s*=>\s*xs\.iter\(\)\.all\(\|x\|\s*x\.is_pure_infallible\(\)\),\s*"
             r"Self::Dict\(xs\)\s*=>\s*xs\.is_empty\(\),\s*Self::Builtin1\(Builtin1::Not\s*\|\s*Builtin1::TypeIs\(_\),\s*x\)\s*=>\s*x\.is_pure_infallible\(\),"),
         coq_type="bool")
    cl = "starlark/src/eval/compiler/call.rs"
    item("OptC", "inline_arg_guard", cl, whole,
         has("fn try_inline(", "fn try_spec_exec", r"ExprCompiled::Local\(local\)\s+if\s+local\.0\s*<\s*param_count\s*=>"), coq_type="bool")
    item("OptC", "inline_rejects_args_kwargs", cl, whole,
         has("fn try_inline(", "fn try_spec_exec", r"if\s+fun\.parameters\.has_args_or_kwargs\(\)\s*\{"), coq_type="bool")
    item("OptC", "spec_exec_needs_marking", cl, whole,
         has("fn try_spec_exec", "fn try_enum_value(", r"if\s+!fun\.speculative_exec_safe\(\)\s*\{\s*return\s+None;"), coq_type="bool")
    st = "starlark/src/eval/compiler/stmt.rs"
    item("OptC", "stmt_expr_drops_only_pure_infallible", st, whole,
         has("fn expr(expr: IrSpanned<ExprCompiled>)", "fn if_stmt(", r"expr\s+if\s+expr\.is_pure_infallible\(\)\s*=>\s*StmtsCompiled::empty\(\)"), coq_type="bool")
    item("OptC", "for_stmt_uses_is_iterable_empty", st, whole,
         has("fn for_stmt(", "pub(crate) enum AssignError", r"if\s+over\.is_iterable_empty\(\)\s*\{\s*return\s+StmtsCompiled::empty\(\);"), coq_type="bool")
    item("OptC", "expr_ident_needs_at_most_once", ex, whole,
         has("fn expr_ident(", "fn opt_ctx<", r"if\s+binding\.assign_count\s*==\s*AssignCount::AtMostOnce\s*\{"), coq_type="bool")

    def to_bool_dict(m):
        """is_pure_infallible_to_bool: the only arm for dict displays is the one for the EMPTY display."""
        text = m.group(0)
        i = text.find("pub(crate) fn is_pure_infallible_to_bool(")
        j = text.find("pub(crate) fn as_local_non_captured(", i + 1) if i >= 0 else -1
        body = text[i:j] if i >= 0 and j > i else ""
        arms = re.findall(r"(?:ExprCompiled|Self)::Dict\b", body)
        ok = re.search(r"(?:ExprCompiled|Self)::Dict\(xs\)\s+if\s+xs\.is_empty\(\)\s*=>\s*Some\(false\)", body, re.S)
        return "true" if ok and len(arms) == 1 else "false"
    item("OptC", "to_bool_dict_only_empty", ex, whole, to_bool_dict, coq_type="bool")
    item("OptC", "to_bool_display_needs_pure_elems", ex, whole,
         has("pub(crate) fn is_pure_infallible_to_bool(", "pub(crate) fn as_local_non_captured(",
             r"ExprCompiled::List\(xs\)\s*\|\s*ExprCompiled::Tuple\(xs\)\s+if\s+xs\.iter\(\)\.all\(\|x\|\s*x\.is_pure_infallible\(\)\)\s*=>\s*\{\s*Some\(!xs\.is_empty\(\)\)"),
         coq_type="bool")
