#!/usr/bin/env python3
"""Regenerates MANIFEST.json from tools/manifest_base.json and the META of each tools/props/Cxx.py."""
import importlib
import json
import os
import sys

ROOT = os.path.dirname(os.path.dirname(os.path.abspath(__file__)))
sys.path.insert(0, os.path.join(ROOT, "tools"))
base = json.load(open(os.path.join(ROOT, "tools", "manifest_base.json")))
checks, na, served = [], [], {}
# properties whose check has been verified end to end by the orchestrator (others stay not_applicable until then)
READY = set(open(os.path.join(ROOT, "tools", "ready.txt")).read().split())
for i in range(1, 21):
    pid = "C%02d" % i
    try:
        mod = importlib.import_module("props." + pid)
        meta = mod.META
    except (ImportError, AttributeError):
        na.append({"property_id": pid, "reason": "check not built yet in this revision (see DESIGN.md section 4 for the planned Coq model and tie)"})
        continue
    if pid not in READY:
        na.append({"property_id": pid, "reason": "check under construction in this revision (model and harness exist; not yet validated end to end)"})
        continue
    if meta.get("not_applicable"):
        na.append({"property_id": pid, "reason": meta["not_applicable"]})
        continue
    checks.append({
        "property_id": pid,
        "quick_cmd": "./check %s --tier quick" % pid,
        "thorough_cmd": "./check %s --tier thorough" % pid,
        "evidence_file": "evidence/%s.json" % pid,
        "replay_cmd_template": "./check %s --replay {path}" % pid,
        "engine": "coq",
        "level_claimed": {"category": meta.get("category", "proof"), "text": meta["level_text"], "design_ref": meta.get("design_ref", "DESIGN.md section 4 " + pid)},
        "level_note": meta["level_note"],
        "technique": meta.get("technique", "Coq model + theorems; translator-extracted constants; model/implementation correspondence"),
    })
    for e in ("coq", "extract", "harness", "ocaml-model"):
        served.setdefault(e, []).append(pid)
base["checks"] = checks
base["not_applicable"] = na
for e in base["engines"]:
    e["serves_properties"] = served.get(e["name"], [])
json.dump(base, open(os.path.join(ROOT, "MANIFEST.json"), "w"), indent=1)
print("MANIFEST.json: %d checks, %d not_applicable" % (len(checks), len(na)))
