"""Shared machinery of ./check: translator, Coq build + audit, hygiene, harness, model evaluation,
evidence, known findings.  See DESIGN.md section 2."""
import concurrent.futures
import glob
import hashlib
import json
import os
import random
import re
import subprocess
import sys
import time

ROOT = os.path.dirname(os.path.dirname(os.path.abspath(__file__)))
if hasattr(sys, "set_int_max_str_digits"):
    sys.set_int_max_str_digits(0)
BUILD = os.path.join(ROOT, "build")
HARNESS = os.path.join(ROOT, "harness")
REPO = os.environ.get("SV_REPO", "/repo")
COQ_SRC = os.path.join(ROOT, "coq")
if REPO == "/repo":
    COQ = COQ_SRC
else:
    # a check against a scratch checkout gets its own copy of the Coq tree (sources and compiled files), so that
    # the tables it extracts from the changed sources cannot race with checks running against /repo
    COQ = os.path.join(BUILD, "coq-" + hashlib.sha256(REPO.encode()).hexdigest()[:8])
    os.makedirs(COQ, exist_ok=True)
    subprocess.run(["rsync", "-a", "--exclude", "Audit", "--exclude", "Extracted", COQ_SRC + "/", COQ + "/"], check=False)
os.environ["SV_COQ_DIR"] = COQ
NPROC = 16

ENV = dict(os.environ)
ENV["SV_COQ_DIR"] = COQ
ENV.update({"CARGO_NET_OFFLINE": "true", "LC_ALL": "C.UTF-8", "LANG": "C.UTF-8"})


def sh(cmd, cwd=None, timeout=600, env=None, stdin=None):
    """Run a command under a timeout; returns (rc, combined output). rc 124 on timeout."""
    try:
        p = subprocess.run(cmd, cwd=cwd, env=env or ENV, stdout=subprocess.PIPE, stderr=subprocess.STDOUT,
                           timeout=timeout, shell=isinstance(cmd, str), input=stdin)
        return p.returncode, p.stdout.decode("utf-8", "replace")
    except subprocess.TimeoutExpired as e:
        out = (e.stdout or b"").decode("utf-8", "replace")
        return 124, out + "\n[timeout after %ss]" % timeout


class Ctx:
    def __init__(self, prop, tier, seed):
        self.prop, self.tier, self.seed = prop, tier, seed
        self.rng = random.Random(seed)
        self.t0 = time.time()
        self.notes = []
        tag = "" if REPO == "/repo" else "-" + hashlib.sha256(REPO.encode()).hexdigest()[:8]
        self.run_dir = os.path.join(BUILD, "run", prop + tag)
        os.makedirs(self.run_dir, exist_ok=True)

    def quick(self):
        return self.tier == "quick"

    def n(self, quick, thorough):
        return quick if self.tier == "quick" else thorough

    def log(self, *a):
        msg = " ".join(str(x) for x in a)
        self.notes.append(msg)
        print("[%s %6.1fs] %s" % (self.prop, time.time() - self.t0, msg), flush=True)


# ---------------------------------------------------------------------------------------------
# translator

def extract():
    rc, out = sh([sys.executable, os.path.join(ROOT, "tools", "extract.py")], timeout=120)
    try:
        rep = json.loads(out.strip().splitlines()[-1])
    except Exception:  # noqa: BLE001
        rep = {"ok": False, "errors": [out[-2000:]], "changed": []}
    rep["rc"] = rc
    return rep


# ---------------------------------------------------------------------------------------------
# Coq

def coq_project():
    """(Re)generate _CoqProject and the Makefile when the set of .v files changed."""
    files = []
    for p in glob.glob(os.path.join(COQ, "**", "*.v"), recursive=True):
        rel = os.path.relpath(p, COQ)
        if rel.startswith("Audit" + os.sep):
            continue
        files.append(rel)
    files.sort()
    text = "-Q . SV\n-arg -w -arg -notation-overridden,-deprecated-hint-without-locality,-deprecated-instance-without-locality\n" + "\n".join(files) + "\n"
    proj = os.path.join(COQ, "_CoqProject")
    old = open(proj).read() if os.path.exists(proj) else None
    if old != text or not os.path.exists(os.path.join(COQ, "Makefile")):
        with open(proj, "w") as f:
            f.write(text)
        rc, out = sh(["coq_makefile", "-f", "_CoqProject", "-o", "Makefile"], cwd=COQ, timeout=120)
        if rc != 0:
            return False, out
    return True, ""


def coq_make(targets, timeout=1500):
    ok, out = coq_project()
    if not ok:
        return False, out
    rc, out = sh(["timeout", str(timeout), "make", "-j%d" % NPROC] + list(targets), cwd=COQ, timeout=timeout + 30)
    return rc == 0, out


_THM_RE = re.compile(r"^\s*(Theorem|Example|Lemma|Corollary)\s+([A-Za-z0-9_']+)", re.M)


def prop_theorems(prop):
    p = os.path.join(COQ, "Properties", prop + ".v")
    if not os.path.exists(p):
        return []
    return [(m.group(1), m.group(2)) for m in _THM_RE.finditer(strip_coq_comments(open(p).read()))]


STD_AXIOMS_OK = {
    # axioms declared by Coq's standard library (allowed by the brief when named in the trusted base)
    "Coq.Logic.FunctionalExtensionality.functional_extensionality_dep",
    "FunctionalExtensionality.functional_extensionality_dep", "functional_extensionality_dep",
    "Coq.Logic.Classical_Prop.classic", "Classical_Prop.classic", "classic",
    "Coq.Logic.ProofIrrelevance.proof_irrelevance", "proof_irrelevance",
    "Coq.Logic.JMeq.JMeq_eq", "JMeq_eq", "Eqdep.Eq_rect_eq.eq_rect_eq", "eq_rect_eq",
}


def coq_audit(prop, allow=()):
    """Print Assumptions + Check for every theorem of Properties/<prop>.v; compare the pins."""
    thms = prop_theorems(prop)
    res = {"theorems": [n for _, n in thms], "closed": 0, "axioms": {}, "bad_axioms": {}, "pin_ok": True,
           "pin_diff": [], "ok": True, "log": ""}
    if not thms:
        res["ok"] = False
        res["log"] = "no theorems found in Properties/%s.v" % prop
        return res
    os.makedirs(os.path.join(COQ, "Audit"), exist_ok=True)
    vf = os.path.join(COQ, "Audit", prop + "_audit.v")
    lines = ["From Coq Require Import ZArith NArith List String.", "From SV Require Import Properties.%s." % prop,
             "Open Scope Z_scope.", "Set Printing Width 100000.", "Set Printing Depth 100000."]
    for _, n in thms:
        lines.append('Goal True. idtac "@@CHECK %s". Abort.' % n)
        lines.append("Check %s." % n)
        lines.append('Goal True. idtac "@@ASSUME %s". Abort.' % n)
        lines.append("Print Assumptions %s." % n)
    lines.append('Goal True. idtac "@@END". Abort.')
    with open(vf, "w") as f:
        f.write("\n".join(lines) + "\n")
    rc, out = sh(["timeout", "300", "coqc", "-noglob", "-Q", ".", "SV", "-w", "none", vf], cwd=COQ, timeout=330)
    for ext in (".vo", ".vok", ".vos", ".glob"):
        try:
            os.remove(vf[:-2] + ext)
        except OSError:
            pass
    res["log"] = out[-3000:]
    if rc != 0:
        res["ok"] = False
        return res
    chunks = re.split(r"@@(CHECK|ASSUME|END)\s*([A-Za-z0-9_']*)\n", out)
    # chunks: [pre, kind, name, body, kind, name, body, ...]
    stmts = {}
    i = 1
    while i + 2 < len(chunks) + 1 and i < len(chunks):
        kind, name = chunks[i], chunks[i + 1]
        body = chunks[i + 2] if i + 2 < len(chunks) else ""
        if kind == "CHECK":
            stmts[name] = " ".join(body.split())
        elif kind == "ASSUME":
            b = body.strip()
            if b.startswith("Closed under the global context"):
                res["closed"] += 1
                res["axioms"][name] = []
            else:
                axs = [m.group(1) for m in re.finditer(r"^([A-Za-z0-9_.']+)\s*:", b, re.M)]
                res["axioms"][name] = axs
                bad = [a for a in axs if a not in STD_AXIOMS_OK and a not in allow and a.split(".")[-1] not in allow]
                if bad or not axs:
                    res["bad_axioms"][name] = bad or [b[:200]]
                else:
                    res["closed"] += 1
        i += 3
    if res["bad_axioms"]:
        res["ok"] = False
    # pins
    pin_file = os.path.join(COQ_SRC, "pins", prop + ".txt")
    cur = "\n".join("%s" % stmts.get(n, "?") for _, n in thms) + "\n"
    res["pins_current"] = cur
    if os.path.exists(pin_file):
        old = open(pin_file).read()
        if old != cur:
            res["pin_ok"] = False
            res["ok"] = False
            oldl, curl = old.splitlines(), cur.splitlines()
            res["pin_diff"] = [l for l in oldl if l not in curl][:10]
    else:
        res["pin_ok"] = False
        res["ok"] = False
        res["pin_diff"] = ["(no pin file committed)"]
    return res


_HYG = re.compile(r"\b(Admitted|admit|Axiom|Axioms|Parameter|Parameters|Conjecture|Conjectures|Admit Obligations|"
                  r"Unset Guard Checking|Unset Positivity Checking|Unset Universe Checking|bypass_check|"
                  r"type-in-type|impredicative-set|native_compute)\b")


def strip_coq_comments(s):
    out, depth, i = [], 0, 0
    while i < len(s):
        if s.startswith("(*", i):
            depth += 1
            i += 2
        elif s.startswith("*)", i) and depth > 0:
            depth -= 1
            i += 2
        else:
            if depth == 0:
                out.append(s[i])
            elif s[i] == "\n":
                out.append("\n")
            i += 1
    return "".join(out)


def hygiene():
    bad = []
    for p in glob.glob(os.path.join(COQ, "**", "*.v"), recursive=True):
        rel = os.path.relpath(p, COQ)
        if rel.startswith("Audit" + os.sep):
            continue
        txt = strip_coq_comments(open(p, encoding="utf-8").read())
        txt = re.sub(r'"[^"\n]*"', '""', txt)
        stack = []
        for ln, line in enumerate(txt.splitlines(), 1):
            m = _HYG.search(line)
            if m:
                bad.append("%s:%d: %s" % (rel, ln, line.strip()[:120]))
            if re.match(r"^\s*Section\b", line):
                stack.append("S")
            elif re.match(r"^\s*Module\b(?!.*:=)", line):
                stack.append("M")
            elif re.match(r"^\s*End\b", line) and stack:
                stack.pop()
            if re.search(r"^\s*(Variable|Variables|Hypothesis|Hypotheses|Context)\b", line) and "S" not in stack:
                bad.append("%s:%d: %s outside a section" % (rel, ln, line.strip()[:80]))
    for p in [os.path.join(COQ, "_CoqProject")]:
        if os.path.exists(p) and re.search(r"type-in-type|impredicative-set|bypass", open(p).read()):
            bad.append("_CoqProject: forbidden flag")
    return bad


# ---------------------------------------------------------------------------------------------
# Rust harness

def harness_dir():
    """The harness crate to build: harness/ itself for /repo; for another checkout (SV_REPO, used to try
    a changed source tree without touching /repo) a copy under build/ with the path deps rewritten."""
    if REPO == "/repo":
        return HARNESS, os.path.join(BUILD, "cargo")
    import shutil
    tag = hashlib.sha256(REPO.encode()).hexdigest()[:8]
    d = os.path.join(BUILD, "harness-" + tag)
    os.makedirs(d, exist_ok=True)
    tgt = os.path.join(BUILD, "cargo-" + tag)
    if not os.path.exists(tgt) and os.path.exists(os.path.join(BUILD, "cargo")):
        # seed the target dir with the already compiled registry dependencies (only workspace crates rebuild)
        sh(["cp", "-a", os.path.join(BUILD, "cargo"), tgt], timeout=600)
    for root, dirs, files in os.walk(HARNESS):
        rel = os.path.relpath(root, HARNESS)
        os.makedirs(os.path.join(d, rel), exist_ok=True)
        for f in files:
            if f == "Cargo.lock":
                continue
            src, dst = os.path.join(root, f), os.path.join(d, rel, f)
            txt = open(src, "rb").read()
            if f in ("Cargo.toml", "config.toml"):
                txt = txt.replace(b"/repo/", REPO.encode() + b"/").replace(b"/verif/build/cargo", tgt.encode())
            if not os.path.exists(dst) or open(dst, "rb").read() != txt:
                open(dst, "wb").write(txt)
    return d, tgt


def cargo_build(bins, timeout=2400):
    import shutil
    hdir, _ = harness_dir()
    lock_src = os.path.join(REPO, "Cargo.lock")
    if not os.path.exists(lock_src):
        lock_src = "/repo/Cargo.lock"   # a git worktree of /repo does not carry the untracked lock file
    lock_dst = os.path.join(hdir, "Cargo.lock")
    if not os.path.exists(lock_dst):
        shutil.copy(lock_src, lock_dst)
    cmd = ["timeout", str(timeout), "cargo", "build", "--offline"]
    for b in bins:
        cmd += ["--bin", b]
    rc, out = sh(cmd, cwd=hdir, timeout=timeout + 30)
    if rc != 0 and "lock file" in out and "needs to be updated" in out:
        shutil.copy(lock_src, lock_dst)
        rc, out = sh(cmd, cwd=hdir, timeout=timeout + 30)
    return rc == 0, out


def harness_bin(name):
    return os.path.join(harness_dir()[1], "debug", name)


def run_harness(ctx, name, cases, tag="cases", timeout=900, args=()):
    """Write cases (list of JSON-able) to a file, run the harness binary, return list of results
    (None for a missing line).  A crash of the whole process is returned as rc != 0."""
    cpath = os.path.join(ctx.run_dir, "%s.%s.jsonl" % (name, tag))
    opath = os.path.join(ctx.run_dir, "%s.%s.out.jsonl" % (name, tag))
    with open(cpath, "w") as f:
        for c in cases:
            f.write(json.dumps(c) + "\n")
    if os.path.exists(opath):
        os.remove(opath)
    rc, out = sh(["timeout", str(timeout), harness_bin(name), cpath, opath] + list(args), timeout=timeout + 30)
    res = []
    if os.path.exists(opath):
        for line in open(opath, encoding="utf-8", errors="replace"):
            line = line.strip()
            if line:
                try:
                    res.append(json.loads(line))
                except Exception:  # noqa: BLE001
                    res.append({"unparsable": line[:200]})
    while len(res) < len(cases):
        res.append(None)
    return rc, out, res


def run_harness_sharded(ctx, name, cases, shards=NPROC, timeout=900, args=()):
    """Run the harness over `cases` split in shards in parallel processes."""
    if not cases:
        return 0, "", []
    shards = max(1, min(shards, len(cases)))
    parts = [cases[i::shards] for i in range(shards)]
    outs = [None] * shards
    with concurrent.futures.ThreadPoolExecutor(max_workers=shards) as ex:
        futs = {ex.submit(run_harness, ctx, name, parts[i], "shard%d" % i, timeout, args): i for i in range(shards)}
        for f in concurrent.futures.as_completed(futs):
            outs[futs[f]] = f.result()
    res = [None] * len(cases)
    rc_all, log = 0, ""
    for i, (rc, out, r) in enumerate(outs):
        if rc != 0:
            rc_all = rc
            log += out[-500:]
        for j, x in enumerate(r):
            res[i + j * shards] = x
    return rc_all, log, res


# ---------------------------------------------------------------------------------------------
# running the model inside Coq (cases.v route)

def coq_eval_files(ctx, files, timeout=600):
    """files: list of (name, text).  Runs coqc on each in parallel; returns list of (rc, stdout)."""
    d = os.path.join(ctx.run_dir, "coq")
    os.makedirs(d, exist_ok=True)
    paths = []
    for name, text in files:
        p = os.path.join(d, name + ".v")
        with open(p, "w") as f:
            f.write(text)
        paths.append(p)

    def one(p):
        rc, out = sh("ulimit -v 6000000; exec timeout %d coqc -noglob -Q %s SV -w none %s" % (timeout, COQ, p), cwd=d, timeout=timeout + 30)
        for ext in (".vo", ".vok", ".vos"):
            try:
                os.remove(p[:-2] + ext)
            except OSError:
                pass
        return rc, out

    with concurrent.futures.ThreadPoolExecutor(max_workers=NPROC) as ex:
        return list(ex.map(one, paths))


def coq_values(out):
    """Extract the printed terms of successive `Eval ... in` commands from coqc output."""
    vals = []
    for m in re.finditer(r"^\s*=\s(.*?)\n\s*:\s", out, re.S | re.M):
        vals.append(parse_coq_term(m.group(1)))
    return vals


_TOK = re.compile(r'\s*(\[|\]|\(|\)|;|,|"(?:[^"]|"")*"|[^\s\[\]();,"]+)')


def parse_coq_term(s):
    """Parse Coq's printing of lists / tuples / constructor applications / numbers / strings into
    Python: list -> list, tuple -> tuple, application `C a b` -> ("C", a, b) as list ['C', a, b]."""
    toks = [m.group(1) for m in _TOK.finditer(s)]
    pos = [0]

    def atom():
        t = toks[pos[0]]
        if t == "[":
            pos[0] += 1
            items = []
            while toks[pos[0]] != "]":
                items.append(app())
                if toks[pos[0]] == ";":
                    pos[0] += 1
            pos[0] += 1
            return items
        if t == "(":
            pos[0] += 1
            items = [app()]
            while toks[pos[0]] == ",":
                pos[0] += 1
                items.append(app())
            assert toks[pos[0]] == ")", toks[pos[0]:pos[0] + 5]
            pos[0] += 1
            return items[0] if len(items) == 1 else tuple(items)
        pos[0] += 1
        if t.startswith('"'):
            return ("str", t[1:-1].replace('""', '"'))
        t2 = re.sub(r"%[A-Za-z]+$", "", t)
        if re.fullmatch(r"-?\d+", t2):
            return int(t2)
        return t2

    def app():
        head = atom()
        args = []
        while pos[0] < len(toks) and toks[pos[0]] not in ("]", ")", ";", ","):
            args.append(atom())
        if args:
            return [head] + args
        return head

    v = app()
    return v


def zlit(n):
    return "(%d)" % n if n < 0 else "%d" % n


def coq_str(s):
    return '"' + s.replace('"', '""') + '"'


# ---------------------------------------------------------------------------------------------
# known findings / evidence

def known_findings(prop):
    p = os.path.join(ROOT, "known_findings.json")
    if not os.path.exists(p):
        return []
    return [e for e in json.load(open(p)).get("findings", []) if e.get("property") == prop]


def out_dir(kind):
    """evidence/ and replays/ of /verif describe /repo itself; a run against a scratch checkout (SV_REPO) writes
    its own copies under build/ so that it never overwrites them."""
    if REPO == "/repo":
        return os.path.join(ROOT, kind)
    return os.path.join(BUILD, "%s-%s" % (kind, hashlib.sha256(REPO.encode()).hexdigest()[:8]))


def write_evidence(ctx, level, coverage, assumptions, violations):
    os.makedirs(out_dir("evidence"), exist_ok=True)
    ev = {"property_id": ctx.prop, "tier": ctx.tier, "seed": ctx.seed, "level": level, "coverage": coverage,
          "assumptions": assumptions, "wall_s": round(time.time() - ctx.t0, 2), "violations": violations}
    with open(os.path.join(out_dir("evidence"), ctx.prop + ".json"), "w") as f:
        json.dump(ev, f, indent=1, sort_keys=True, default=str)
    return ev


def write_replay(ctx, name, obj):
    d = out_dir("replays")
    os.makedirs(d, exist_ok=True)
    p = os.path.join(d, "%s_%s.json" % (ctx.prop, name))
    with open(p, "w") as f:
        json.dump(obj, f, indent=1, default=str)
    return p


def digest(obj):
    return hashlib.sha256(json.dumps(obj, sort_keys=True, default=str).encode()).hexdigest()[:16]


# ---------------------------------------------------------------------------------------------
# running the model extracted to OCaml (extraction route)

def ocaml_driver(extract_target, model, driver, timeout=600):
    """`make <extract_target>` writes coq/<model>.ml(i); compile it with ocaml/<driver>.ml into
    build/ocaml/<driver>.  Returns (ok, path-or-log).  Rebuilt only when sources changed."""
    ml = os.path.join(COQ, model + ".ml")
    vo = os.path.join(COQ, extract_target)
    if not os.path.exists(ml) and os.path.exists(vo):
        os.remove(vo)   # the .ml is a side effect of compiling the extraction file
    ok, out = coq_make([extract_target], timeout=timeout)
    if not ok or not os.path.exists(ml):
        return False, out[-2000:]
    d = os.path.join(BUILD, "ocaml")
    os.makedirs(d, exist_ok=True)
    srcs = [ml, ml + "i", os.path.join(ROOT, "ocaml", driver + ".ml")]
    exe = os.path.join(d, driver)
    stamp = digest([open(p).read() for p in srcs])
    stamp_file = exe + ".stamp"
    if os.path.exists(exe) and os.path.exists(stamp_file) and open(stamp_file).read() == stamp:
        return True, exe
    import shutil
    for p in srcs:
        shutil.copy(p, d)
    rc, out = sh(["timeout", str(timeout), "ocamlfind", "ocamlopt", "-O3", "-w", "-a", model + ".mli", model + ".ml",
                  driver + ".ml", "-o", driver], cwd=d, timeout=timeout + 30)
    if rc != 0:
        return False, out[-2000:]
    open(stamp_file, "w").write(stamp)
    return True, exe


def run_driver_sharded(ctx, exe, lines, tag, shards=NPROC, timeout=300):
    """Feed text lines to an OCaml driver in parallel shards; returns (ok, list of output lines)."""
    if not lines:
        return True, []
    shards = max(1, min(shards, len(lines)))
    d = os.path.join(ctx.run_dir, "ocaml")
    os.makedirs(d, exist_ok=True)

    def one(i):
        p = os.path.join(d, "%s_%d.txt" % (tag, i))
        with open(p, "w") as f:
            f.write("\n".join(lines[i::shards]) + "\n")
        return sh(["timeout", str(timeout), exe, p], timeout=timeout + 30)

    with concurrent.futures.ThreadPoolExecutor(max_workers=shards) as ex:
        rs = list(ex.map(one, range(shards)))
    ok = all(rc == 0 for rc, _ in rs)
    out = []
    for rc, o in rs:
        out += o.splitlines()
    return ok, out
