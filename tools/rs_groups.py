"""Function groups translated from Rust to Gallina by tools/rs2v.py on every run (DESIGN 10.6).
Each group becomes coq/Extracted/<name>.v; the primitives are defined in coq/Rs/Prelude.v and the
equalities with the hand-written models are proved in coq/Rs/Proofs.v."""

II = "starlark/src/values/types/int/inline_int.rs"
IOB = "starlark/src/values/types/int/int_or_big.rs"

II_FNS = ["min_max_for_bits", "to_i32", "to_u64", "to_u32", "signum", "checked_add", "checked_sub_i32", "checked_sub",
          "checked_neg", "checked_div", "checked_mul_i32", "checked_shr", "checked_shl", "to_bigint", "abs"]
II_TYPED = {f: "rs_II_" + f for f in II_FNS}
SIR_TYPED = {"is_negative": "rs_is_negative", "is_zero": "rs_is_zero", "to_u64": "rs_SIR_to_u64",
             "to_i32": "rs_SIR_to_i32", "to_big": "rs_SIR_to_big", "to_owned": "rs_SIR_to_owned"}
ABR = {"a": "StarlarkIntRef", "b": "StarlarkIntRef"}
PAYLOAD = {"Small": "InlineInt", "Big": "StarlarkBigInt"}
AB = {"a": "InlineInt", "b": "InlineInt"}   # pattern-bound payloads of `Small(..)`; `.get()` on a `Big` payload stays m_get

GROUPS = [
    {"name": "RsInline", "file": II, "imports": [],
     "cfg": {"self_type": "InlineInt", "self_name": "InlineInt", "newtypes": {"InlineInt": "i32"},
             "typed_receivers": {"InlineInt": II_TYPED}},
     # abs is the 2nd `fn abs`? no: inline_int.rs has a single `fn abs(`
     "fns": [(f, 0, "rs_II_" + f) for f in II_FNS]},
    {"name": "RsBig", "file": "starlark/src/values/types/bigint.rs", "imports": ["RsInline"],
     "cfg": {"self_type": "StarlarkBigInt", "self_name": "StarlarkBigInt", "newtypes": {"InlineInt": "i32"},
             "typed_receivers": {"InlineInt": II_TYPED}},
     "fns": [("cmp_small_big", 0, "rs_cmp_small_big"), ("cmp_big_small", 0, "rs_cmp_big_small")]},
    {"name": "RsInt", "file": IOB, "imports": ["RsInline", "RsBig"],
     "cfg": {"self_type": "StarlarkIntRef", "self_name": "StarlarkIntRef", "newtypes": {"InlineInt": "i32"},
             "typed_receivers": {"InlineInt": II_TYPED, "StarlarkIntRef": SIR_TYPED}, "ctor_payload": PAYLOAD,
             "assoc_fns": {"StarlarkBigInt::cmp_small_big": "rs_cmp_small_big",
                           "StarlarkBigInt::cmp_big_small": "rs_cmp_big_small"}},
     "fns": [("to_owned", 0, "rs_SIR_to_owned"),
             ("to_big", 0, "rs_SIR_to_big"),
             ("to_i32", 0, "rs_SIR_to_i32"),
             ("to_u64", 0, "rs_SIR_to_u64"),
             ("is_negative", 0, "rs_is_negative"),
             ("is_zero", 0, "rs_is_zero"),
             ("signum_big", 0, "rs_signum_big"),
             ("floor_div_big_big", 0, "rs_floor_div_big_big"),
             ("floor_div_small_small", 0, "rs_floor_div_small_small", {"div": "InlineInt"}),
             ("floor_div", 0, "rs_floor_div"),
             ("percent_small", 0, "rs_percent_small", {"r": "InlineInt"}),
             ("percent_big", 0, "rs_percent_big"),
             ("percent", 0, "rs_percent"),
             ("left_shift", 0, "rs_left_shift", {"other": "StarlarkIntRef"}),
             ("right_shift", 0, "rs_right_shift", {"other": "StarlarkIntRef"}),
             ("abs", 0, "rs_abs", {"i": "InlineInt"}),
             ("bitand", 0, "rs_bitand", ABR), ("bitor", 0, "rs_bitor", ABR), ("bitxor", 0, "rs_bitxor", ABR),
             ("not", 0, "rs_bitnot", {"a": "StarlarkIntRef"}),
             ("neg", r"impl<'v> Neg for StarlarkIntRef", "rs_neg_sir"),
             ("add", r"impl<'v> Add for StarlarkIntRef", "rs_add_sir", {"other": "StarlarkIntRef"}),
             ("sub", r"impl<'v> Sub for StarlarkIntRef", "rs_sub_sir", {"other": "StarlarkIntRef"}),
             ("mul", r"impl<'v> Mul<i32> for StarlarkIntRef", "rs_mul_i32_sir"),
             ("mul", r"impl<'v> Mul for StarlarkIntRef", "rs_mul_sir"),
             ("cmp", r"impl<'v> Ord for StarlarkIntRef", "rs_cmp_sir")],
     # the trait impl `Mul<StarlarkIntRef> for i32 { rhs * self }` and the operator `StarlarkIntRef * i32`
     "postlude": {"rs_mul_i32_sir": ["#[global] Instance rsmul_rep_Z : RsMul rep Z rep := rs_mul_i32_sir.",
                                     "#[global] Instance rsmul_Z_rep : RsMul Z rep rep := fun a b => rs_mul_i32_sir b a."]}},
    {"name": "RsIndex", "file": "starlark/src/values/index.rs", "imports": ["RsInline", "RsInt"],
     "cfg": {"typed_receivers": {"StarlarkIntRef": SIR_TYPED}},
     "fns": [("unpack_slice_bound", 0, "rs_unpack_slice_bound", {"i": "StarlarkIntRef"}),
             ("convert_index_aux", 0, "rs_convert_index_aux"),
             ("convert_index", 0, "rs_convert_index"),
             ("convert_slice_indices", 0, "rs_convert_slice_indices")]},
    {"name": "RsRange", "file": "starlark/src/values/types/range/range_type.rs", "imports": [],
     "cfg": {"self_type": "Range", "self_name": "Range",
             "typed_receivers": {"Range": {"length": "rs_range_length", "to_bool": "rs_range_to_bool"}}},
     "fns": [("to_bool", 0, "rs_range_to_bool"),
             ("length", 0, "rs_range_length"),
             ("equals_range", 0, "rs_range_equals_range"),
             ("is_in", 0, "rs_range_is_in")]},
    {"name": "RsSpan", "file": "starlark_syntax/src/codemap.rs", "imports": [],
     "cfg": {"self_type": "Span", "self_name": "Span",
             "typed_receivers": {"Span": {"contains": "rs_span_contains"}}},
     "fns": [("merge", r"impl Span \{", "rs_span_merge"),
             ("end_span", r"impl Span \{", "rs_span_end_span"),
             ("contains", r"impl Span \{", "rs_span_contains"),
             ("intersects", r"impl Span \{", "rs_span_intersects", {"span": "Span"})]},
    {"name": "RsConv", "file": "starlark_syntax/src/convert_indices.rs", "imports": [],
     "cfg": {},
     "fns": [("bound", 0, "rs_bound"),
             ("convert_indices", 0, "rs_convert_indices"),
             ("convert_index", 0, "rs_conv_convert_index")]},
    {"name": "RsMix", "file": "starlark_map/src/mix_u32.rs", "imports": [],
     "cfg": {},
     "fns": [("mix_u32", 0, "rs_mix_u32")]},
    {"name": "RsHash", "file": "starlark_map/src/hash_value.rs", "imports": ["RsMix"], "extern_fns": {"mix_u32": "rs_mix_u32"},
     "cfg": {"self_type": "StarlarkHashValue", "self_name": "StarlarkHashValue",
             "newtypes": {"StarlarkHashValue": "u32"}},
     "fns": [("hash_64", 0, "rs_hash_64"), ("promote", 0, "rs_promote")]},
]
