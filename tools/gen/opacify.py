"""C02: semantics-preserving rewrites that hide constants, callees and receivers from the optimiser.

Over the generator's AST (tools/gen/progs.py node shapes):
  * every literal c            ->  opaque(c)           (mode "opaque")  or  [c][0]  (mode "cell")
    (a negative literal -n     ->  -(opaque(n)), so that the unary minus is not folded either)
  * every callee f in f(args)  ->  opaque(f)(args)     (builtins and defs alike; `emit`/`opaque` are left alone)
  * every method receiver      ->  opaque(recv).m(args)
  * a module-level name bound once (x = e / def f) gets a preceding `x = None`, so that its binding has
    AssignCount::Any and is never inlined as a constant
`opaque` is the harness' native identity function (harness/src/lib.rs).  The rewrites are licensed by
C02_opacify_preserves (coq/Properties/C02.v).

Over source templates: a hideable sub-expression is written <<expr>>; `render(t, mode)` gives the plain text
(markers removed), the opaque text (opaque(expr)) or the cell text ([expr][0]).  All variants have the same line
structure, which the line-based shrinker relies on."""
import re

from gen import progs

KEEP_CALLEES = {"emit", "opaque"}


def wrap(e, mode):
    if mode == "cell":
        return ("index", ("list", [e]), ("int", 0))
    return ("call", ("var", "opaque"), [e], [], None, None)


def op_expr(e, mode):
    if e is None:
        return None
    k = e[0]
    f = lambda x: op_expr(x, mode)   # noqa: E731
    if k in ("none", "bool", "str"):
        return wrap(e, mode)
    if k == "int":
        if e[1] < 0:
            return ("un", "-", wrap(("int", -e[1]), mode))
        return wrap(e, mode)
    if k == "var":
        return e
    if k in ("tuple", "list"):
        return (k, [f(x) for x in e[1]])
    if k == "dict":
        return ("dict", [(f(a), f(b)) for a, b in e[1]])
    if k == "un":
        return ("un", e[1], f(e[2]))
    if k == "bin":
        return ("bin", e[1], f(e[2]), f(e[3]))
    if k in ("and", "or"):
        return (k, f(e[1]), f(e[2]))
    if k == "ifx":
        return ("ifx", f(e[1]), f(e[2]), f(e[3]))
    if k == "index":
        return ("index", f(e[1]), f(e[2]))
    if k == "slice":
        return ("slice", f(e[1]), f(e[2]), f(e[3]), f(e[4]))
    if k == "call":
        callee = e[1]
        if callee[0] == "var" and callee[1] in KEEP_CALLEES:
            c2 = callee
        elif callee[0] == "var":
            c2 = wrap(callee, mode)
        else:
            c2 = f(callee)
        return ("call", c2, [f(a) for a in e[2]], [(n, f(v)) for n, v in e[3]], f(e[4]), f(e[5]))
    if k == "meth":
        r = e[1]
        r2 = wrap(r if r[0] in ("var", "str", "int", "bool", "none") else f(r), mode)
        return ("meth", r2, e[2], [f(a) for a in e[3]])
    if k == "lambda":
        return ("lambda", [op_param(p, mode) for p in e[1]], f(e[2]))
    if k == "lcomp":
        return ("lcomp", f(e[1]), [op_clause(c, mode) for c in e[2]])
    if k == "dcomp":
        return ("dcomp", f(e[1]), f(e[2]), [op_clause(c, mode) for c in e[3]])
    raise ValueError(e)


def op_clause(c, mode):
    if c[0] == "for":
        return ("for", op_target(c[1], mode), op_expr(c[2], mode))
    return ("if", op_expr(c[1], mode))


def op_param(p, mode):
    if p[0] == "p":
        return ("p", p[1], op_expr(p[2], mode))
    return p


def op_target(t, mode):
    if t[0] == "tvar":
        return t
    if t[0] == "ttuple":
        return ("ttuple", [op_target(x, mode) for x in t[1]])
    return ("tindex", op_expr(t[1], mode), op_expr(t[2], mode))


def op_stmt(s, mode):
    k = s[0]
    if k == "expr":
        return ("expr", op_expr(s[1], mode))
    if k == "assign":
        return ("assign", op_target(s[1], mode), op_expr(s[2], mode))
    if k == "aug":
        return ("aug", op_target(s[1], mode), s[2], op_expr(s[3], mode))
    if k == "if":
        return ("if", op_expr(s[1], mode), op_block(s[2], mode), op_block(s[3], mode))
    if k == "for":
        return ("for", op_target(s[1], mode), op_expr(s[2], mode), op_block(s[3], mode))
    if k == "return":
        return ("return", op_expr(s[1], mode))
    if k == "def":
        return ("def", s[1], [op_param(p, mode) for p in s[2]], op_block(s[3], mode))
    return s


def op_block(ss, mode):
    return [op_stmt(s, mode) for s in ss]


def mentions(e, x):
    return re.search(r"\b%s\b" % re.escape(x), progs.src_expr(e)) is not None


def opacify(prog, mode="opaque", double_assign=True):
    """The opacified program (top level = module level)."""
    out = []
    bound = set()
    for s in prog:
        if double_assign:
            if s[0] == "assign" and s[1][0] == "tvar" and s[1][1] not in bound and not mentions(s[2], s[1][1]):
                out.append(("assign", s[1], ("none",)))
            elif s[0] == "def" and s[1] not in bound:
                out.append(("assign", ("tvar", s[1]), ("none",)))
        for n in names_of(s):
            bound.add(n)
        out.append(op_stmt(s, mode))
    return out


def names_of(s):
    k = s[0]
    if k in ("assign", "aug"):
        return target_names(s[1])
    if k == "if":
        return [n for b in (s[2], s[3]) for x in b for n in names_of(x)]
    if k == "for":
        return target_names(s[1]) + [n for x in s[3] for n in names_of(x)]
    if k == "def":
        return [s[1]]
    return []


def target_names(t):
    if t[0] == "tvar":
        return [t[1]]
    if t[0] == "ttuple":
        return [n for x in t[1] for n in target_names(x)]
    return []


# ---- library split: the same defs called before freezing (one module) and after freezing through load() ----

def split_library(prog):
    """prog -> (lib statements, main body).  Leading module-level defs and bindings of immutable constants stay at
    module level of the library; the rest becomes the body of `main__()`.  Names bound in the library and rebound
    in the rest would become locals of main__: such programs keep everything in main__ (lib = [])."""
    lib, i = [], 0
    while i < len(prog):
        s = prog[i]
        if s[0] == "def" or (s[0] == "assign" and s[1][0] == "tvar" and immutable_const(s[2])):
            lib.append(s)
            i += 1
        else:
            break
    rest = prog[i:]
    libnames = {n for s in lib for n in names_of(s)}
    restnames = {n for s in rest for n in names_of(s)}
    if libnames & restnames:
        lib, rest = [], prog
    return lib, rest


def immutable_const(e):
    k = e[0]
    if k in ("none", "bool", "int", "str"):
        return True
    if k == "tuple":
        return all(immutable_const(x) for x in e[1])
    if k == "un" and e[1] == "-":
        return immutable_const(e[2])
    return False


def library_variants(prog):
    """Returns (single-module source, library source, main source) for the in-module / frozen-and-loaded pair."""
    lib, rest = split_library(prog)
    main_def = ("def", "main__", [], list(rest) + [("return", None)])
    libprog = lib + [main_def]
    lib_src, _ = progs.source_of(libprog)
    call_src = "main__()\n"
    single = lib_src + call_src
    exported = sorted({n for s in lib for n in names_of(s) if not n.startswith("_")} | {"main__"})
    main_src = "load(\"lib\", %s)\n" % ", ".join('"%s"' % n for n in exported) + call_src
    return single, lib_src, main_src


# ---- templates ---------------------------------------------------------------------------------------------
_MARK = re.compile(r"<<(?![\s<])(.*?)>>")      # `a << <<b>>`: the shift operator is not a marker


def render(template, mode):
    if mode == "plain":
        return _MARK.sub(lambda m: m.group(1), template)
    if mode == "cell":
        return _MARK.sub(lambda m: "[%s][0]" % m.group(1), template)
    return _MARK.sub(lambda m: "opaque(%s)" % m.group(1), template)


# ---- line-based shrinking of a variant pair (same line structure in both) ------------------------------------

def blocks(lines):
    """(start, end) index ranges of statements: a line and the following more-indented lines."""
    out = []
    for i, l in enumerate(lines):
        if not l.strip():
            continue
        ind = len(l) - len(l.lstrip())
        j = i + 1
        while j < len(lines) and (not lines[j].strip() or len(lines[j]) - len(lines[j].lstrip()) > ind):
            j += 1
        out.append((i, j))
    return out


def shrink_pair(srcs, differs, max_rounds=6):
    """srcs: list of source texts with identical line structure; differs(list of texts) -> bool.
    Deletes statements (with their blocks) from all texts while the difference persists."""
    cur = [s.split("\n") for s in srcs]
    if len({len(c) for c in cur}) != 1:
        return srcs
    for _ in range(max_rounds):
        changed = False
        for (a, b) in sorted(blocks(cur[0]), key=lambda r: r[0] - r[1]):
            if b > len(cur[0]):
                continue
            cand = [c[:a] + c[b:] for c in cur]
            if not any(l.strip() for l in cand[0]):
                continue
            if differs(["\n".join(c) for c in cand]):
                cur = cand
                changed = True
                break
        if not changed:
            break
    return ["\n".join(c) for c in cur]
