"""Type-directed generator of MiniStar programs (the Python-shared core of Starlark).

A program is a list of statement nodes (tuples).  `render_src` prints Starlark/Python source with one
simple statement per line (so line numbers are known), `render_coq` prints the same program as a
Gallina term of type `list stmt` (coq/Core/Syntax.v).  Generation is type-directed so that programs
stay inside the subset whose meaning coincides with Python (no bool/int mixing, no string iteration,
no mutation of a container of the type being iterated, ASCII strings, small ranges, bounded recursion);
with probability `p_fail` one run-time failure (index/key/zero-division/type/arity/unbound) is planted.

Feature switches (`features=`; with none given the generator draws exactly the random numbers it always drew):
  "strings"   string methods / formatting / repr, including the family `rel_str_op`: method calls whose arguments are DERIVED
              FROM THE RECEIVER (a unit it is built from, a prefix, a suffix, the first character repeated, the whole receiver,
              something longer, a substring, "") - replace (empty replacement, with and without count), strip family,
              removeprefix/suffix, find/count/index, startswith/endswith/in, split/partition, join-of-split
  "repr_str"  repr of values containing strings (Starlark quoting; not comparable with CPython)
  "effects"   evaluation ORDER made observable: operands wrapped in a tracing def (`tw_stmt`), and blocks (`fx_block`) whose
              right-hand side / operand / argument calls a def that emits and mutates the container the statement reads or
              assigns (`a[i] op= rhs`, `a[i] = rhs`, `x += rhs`, displays, operators, method arguments, unpacking, conditions),
              plus failing variants (`effect_failure`) where the order of the output relative to the failure is what is seen

Node shapes
  expr: ("none",) ("bool",b) ("int",z) ("str",s) ("var",x) ("tuple",[e]) ("list",[e]) ("dict",[(k,v)])
        ("un",op,e) ("bin",op,a,b) ("and",a,b) ("or",a,b) ("ifx",c,t,f) ("index",a,i) ("slice",a,lo,hi,st)
        ("call",f,[args],[(name,e)],star,dstar) ("meth",recv,name,[args][,[(name,e)]]) ("lambda",[params],body)
        ("lcomp",e,[clauses]) ("dcomp",k,v,[clauses])
  clause: ("for",target,e) ("if",e)      param: ("p",x,default|None) ("args",x) ("kwargs",x)
  target: ("tvar",x) ("ttuple",[t]) ("tindex",a,i)
  stmt: ("expr",e) ("assign",t,e) ("aug",t,op,e) ("if",c,[th],[el]) ("for",t,e,[body]) ("break",) ("continue",)
        ("return",e|None) ("pass",) ("def",name,[params],[body])
"""
import random

INT, BOOL, STR, NONE = "int", "bool", "str", "none"

# rendering mode: the CPython rendering of `s.elems()` is `list(s)` (Python strings have no elems(); a Starlark string is
# not iterable, so the generator only ever iterates `s.elems()`); everything else is rendered identically
_PY = [False]

# characters of generated string literals when the "strings" feature is on (ASCII; no "\r"/"\x0b"/"\x0c"/"\x1c".."\x1f":
# see coq/Core/DIFFS.md; ":" is left out because the transcript printer of the cases.v route splits at "\n :")
STR_ALPHA = "abcxyzABZ019  __,,--..%{}\t\n'\"\\"


def tlist(t):
    return ("list", t)


def ttuple(ts):
    return ("tuple", tuple(ts))


def tdict(k, v):
    return ("dict", k, v)


def tfn(args, ret, mutates=frozenset(), ndefaults=0):
    return ("fn", tuple(args), ret, frozenset(mutates), ndefaults)


BINOPS_INT = ["+", "-", "*", "//", "%", "&", "|", "^"]
CMP = ["==", "!=", "<", "<=", ">", ">="]
COQ_BIN = {"+": "BAdd", "-": "BSub", "*": "BMul", "//": "BFloorDiv", "%": "BMod", "&": "BAnd", "|": "BOr", "^": "BXor",
           "<<": "BShl", ">>": "BShr", "==": "BEq", "!=": "BNe", "<": "BLt", "<=": "BLe", ">": "BGt", ">=": "BGe",
           "in": "BIn", "not in": "BNotIn"}
COQ_UN = {"-": "UNeg", "+": "UPos", "~": "UInv", "not": "UNot"}


class Gen:
    def __init__(self, rng, max_stmts=25, max_depth=4, p_fail=0.25, features=()):
        self.rng = rng
        self.max_stmts = max_stmts
        self.max_depth = max_depth
        self.p_fail = p_fail
        self.features = set(features)
        self.strings = "strings" in self.features          # MiniStar stage 2: string methods / formatting / repr
        self.repr_str = "repr_str" in self.features        # repr of values containing strings (Starlark quoting: not comparable with CPython)
        # "effects": evaluation order made observable - operands wrapped in a tracing def, right-hand sides / operands / arguments
        # that call a def which emits and mutates the container being read or assigned (only C01 passes it: the helper defs
        # are ordinary MiniStar, but other users of this generator have their own expectations about the program shape)
        self.effects = "effects" in self.features
        self.fx_used = set()
        self.fx_tag = 9000
        self.tw_left = 0
        self.counter = 0
        self.budget = max_stmts
        self.fail_planted = False
        self.want_fail = rng.random() < p_fail
        self.stats = {}
        self.uses_strings = False

    # ---- bookkeeping ---------------------------------------------------------------------------
    def fresh(self, prefix="v"):
        self.counter += 1
        return "%s%d" % (prefix, self.counter)

    def note(self, k):
        self.stats[k] = self.stats.get(k, 0) + 1

    def pick(self, xs):
        return xs[self.rng.randrange(len(xs))]

    def chance(self, p):
        return self.rng.random() < p

    # ---- types ------------------------------------------------------------------------------------
    def rand_type(self, depth=2, hashable=False):
        if self.strings and not hashable and depth >= 1 and self.chance(0.12):
            return self.pick([tlist(STR), tlist(STR), ttuple([STR, STR, STR]), tlist(ttuple([INT, STR])), tlist(ttuple([STR, STR])), STR])
        r = self.rng.random()
        if depth <= 0 or r < 0.55:
            return self.pick([INT, INT, INT, STR, STR] if hashable else [INT, INT, INT, STR, STR, BOOL])
        if r < 0.75 and not hashable:
            return tlist(self.rand_type(depth - 1))
        if r < 0.88:
            return ttuple([self.rand_type(depth - 1, hashable) for _ in range(self.rng.randint(1, 3))])
        if hashable:
            return self.pick([INT, STR])
        return tdict(self.pick([INT, STR]), self.rand_type(depth - 1))

    # ---- expressions --------------------------------------------------------------------------------
    def vars_of(self, scope, t):
        return [x for x, ty in scope["vars"].items() if ty == t and x not in scope["unassigned"]]

    def lit(self, t, depth):
        if t == INT:
            return ("int", self.pick([0, 1, 2, 3, 5, 7, -1, -2, 10, self.rng.randint(-50, 50), self.rng.randint(-10 ** 6, 10 ** 6),
                                      2 ** 31 - 1, -2 ** 31, 2 ** 40 + self.rng.randint(0, 9), 2 ** 64]))
        if t == BOOL:
            return ("bool", self.chance(0.5))
        if t == STR:
            n = self.pick([0, 1, 1, 2, 3, 5])
            if self.strings and self.chance(0.6):
                return ("str", self.str_text(self.pick([0, 1, 2, 3, 4, 6, 9, 17, 20])))
            return ("str", "".join(self.pick("abcxyz01 _") for _ in range(n)))
        if t == NONE:
            return ("none",)
        if t[0] == "list":
            return ("list", [self.expr(None, t[1], depth - 1) for _ in range(self.pick([0, 1, 2, 3, 4]))])
        if t[0] == "tuple":
            return ("tuple", [self.expr(None, x, depth - 1) for x in t[1]])
        if t[0] == "dict":
            ks, seen = [], set()
            for _ in range(self.pick([0, 1, 2, 3])):
                k = self.lit(t[1], 0)
                if k in seen:      # Starlark rejects a dict display with a repeated literal key (Python keeps the last)
                    continue
                seen.add(k)
                ks.append((k, self.expr(None, t[2], depth - 1)))
            return ("dict", ks)
        raise ValueError(t)

    def expr(self, scope, t, depth):
        """An expression of static type t (scope None = closed literal context)."""
        if scope is None:
            scope = self.cur
        if depth <= 0:
            vs = self.vars_of(scope, t)
            if vs and self.chance(0.6):
                return ("var", self.pick(vs))
            return self.lit(t, 0)
        r = self.rng.random()
        vs = self.vars_of(scope, t)
        if vs and r < 0.3:
            return ("var", self.pick(vs))
        if r < 0.4:
            return self.lit(t, depth)
        # calls of user functions returning t
        fns = [(x, ty) for x, ty in scope["vars"].items() if ty[0] == "fn" and ty[2] == t and x not in scope["unassigned"]
               and not (ty[3] & scope["locked"])]
        if fns and self.chance(0.25):
            f, ty = self.pick(fns)
            return self.call_fn(scope, f, ty, depth - 1)
        if self.chance(0.08):
            c = self.expr(scope, BOOL, depth - 1)
            return ("ifx", c, self.expr(scope, t, depth - 1), self.expr(scope, t, depth - 1))
        # index into a container whose element type is t
        if self.chance(0.15):
            e = self.elem_access(scope, t, depth - 1)
            if e is not None:
                return e
        if self.strings and depth > 0 and self.chance(0.22):
            e = self.str_op(scope, t, depth - 1)
            if e is not None:
                self.note("string_op")
                self.note_str_op(e)
                self.uses_strings = True
                return e
        if t == INT:
            k = self.rng.random()
            if k < 0.45:
                op = self.pick(BINOPS_INT)
                a, b = self.expr(scope, INT, depth - 1), self.expr(scope, INT, depth - 1)
                if op in ("//", "%"):
                    b = self.nonzero(b)
                return ("bin", op, a, b)
            if k < 0.55:
                return ("un", self.pick(["-", "+", "~"]), self.expr(scope, INT, depth - 1))
            if k < 0.7:
                ct = self.pick([tlist(self.rand_type(1)), STR, tdict(INT, INT), ttuple([INT, STR])])
                return ("call", ("var", "len"), [self.expr(scope, ct, depth - 1)], [], None, None)
            if k < 0.78:
                return ("bin", self.pick(["<<", ">>"]), self.expr(scope, INT, depth - 1), ("int", self.rng.randint(0, 40)))
            if k < 0.86:
                l = self.nonempty_list(scope, INT, depth - 1)
                return ("call", ("var", self.pick(["min", "max"])), [l], [], None, None)
            if k < 0.92:
                return ("call", ("var", "abs"), [self.expr(scope, INT, depth - 1)], [], None, None)
            if k < 0.96:
                return ("call", ("var", "int"), [("str", str(self.rng.randint(-999, 999)))], [], None, None)
            return self.lit(INT, 0)
        if t == BOOL:
            k = self.rng.random()
            if k < 0.35:
                ct = self.pick([INT, INT, STR, ttuple([INT, INT]), tlist(INT)])
                return ("bin", self.pick(CMP), self.expr(scope, ct, depth - 1), self.expr(scope, ct, depth - 1))
            if k < 0.5:
                return (self.pick(["and", "or"]), self.expr(scope, BOOL, depth - 1), self.expr(scope, BOOL, depth - 1))
            if k < 0.6:
                return ("un", "not", self.expr(scope, self.pick([BOOL, INT, STR, tlist(INT)]), depth - 1))
            if k < 0.8:
                et = self.pick([INT, STR])
                cont = self.pick([tlist(et), tdict(et, INT), ttuple([et, et])] + ([STR] if et == STR else []))
                return ("bin", self.pick(["in", "not in"]), self.expr(scope, et, depth - 1), self.expr(scope, cont, depth - 1))
            if k < 0.88:
                # double negation of a short-circuit expression whose left operand is not a bool (prefer a variable on the
                # left and a syntactically boolean right operand, the shape an optimiser is tempted to simplify)
                lt = self.pick([INT, STR, tlist(INT), NONE, tdict(STR, INT)])
                vs = self.vars_of(scope, lt)
                left = ("var", self.pick(vs)) if vs and self.chance(0.7) else self.expr(scope, lt, depth - 1)
                ct = self.pick([INT, STR])
                right = ("bin", self.pick(CMP), self.expr(scope, ct, depth - 1), self.expr(scope, ct, depth - 1)) if self.chance(0.6) \
                    else self.expr(scope, BOOL, depth - 1)
                self.note("notnot_shortcircuit")
                return ("un", "not", ("un", "not", (self.pick(["and", "or"]), left, right)))
            if k < 0.93:
                return ("call", ("var", self.pick(["any", "all"])), [self.expr(scope, tlist(self.pick([BOOL, INT])), depth - 1)], [], None, None)
            if k < 0.97:
                return ("call", ("var", "bool"), [self.expr(scope, self.pick([INT, STR, tlist(INT)]), depth - 1)], [], None, None)
            return self.lit(BOOL, 0)
        if t == STR:
            k = self.rng.random()
            if k < 0.3:
                return ("bin", "+", self.expr(scope, STR, depth - 1), self.expr(scope, STR, depth - 1))
            if k < 0.4:
                return ("bin", "*", self.expr(scope, STR, depth - 1), ("int", self.rng.randint(-1, 3)))
            if k < 0.55:
                return self.slice_of(scope, self.expr(scope, STR, depth - 1), depth - 1)
            if k < 0.65:
                return ("call", ("var", "str"), [self.expr(scope, INT, depth - 1)], [], None, None)
            return self.lit(STR, 0)
        if t == NONE:
            return ("none",)
        if t[0] == "list":
            k = self.rng.random()
            et = t[1]
            if k < 0.2:
                return ("bin", "+", self.expr(scope, t, depth - 1), self.expr(scope, t, depth - 1))
            if k < 0.27:
                return ("bin", "*", self.expr(scope, t, depth - 1), ("int", self.rng.randint(0, 3)))
            if k < 0.4:
                return self.slice_of(scope, self.expr(scope, t, depth - 1), depth - 1)
            if k < 0.6:
                return self.list_comp(scope, et, depth - 1)
            if k < 0.68 and et in (INT, STR):
                named = []
                if self.chance(0.4):
                    named.append(("reverse", ("bool", self.chance(0.7))))
                if self.chance(0.35):
                    named.append(("key", ("var", "abs") if et == INT else ("var", "len")))
                elif et == INT and self.chance(0.2):
                    kx = self.fresh("c")
                    named.append(("key", ("lambda", [("p", kx, None)], ("bin", "%", ("var", kx), ("int", 3)))))
                self.note("sorted_kw" if named else "sorted")
                return ("call", ("var", "sorted"), [self.expr(scope, t, depth - 1)], named, None, None)
            if k < 0.68 and et[0] == "tuple" and et[1] and et[1][0] in (INT, STR):
                kx = self.fresh("c")
                named = [("key", ("lambda", [("p", kx, None)], ("index", ("var", kx), ("int", 0))))]
                if self.chance(0.5):
                    named.append(("reverse", ("bool", True)))
                self.note("sorted_kw")
                return ("call", ("var", "sorted"), [self.expr(scope, t, depth - 1)], named, None, None)
            if k < 0.74:
                return ("call", ("var", "reversed"), [self.expr(scope, t, depth - 1)], [], None, None)
            if k < 0.8 and et == INT:
                return ("call", ("var", "list"), [self.range_expr(scope, depth - 1)], [], None, None)
            if k < 0.86:
                return ("call", ("var", "list"), [self.expr(scope, t, depth - 1)], [], None, None)
            if k < 0.9 and et[0] == "tuple" and len(et[1]) == 2 and et[1][0] == INT:
                return ("call", ("var", "enumerate"), [self.expr(scope, tlist(et[1][1]), depth - 1)], [], None, None)
            if k < 0.94 and et[0] == "tuple" and len(et[1]) == 2:
                return ("call", ("var", "zip"), [self.expr(scope, tlist(et[1][0]), depth - 1), self.expr(scope, tlist(et[1][1]), depth - 1)], [], None, None)
            return self.lit(t, depth)
        if t[0] == "tuple":
            if self.chance(0.3) and len(t[1]) >= 2:
                cut = self.rng.randint(1, len(t[1]) - 1)
                return ("bin", "+", self.expr(scope, ttuple(t[1][:cut]), depth - 1), self.expr(scope, ttuple(t[1][cut:]), depth - 1))
            return self.lit(t, depth)
        if t[0] == "dict":
            if self.chance(0.4):
                return self.dict_comp(scope, t, depth - 1)
            return self.lit(t, depth)
        return self.lit(t, depth)

    # ---- MiniStar stage 2: strings ------------------------------------------------------------------------
    def note_str_op(self, e):
        """Coverage: which string operation an expression's outermost node is."""
        if e[0] == "index":
            e = e[1]
        if e[0] == "meth":
            self.note("str." + e[2])
        elif e[0] == "bin":
            self.note("str.%" if e[1] == "%" else "str." + e[1])
        elif e[0] == "call" and e[1][0] == "var":
            self.note("str." + e[1][1] + "()")
        elif e[0] == "lcomp":
            self.note("str.elems")

    def str_text(self, n):
        return "".join(self.pick(STR_ALPHA) for _ in range(n))

    def sep_lit(self):
        """A non-empty separator / needle literal."""
        return ("str", self.pick([",", " ", "a", "ab", "--", ".", "_", "\n", "b", "x", "01", ", "]))

    def needle(self, scope, depth):
        if self.chance(0.6):
            return self.sep_lit()
        if self.chance(0.3):
            return ("str", "")
        return self.expr(scope, STR, depth)

    def window_args(self, needle=None):
        """Optional start / end arguments of find, count, startswith, ... (None allowed).  A needle that may be empty gets
        at most a start index: with both indices starlark-rust mis-places the empty window in two corner cases (known
        findings corpus:str-find-start-beyond-empty-string / str-find-negative-window-clamped)."""
        r = self.rng.random()
        ix = lambda: ("int", self.pick([0, 1, 2, 3, -1, -2, -3, 5, 100, -100]))
        if r < 0.5:
            return []
        if r < 0.75 or not (needle is not None and needle[0] == "str" and needle[1] != ""):
            return [ix()]
        if r < 0.85:
            return [("none",), ix()]
        return [ix(), ix()]

    def repr_safe_type(self, depth=2):
        """A type whose values print identically in Starlark and Python (no strings inside: Starlark quotes with
        double quotes), unless the program is in the Starlark-only `repr_str` mode."""
        base = [INT, INT, BOOL, NONE] + ([STR, STR] if self.repr_str else [])
        r = self.rng.random()
        if depth <= 0 or r < 0.5:
            return self.pick(base)
        if r < 0.7:
            return tlist(self.repr_safe_type(depth - 1))
        if r < 0.9:
            return ttuple([self.repr_safe_type(depth - 1) for _ in range(self.rng.randint(0, 3))])
        return tdict(self.pick([INT, STR] if self.repr_str else [INT]), self.repr_safe_type(depth - 1))

    def percent_expr(self, scope, depth):
        """"lit %s lit %d ..." % args with matching arity and types."""
        n = self.pick([0, 1, 1, 1, 2, 2, 3])
        fmt, args = "", []
        for _ in range(n):
            fmt += self.str_text(self.pick([0, 1, 2])).replace("%", "%%")
            c = self.pick(["s", "s", "d", "d", "r", "x", "o", "X"])
            fmt += "%" + c
            if c == "s":
                t = self.pick([STR, STR, self.repr_safe_type(1)])
            elif c == "r":
                t = self.repr_safe_type(1)
            else:
                t = INT
            if t == INT and self.chance(0.4):
                # sign and the i32 / bigint representation boundary matter to %d %x %o %X
                args.append(("int", self.pick([-1, -255, -8, 255, 4096, -7, -2 ** 31, 2 ** 31 - 1, 2 ** 31, -(2 ** 40), 2 ** 64 + 10])))
            else:
                args.append(self.expr(scope, t, depth))
        fmt += self.str_text(self.pick([0, 1, 2])).replace("%", "%%")
        if self.chance(0.2):
            fmt += "%%"
        if n == 1 and args[0][0] != "tuple" and self.chance(0.5) and not self.is_tuple_typed(args[0]):
            return ("bin", "%", ("str", fmt), args[0])
        return ("bin", "%", ("str", fmt), ("tuple", args))

    def is_tuple_typed(self, e):
        # a single non-tuple argument may be passed bare; be conservative: only literals / calls known not to be tuples
        return e[0] not in ("int", "str", "bool", "none", "list", "dict", "lcomp", "dcomp")

    def format_expr(self, scope, depth):
        """"{} {0} {name} {{}}".format(...): automatic OR manual numbering, named fields, !r / !s conversions."""
        n = self.pick([0, 1, 1, 2, 2, 3])
        manual = self.chance(0.35)
        names = ["a", "b", "key", "x1"]
        fmt, args, kwargs = "", [], []
        esc = lambda x: x.replace("{", "{{").replace("}", "}}")
        for i in range(n):
            fmt += esc(self.str_text(self.pick([0, 1, 2])))
            conv = self.pick(["", "", "", "!s", "!r"])
            t = self.repr_safe_type(1) if conv == "!r" else self.pick([STR, STR, INT, self.repr_safe_type(1)])
            e = self.expr(scope, t, depth)
            if self.chance(0.3):
                nm = names[len(kwargs) % len(names)] + ("" if len(kwargs) < len(names) else str(len(kwargs)))
                kwargs.append((nm, e))
                fmt += "{%s%s}" % (nm, conv)
                if self.chance(0.2):
                    fmt += "{%s}" % nm
            else:
                args.append(e)
                fmt += "{%s%s}" % (str(len(args) - 1) if manual else "", conv)
        if manual and args and self.chance(0.4):
            fmt += "{%d}" % self.rng.randrange(len(args))
        fmt += esc(self.str_text(self.pick([0, 1, 2])))
        if self.chance(0.15):
            args.append(self.expr(scope, INT, 0))                       # surplus positional arguments are ignored
        return ("meth", ("str", fmt), "format", args, kwargs)

    def str_list_expr(self, scope, depth):
        """An expression of type list[str] built by a string method."""
        s0 = self.expr(scope, STR, depth)
        k = self.rng.random()
        if k < 0.25:
            ms = [] if self.chance(0.6) else [("none",), ("int", self.pick([0, 1, 2, -1, 5]))]
            return ("meth", s0, self.pick(["split", "rsplit"]), ms)
        if k < 0.65:
            ms = [] if self.chance(0.55) else [("int", self.pick([0, 1, 2, -1, 5]))]
            return ("meth", s0, self.pick(["split", "split", "rsplit"]), [self.sep_lit()] + ms)
        if k < 0.8:
            return ("meth", s0, "splitlines", [] if self.chance(0.5) else [("bool", self.chance(0.6))])
        if k < 0.9:
            return ("call", ("var", "list"), [("meth", s0, "elems", [])], [], None, None)
        x = self.fresh("c")
        return ("lcomp", ("bin", "+", ("var", x), ("var", x)), [("for", ("tvar", x), ("meth", s0, "elems", []))])

    def str_op(self, scope, t, depth):
        """An expression of type t whose outermost operation is a string operation; None if there is none for t."""
        S = lambda: self.expr(scope, STR, depth)
        if self.chance(0.3):
            e = self.rel_str_op(scope, t, depth)
            if e is not None:
                self.note("receiver_derived_argument")
                return e
        k = self.rng.random()
        if t == STR:
            if k < 0.14:
                return ("meth", S(), self.pick(["upper", "lower", "capitalize", "title"]), [])
            if k < 0.26:
                m = self.pick(["strip", "lstrip", "rstrip"])
                return ("meth", S(), m, [] if self.chance(0.5) else [("str", self.pick([" ", "ab", "xyz_", "\n\t ", "a", ",.-", ""]))])
            if k < 0.38:
                cnt = [] if self.chance(0.6) else [("int", self.pick([0, 1, 2, 5]))]
                return ("meth", S(), "replace", [self.needle(scope, depth), self.expr(scope, STR, 0)] + cnt)
            if k < 0.5:
                sep = self.expr(scope, STR, 0)
                if self.chance(0.6):
                    return ("meth", sep, "join", [self.str_list_expr(scope, depth)])
                if self.chance(0.5):
                    return ("meth", sep, "join", [self.expr(scope, tlist(STR), depth)])
                return ("meth", sep, "join", [("tuple", [S() for _ in range(self.rng.randint(0, 3))])])
            if k < 0.56:
                return ("meth", S(), self.pick(["removeprefix", "removesuffix"]), [self.needle(scope, depth)])
            if k < 0.7:
                self.note("percent_format")
                return self.percent_expr(scope, depth)
            if k < 0.84:
                self.note("dot_format")
                return self.format_expr(scope, depth)
            if k < 0.9:
                self.note("repr_or_str")
                return ("call", ("var", self.pick(["repr", "str"])), [self.expr(scope, self.repr_safe_type(2), depth)], [], None, None)
            if k < 0.93:
                return ("call", ("var", "chr"), [("int", self.rng.randint(32, 126))], [], None, None)
            if k < 0.97:
                return ("call", ("var", self.pick(["min", "max"])), [S(), S()] + ([S()] if self.chance(0.3) else []), [], None, None)
            return ("index", ("meth", S(), self.pick(["partition", "rpartition"]), [self.sep_lit()]), ("int", self.pick([0, 1, 2, -1])))
        if t == INT:
            if k < 0.4:
                nd = self.needle(scope, depth)
                return ("meth", S(), self.pick(["find", "rfind"]), [nd] + self.window_args(nd))
            if k < 0.6:
                nd = self.needle(scope, depth)
                return ("meth", S(), "count", [nd] + self.window_args(nd))
            if k < 0.72:
                # index of a substring that is certainly there
                p = self.sep_lit()
                return ("meth", ("bin", "+", S(), p), self.pick(["index", "rindex"]), [p])
            if k < 0.82:
                return ("call", ("var", "ord"), [("str", self.pick(STR_ALPHA))], [], None, None)
            if k < 0.92:
                return ("call", ("var", "len"), [self.str_list_expr(scope, depth)], [], None, None)
            return ("call", ("var", "int"), [("call", ("var", "str"), [self.expr(scope, INT, depth)], [], None, None)], [], None, None)
        if t == BOOL:
            if k < 0.4:
                m = self.pick(["startswith", "endswith"])
                if self.chance(0.3):
                    aff = ("tuple", [self.needle(scope, 0) for _ in range(self.rng.randint(0, 3))])
                    safe = ("str", "x") if all(a[0] == "str" and a[1] != "" for a in aff[1]) else None
                else:
                    aff = self.needle(scope, depth)
                    safe = aff
                return ("meth", S(), m, [aff] + self.window_args(safe))
            if k < 0.8:
                return ("meth", S(), self.pick(["isdigit", "isalpha", "isalnum", "isspace", "isupper", "islower", "istitle"]), [])
            return ("bin", self.pick(["in", "not in"]), self.needle(scope, depth), S())
        if t == tlist(STR):
            return self.str_list_expr(scope, depth)
        if t == ttuple([STR, STR, STR]):
            return ("meth", S(), self.pick(["partition", "rpartition"]), [self.sep_lit()])
        if t == tlist(ttuple([INT, STR])):
            st = [] if self.chance(0.7) else [("int", self.rng.randint(-2, 5))]
            return ("call", ("var", "enumerate"), [("meth", S(), "elems", [])] + st, [], None, None)
        if t == tlist(ttuple([STR, STR])):
            return ("call", ("var", "zip"), [("meth", S(), "elems", []), ("meth", S(), "elems", [])], [], None, None)
        return None

    # ---- string methods whose arguments are DERIVED FROM THE RECEIVER -------------------------------------------
    # Independently drawn receiver and argument almost never stand in an interesting relation (the needle is a prefix / a suffix /
    # the whole receiver / longer than it, every occurrence lies in one run at the start, occurrences overlap or touch, the
    # replacement is empty ...).  Here the receiver is a text built from a few repeated units (or a string variable) and the
    # arguments are computed from it.
    REL_UNITS = ["a", "b", "ab", "-", "--", " ", "x", "aa", ",", "_", "\n", "A", "0", "ba", ". ", "%", "{}", "\t"]

    def rel_text(self):
        """(text, units): runs of one unit at the start / the end, adjacent and overlapping occurrences."""
        units = [self.pick(self.REL_UNITS) for _ in range(self.pick([1, 2, 2, 3]))]
        parts = []
        if self.chance(0.55):
            parts += [units[0]] * self.pick([1, 1, 2, 3])                       # a run of the first unit at the start
        parts += [self.pick(units) for _ in range(self.pick([0, 0, 1, 2, 3, 4, 5]))]
        if self.chance(0.2):
            parts.append(self.str_text(self.pick([1, 2])))                      # something unrelated inside
        if parts and self.chance(0.3):
            parts += [self.pick(units)] * self.pick([1, 2])                     # a run at the end
        return "".join(parts), units

    def rel_arg(self, recv, text, units, nonempty=False):
        """An argument derived from the receiver: a literal computed from `text` when the receiver is a literal, else a
        slice expression over the receiver variable.  `nonempty`: the result must not be the empty string."""
        k = self.rng.random()
        if text is not None:
            n = len(text)
            if k < 0.2:
                a = self.pick(units)
            elif k < 0.34:
                a = text[:self.pick([1, 1, 2, 3])]                               # a prefix
            elif k < 0.46:
                a = text[-self.pick([1, 1, 2, 3]):]                              # a suffix
            elif k < 0.56:
                a = text[:1] * self.pick([2, 3])                                 # the first character repeated
            elif k < 0.64:
                a = text                                                         # the whole receiver
            elif k < 0.7:
                a = text + self.pick(units)                                      # longer than the receiver
            elif k < 0.8:
                i = self.rng.randint(0, n)
                a = text[i:self.rng.randint(i, min(n, i + 3))]                   # some substring
            elif k < 0.9:
                a = ""
            elif k < 0.95:
                a = units[0] * 2
            else:
                a = self.pick(self.REL_UNITS)
            if nonempty and a == "":
                a = self.pick(units)
            return ("str", a)
        ix = lambda: ("int", self.pick([1, 1, 2, 3]))
        if nonempty:
            # a non-empty prefix / suffix of the receiver extended by one character
            u = ("str", self.pick(["a", "-", " ", ","]))
            return ("slice", ("bin", "+", recv, u), None, ix(), None) if self.chance(0.6) else \
                ("slice", ("bin", "+", u, recv), ("un", "-", ix()), None, None)
        if k < 0.25:
            return ("slice", recv, None, ix(), None)
        if k < 0.45:
            return ("slice", recv, ("un", "-", ix()), None, None)
        if k < 0.6:
            return ("bin", "*", ("slice", recv, None, ("int", 1), None), ("int", self.pick([2, 3])))
        if k < 0.7:
            return recv
        if k < 0.78:
            return ("bin", "+", recv, ("str", self.pick(["a", "-", " "])))
        if k < 0.9:
            return ("slice", recv, ("int", self.pick([0, 1, 2])), ("int", self.pick([1, 2, 3, 4])), None)
        return ("str", "")

    def rel_str_op(self, scope, t, depth):
        """A string-method call of type t whose arguments are derived from its receiver; None if there is none for t."""
        vs = self.vars_of(scope, STR)
        if vs and self.chance(0.3):
            recv, text, units = ("var", self.pick(vs)), None, ["a", "-", " ", ","]
        else:
            text, units = self.rel_text()
            recv = ("str", text)
        A = lambda nonempty=False: self.rel_arg(recv, text, units, nonempty)
        count = lambda: [] if self.chance(0.6) else [("int", self.pick([0, 1, 1, 2, 3]))]
        k = self.rng.random()
        if t == STR:
            if k < 0.45:
                r = self.rng.random()
                new = ("str", "") if r < 0.5 else ("str", self.pick(units)) if r < 0.75 else A() if r < 0.9 else self.expr(scope, STR, 0)
                return ("meth", recv, "replace", [A(), new] + count())
            if k < 0.6:
                return ("meth", recv, self.pick(["strip", "lstrip", "rstrip"]), [A()])
            if k < 0.75:
                return ("meth", recv, self.pick(["removeprefix", "removesuffix"]), [A()])
            if k < 0.87:
                return ("index", ("meth", recv, self.pick(["partition", "rpartition"]), [A(True)]), ("int", self.pick([0, 1, 2, -1])))
            sep = A(True)
            ms = [] if self.chance(0.6) else [("int", self.pick([0, 1, 2, -1]))]
            return ("meth", sep if self.chance(0.7) else A(), "join", [("meth", recv, self.pick(["split", "split", "rsplit"]), [sep] + ms)])
        if t == INT:
            if k < 0.4:
                nd = A()
                return ("meth", recv, self.pick(["find", "rfind"]), [nd] + self.window_args(nd))
            if k < 0.7:
                nd = A()
                return ("meth", recv, "count", [nd] + self.window_args(nd))
            if k < 0.85:
                nd = A()
                if text is not None and nd[1] in text:
                    return ("meth", recv, self.pick(["index", "rindex"]), [nd])
                return ("meth", recv, self.pick(["find", "rfind"]), [nd])
            return ("call", ("var", "len"), [("meth", recv, self.pick(["split", "rsplit"]), [A(True)])], [], None, None)
        if t == BOOL:
            if k < 0.6:
                if self.chance(0.3):
                    aff = ("tuple", [A() for _ in range(self.rng.randint(1, 3))])
                    safe = ("str", "x") if all(a[0] == "str" and a[1] != "" for a in aff[1]) else None
                else:
                    aff = A()
                    safe = aff
                return ("meth", recv, self.pick(["startswith", "endswith"]), [aff] + self.window_args(safe))
            if k < 0.8:
                return ("bin", self.pick(["in", "not in"]), A(), recv)
            return ("bin", self.pick(["==", "!="]), ("meth", recv, "replace", [A(), ("str", "")] + count()), recv)
        if t == tlist(STR):
            ms = [] if self.chance(0.5) else [("int", self.pick([0, 1, 2, -1, 5]))]
            return ("meth", recv, self.pick(["split", "split", "rsplit"]), [A(True)] + ms)
        if t == ttuple([STR, STR, STR]):
            return ("meth", recv, self.pick(["partition", "rpartition"]), [A(True)])
        return None

    def string_failure(self, scope, depth):
        """A string operation that fails at run time in both Starlark and Python."""
        k = self.rng.random()
        S = lambda: self.expr(scope, STR, depth)
        if k < 0.12:
            return ("bin", "%", ("str", "%d and %s"), ("tuple", [self.expr(scope, INT, depth)]))                  # not enough arguments
        if k < 0.24:
            return ("bin", "%", ("str", "only %s"), ("tuple", [self.expr(scope, INT, depth), S()]))              # too many arguments
        if k < 0.32:
            return ("bin", "%", ("str", "%d"), S())                                                             # %d of a string
        if k < 0.38:
            return ("bin", "%", ("str", self.pick(["100%", "%z", "%"])), ("tuple", [] if self.chance(0.5) else [("int", 1)]))
        if k < 0.5:
            return ("meth", S(), self.pick(["index", "rindex"]), [("str", "no such!")])
        if k < 0.6:
            return ("meth", ("str", "{} and {}"), "format", [self.expr(scope, INT, depth)])                      # index out of range
        if k < 0.68:
            return ("meth", ("str", "{missing}"), "format", [], [("other", self.expr(scope, INT, depth))])       # unknown name
        if k < 0.76:
            return ("meth", ("str", self.pick(["{0} {}", "{} {0}", "{", "}", "{a", "a}b"])), "format", [("int", 1), ("int", 2)])
        if k < 0.84:
            return ("meth", ("str", ","), "join", [("list", [S(), self.expr(scope, INT, depth)])])
        if k < 0.9:
            return ("meth", S(), self.pick(["partition", "rpartition"]), [("str", "")])
        if k < 0.95:
            return ("call", ("var", "ord"), [("str", self.pick(["", "ab"]))], [], None, None)
        return ("meth", S(), self.pick(["find", "count", "startswith", "split"]), [self.expr(scope, INT, depth)])   # wrong argument type

    def nonzero(self, e):
        if e[0] == "int" and e[1] == 0:
            return ("int", 3)
        if e[0] == "int":
            return e
        # (e | 1) is never zero
        return ("bin", "|", e, ("int", 1))

    def nonempty_list(self, scope, et, depth):
        return ("bin", "+", ("list", [self.expr(scope, et, depth)]), self.expr(scope, tlist(et), depth))

    def range_expr(self, scope, depth):
        k = self.rng.random()
        if k < 0.5:
            return ("call", ("var", "range"), [("int", self.rng.randint(0, 6))], [], None, None)
        if k < 0.8:
            return ("call", ("var", "range"), [("int", self.rng.randint(-3, 3)), ("int", self.rng.randint(-3, 8))], [], None, None)
        return ("call", ("var", "range"), [("int", self.rng.randint(-5, 8)), ("int", self.rng.randint(-5, 8)),
                                         ("int", self.pick([1, 2, 3, -1, -2]))], [], None, None)

    def small_index(self):
        return ("int", self.pick([0, 0, 1, -1, 2, -2]))

    def elem_access(self, scope, t, depth):
        """container[i] of type t using a *safe* index (container made non-empty)."""
        k = self.rng.random()
        if k < 0.5:
            c = self.nonempty_list(scope, t, depth)
            return ("index", c, self.pick([("int", 0), ("int", -1)]))
        if k < 0.75 and t in (INT, STR, BOOL) or t[0] != "fn":
            other = self.rand_type(1)
            tt = [other, t] if self.chance(0.5) else [t, other]
            idx = tt.index(t)
            return ("index", self.expr(scope, ttuple(tt), depth), ("int", idx if self.chance(0.7) else idx - 2))
        return None

    def slice_of(self, scope, e, depth):
        def part():
            if self.chance(0.35):
                return None
            return ("int", self.pick([0, 1, 2, -1, -2, 3, 100, -100]))
        st = None if self.chance(0.6) else ("int", self.pick([1, 2, -1, -2, 3]))
        return ("slice", e, part(), part(), st)

    def list_comp(self, scope, et, depth):
        src_t = self.pick([INT, STR]) if self.chance(0.7) else self.rand_type(1)
        x = self.fresh("c")
        it = self.expr(scope, tlist(src_t), depth) if src_t != INT or self.chance(0.5) else self.range_expr(scope, depth)
        inner = self.subscope(scope, {x: src_t})
        clauses = [("for", ("tvar", x), it)]
        if self.chance(0.4):
            clauses.append(("if", self.expr(inner, BOOL, depth)))
        if self.chance(0.25):
            y = self.fresh("c")
            it2 = self.range_expr(inner, depth) if self.chance(0.6) else self.expr(inner, tlist(INT), depth)
            clauses.append(("for", ("tvar", y), it2))
            inner = self.subscope(inner, {y: INT})
            if self.chance(0.3):
                clauses.append(("if", self.expr(inner, BOOL, depth)))
        self.note("list_comp")
        return ("lcomp", self.expr(inner, et, depth), clauses)

    def dict_comp(self, scope, t, depth):
        x = self.fresh("c")
        it = self.expr(scope, tlist(t[1]), depth)
        inner = self.subscope(scope, {x: t[1]})
        clauses = [("for", ("tvar", x), it)]
        if self.chance(0.3):
            clauses.append(("if", self.expr(inner, BOOL, depth)))
        self.note("dict_comp")
        return ("dcomp", ("var", x), self.expr(inner, t[2], depth), clauses)

    def subscope(self, scope, new):
        vs = dict(scope["vars"])
        vs.update(new)
        return {"vars": vs, "unassigned": scope["unassigned"] - set(new), "locked": scope["locked"], "in_loop": False,
                "in_fn": scope["in_fn"], "ret": scope["ret"], "depth": scope["depth"], "mutates": scope["mutates"]}

    def call_fn(self, scope, f, ty, depth):
        args = [self.expr(scope, a, depth) for a in ty[1]]
        nd = ty[4]
        named = []
        if nd and self.chance(0.5):
            args = args[:len(args) - self.rng.randint(0, nd)]      # rely on defaults
        self.note("call_user_fn")
        return ("call", ("var", f), args, named, None, None)

    # ---- statements ---------------------------------------------------------------------------------
    def mutation(self, scope, depth):
        """A statement mutating a container that is not of a locked (being iterated) type."""
        cands = [(x, ty) for x, ty in scope["vars"].items()
                 if ty[0] in ("list", "dict") and ty not in scope["locked"] and x not in scope["unassigned"]]
        if not cands:
            return None
        x, ty = self.pick(cands)
        scope["mutates"].add(ty)
        self.note("mutation")
        if ty[0] == "list":
            k = self.rng.random()
            if k < 0.4:
                return ("expr", ("meth", ("var", x), "append", [self.expr(scope, ty[1], depth)]))
            if k < 0.55:
                return ("expr", ("meth", ("var", x), "extend", [self.expr(scope, ty, depth)]))
            if k < 0.65:
                return ("expr", ("meth", ("var", x), "insert", [("int", self.pick([0, 1, -1, 5])), self.expr(scope, ty[1], depth)]))
            if k < 0.75:
                return ("aug", ("tvar", x), "+", self.expr(scope, ty, depth))
            if k < 0.85:
                # pop from a list made non-empty first
                return ("if", ("var", x), [("expr", ("meth", ("var", x), "pop", [] if self.chance(0.6) else [("int", 0)]))], [])
            if k < 0.95:
                return ("if", ("var", x), [("assign", ("tindex", ("var", x), self.pick([("int", 0), ("int", -1)])), self.expr(scope, ty[1], depth))], [])
            return ("expr", ("meth", ("var", x), "clear", []))
        k = self.rng.random()
        key = self.lit(ty[1], 0)
        if k < 0.5:
            return ("assign", ("tindex", ("var", x), key), self.expr(scope, ty[2], depth))
        if k < 0.65:
            return ("expr", ("meth", ("var", x), "setdefault", [key, self.expr(scope, ty[2], depth)]))
        if k < 0.8:
            return ("expr", ("meth", ("var", x), "pop", [key, self.expr(scope, ty[2], depth)]))
        if k < 0.92:
            return ("expr", ("meth", ("var", x), "update", [self.expr(scope, ty, depth)]))
        return ("expr", ("meth", ("var", x), "clear", []))

    def planted_failure(self, scope, depth):
        """One statement that fails at run time (in both Python and Starlark)."""
        self.fail_planted = True
        if self.strings and self.chance(0.3):
            self.note("planted_failure")
            self.note("planted_string_failure")
            self.uses_strings = True
            return ("expr", self.string_failure(scope, depth))
        k = self.rng.random()
        self.note("planted_failure")
        if k < 0.2:
            return ("expr", ("index", self.expr(scope, tlist(INT), depth), ("int", self.pick([50, -50]))))
        if k < 0.4:
            return ("expr", ("index", self.expr(scope, tdict(STR, INT), depth), ("str", "missing!")))
        if k < 0.6:
            return ("assign", ("tvar", self.fresh()), ("bin", self.pick(["//", "%"]), self.expr(scope, INT, depth), ("int", 0)))
        if k < 0.75:
            return ("expr", ("bin", "+", self.expr(scope, INT, depth), self.expr(scope, STR, depth)))
        if k < 0.85:
            fns = [(x, ty) for x, ty in scope["vars"].items() if ty[0] == "fn" and x not in scope["unassigned"]]
            if fns:
                f, ty = self.pick(fns)
                return ("expr", ("call", ("var", f), [self.expr(scope, INT, 0) for _ in range(len(ty[1]) + 1 + self.rng.randint(0, 1))], [], None, None))
        if k < 0.93:
            return ("expr", ("meth", self.expr(scope, tlist(INT), depth), "remove", [("int", 123456789)]))
        return ("expr", ("call", ("var", "int"), [("str", "12x")], [], None, None))

    # ---- "effects": evaluation order made observable ----------------------------------------------------------------
    # Helper defs (prepended to the program when used).  Every helper emits a marker, so the position of its evaluation in the
    # transcript - also relative to a failure - is observed; the mutating ones change the container an enclosing statement reads
    # or assigns.
    FX_DEFS = {
        "tr0": (["k", "v"], [("expr", ("call", ("var", "emit"), [("var", "k")], [], None, None)), ("return", ("var", "v"))]),
        "set0": (["c", "k", "v", "r"], [("expr", ("call", ("var", "emit"), [("str", "set")], [], None, None)),
                                        ("assign", ("tindex", ("var", "c"), ("var", "k")), ("var", "v")), ("return", ("var", "r"))]),
        "app0": (["c", "v", "r"], [("expr", ("call", ("var", "emit"), [("str", "app")], [], None, None)),
                                   ("expr", ("meth", ("var", "c"), "append", [("var", "v")])), ("return", ("var", "r"))]),
        "pop0": (["c", "r"], [("expr", ("call", ("var", "emit"), [("str", "pop")], [], None, None)),
                              ("expr", ("meth", ("var", "c"), "pop", [])), ("return", ("var", "r"))]),
        "del0": (["c", "k", "r"], [("expr", ("call", ("var", "emit"), [("str", "del")], [], None, None)),
                                   ("expr", ("meth", ("var", "c"), "pop", [("var", "k")])), ("return", ("var", "r"))]),
        "clr0": (["c", "r"], [("expr", ("call", ("var", "emit"), [("str", "clr")], [], None, None)),
                              ("expr", ("meth", ("var", "c"), "clear", [])), ("return", ("var", "r"))]),
    }
    FX_ORDER = ["tr0", "set0", "app0", "pop0", "del0", "clr0"]

    def fx(self, name, *args):
        self.fx_used.add(name)
        return ("call", ("var", name), list(args), [], None, None)

    def fx_tr(self, e):
        """e wrapped in the tracing helper: emits a fresh tag when (and where) e has been evaluated."""
        self.fx_tag += 1
        self.note("traced_operand")
        return self.fx("tr0", ("int", self.fx_tag), e)

    def tw(self, e, p):
        """e with some of its sub-expressions (every operand position of the subset: display elements, operator operands,
        container / index / slice bounds, receivers, positional and named arguments, branches) wrapped by fx_tr."""
        k = e[0]
        rec = lambda x: self.tw(x, p)
        opt = lambda x: None if x is None else rec(x)
        if k in ("tuple", "list"):
            new = (k, [rec(x) for x in e[1]])
        elif k == "dict":
            new = ("dict", [(rec(a), rec(b)) for a, b in e[1]])
        elif k == "un":
            new = ("un", e[1], rec(e[2]))
        elif k == "bin":
            new = ("bin", e[1], rec(e[2]), rec(e[3]))
        elif k in ("and", "or"):
            new = (k, rec(e[1]), rec(e[2]))
        elif k == "ifx":
            new = ("ifx", rec(e[1]), rec(e[2]), rec(e[3]))
        elif k == "index":
            new = ("index", rec(e[1]), rec(e[2]))
        elif k == "slice":
            new = ("slice", rec(e[1]), opt(e[2]), opt(e[3]), opt(e[4]))
        elif k == "call" and e[4] is None and e[5] is None:
            # callee untouched; named arguments that are bare names (key=len) untouched
            new = ("call", e[1], [rec(a) for a in e[2]], [(n, v if v[0] in ("var", "lambda") else rec(v)) for n, v in e[3]], None, None)
        elif k == "meth":
            if e[2] == "elems":
                return ("meth", rec(e[1]), e[2], e[3]) + tuple(e[4:])
            new = ("meth", rec(e[1]), e[2], [rec(a) for a in e[3]], [(n, rec(v)) for n, v in (e[4] if len(e) > 4 else [])])
        else:
            # literals and names are wrapped as they are; lambdas / comprehensions are not entered
            new = e
            if k in ("lambda", "lcomp", "dcomp", "call") or (k == "var" and self.chance(0.5)):
                return new
        if self.tw_left > 0 and self.chance(p):
            self.tw_left -= 1
            return self.fx_tr(new)
        return new

    def tw_target(self, t, p):
        if t[0] == "tindex":
            return ("tindex", self.tw(t[1], p), self.tw(t[2], p))
        if t[0] == "ttuple":
            return ("ttuple", [self.tw_target(x, p) for x in t[1]])
        return t

    def tw_stmt(self, s, p):
        """The statement with (at most a handful of) operands of its own expressions traced (nested blocks are left alone)."""
        k = s[0]
        self.tw_left = self.pick([2, 3, 4, 6])
        if k == "expr":
            return ("expr", self.tw(s[1], p))
        if k == "assign":
            return ("assign", self.tw_target(s[1], p), self.tw(s[2], p))
        if k == "aug":
            return ("aug", self.tw_target(s[1], p), s[2], self.tw(s[3], p))
        if k == "if":
            return ("if", self.tw(s[1], p), s[2], s[3])
        if k == "for":
            return ("for", s[1], self.tw(s[2], p), s[3])
        if k == "return" and s[1] is not None:
            return ("return", self.tw(s[1], p))
        return s

    def fx_container(self, scope):
        """A fresh list / dict of scalars with statically known indices / keys:
        -> (statement, name, type, valid key nodes, invalid key nodes)."""
        et = self.pick([INT, INT, STR])
        x = self.fresh()
        if self.chance(0.5):
            n = self.pick([1, 2, 3, 3, 4])
            ty = tlist(et)
            lit = ("list", [self.expr(scope, et, 1) for _ in range(n)])
            good = [("int", i) for i in range(n)] + [("int", -1 - i) for i in range(n)]
            bad = [("int", n), ("int", n + 5), ("int", -n - 1)]
        else:
            kt = self.pick([INT, STR])
            ty = tdict(kt, et)
            keys = ([("int", i) for i in (0, 1, 7, -3, 2 ** 40)] if kt == INT else [("str", c) for c in ("a", "b", "", "k 1", "zz")])
            self.rng.shuffle(keys)
            n = self.pick([1, 2, 3, 3])
            lit = ("dict", [(k, self.expr(scope, et, 1)) for k in keys[:n]])
            good, bad = keys[:n], keys[n:]
        scope["vars"][x] = ty
        scope["mutates"].add(ty)
        return ("assign", ("tvar", x), lit), x, ty, good, bad

    def fx_rhs(self, scope, c, ty, good, bad, key, rt=None):
        """An effectful expression of type rt (default: the element type): calls a helper that emits and (mostly) mutates
        the container `c` - the element under `key`, another element, or the shape of the container."""
        et = ty[1] if ty[0] == "list" else ty[2]
        rt = rt or et
        C = ("var", c)
        v = lambda: self.expr(scope, et, 0)
        r = lambda: self.expr(scope, rt, 0)
        k = self.rng.random()
        if k < 0.15:
            return self.fx_tr(self.expr(scope, rt, 1))
        if k < 0.55:
            return self.fx("set0", C, key, v(), r())                                      # overwrites the element itself
        if k < 0.68:
            return self.fx("set0", C, self.pick(good), v(), r())                          # some element
        if k < 0.8:
            if ty[0] == "list":
                return self.fx("app0", C, v(), r())
            return self.fx("set0", C, self.pick(bad), v(), r())                           # inserts a new key
        if k < 0.9:
            if ty[0] == "list":
                return self.fx("pop0", C, r())                                            # (indices may shift / the store may fail)
            return self.fx("del0", C, self.pick(good), r())                               # the key is re-inserted at the end by a store
        if ty[0] == "dict":
            return self.fx("clr0", C, r())
        return self.fx("set0", C, key, v(), self.fx_tr(r()))

    def fx_block(self, scope):
        """A fresh container, one statement whose meaning depends on WHEN an effectful operand is evaluated relative to
        the reads / the store of that statement, and the container emitted afterwards."""
        mk, c, ty, good, bad = self.fx_container(scope)
        et = ty[1] if ty[0] == "list" else ty[2]
        C = ("var", c)
        key = self.pick(good)
        op = self.pick(["+", "+", "-", "*", "|", "&"]) if et == INT else "+"
        E = lambda rt=None: self.fx_rhs(scope, c, ty, good, bad, key, rt)
        rd = lambda: ("index", C, key)
        emit = lambda e: ("expr", ("call", ("var", "emit"), [e], [], None, None))
        k = self.rng.random()
        self.note("effect_block")
        if k < 0.34:
            self.note("effect_aug_index")
            st = ("aug", ("tindex", C, key), op, E())                                     # read c[key] BEFORE the rhs, store after
        elif k < 0.46:
            self.note("effect_assign_index")
            st = ("assign", ("tindex", C, key if self.chance(0.7) or ty[0] == "list" else self.pick(bad)), E())   # rhs first
        elif k < 0.54 and ty[0] == "list":
            self.note("effect_aug_var")
            st = ("aug", ("tvar", c), "+", self.pick([self.fx("app0", C, self.expr(scope, et, 0), ("list", [self.expr(scope, et, 0)])),
                                                      self.fx("set0", C, key, self.expr(scope, et, 0), ("list", [rd()])),
                                                      self.fx_tr(("list", [rd()]))]))
        elif k < 0.66:
            self.note("effect_display")
            shape = self.pick(["tuple", "list", "dict", "call"])
            items = [rd(), E(), rd()] + ([E(), rd()] if self.chance(0.3) else [])
            if shape == "dict":
                st = emit(("dict", [(("int", i), x) for i, x in enumerate(items)]))
            elif shape == "call":
                st = emit(self.fx("tr0", rd(), ("tuple", items[1:])))
            else:
                st = emit((shape, items))
        elif k < 0.76:
            self.note("effect_operands")
            if et == INT:
                st = emit(("bin", self.pick(["+", "-", "*"]), ("bin", self.pick(["+", "-", "*"]), rd(), E()), rd()))
            else:
                st = emit(("bin", "+", ("bin", "+", rd(), E()), rd()))
        elif k < 0.86:
            self.note("effect_method_args")
            if ty[0] == "list":
                st = self.pick([("expr", ("meth", C, "append", [E()])), ("expr", ("meth", C, "insert", [self.fx_tr(self.small_index()), E()])),
                                ("expr", ("meth", C, "extend", [("list", [rd(), E(), rd()])]))])
            else:
                st = self.pick([emit(("meth", C, "setdefault", [self.pick(good + bad), E()])), emit(("meth", C, "get", [self.pick(good + bad), E()])),
                                emit(("meth", C, "pop", [self.pick(good + bad), E()])),
                                ("expr", ("meth", C, "update", [("dict", [(self.pick(bad), E()), (key, rd())])]))])
        elif k < 0.93:
            self.note("effect_unpack")
            # targets are assigned left to right after the whole right-hand side
            k2 = self.pick(good)
            st = ("assign", ("ttuple", [("tindex", C, key), ("tindex", self.fx_tr(C), k2)]), ("tuple", [E(), rd()]))
        else:
            self.note("effect_condition")
            st = ("if", ("bin", "==", rd(), ("bin", op, E(), rd())) if et == INT else ("bin", "<", rd(), ("bin", "+", E(), rd())),
                  [emit(rd())], [emit(("tuple", [rd(), ("int", 0)]))])
        return [mk, st, emit(C)]

    def effect_failure(self, scope):
        """Statements ending in a run-time failure where the ORDER of the emitted output relative to the failure is observed."""
        self.fail_planted = True
        self.note("planted_failure")
        self.note("planted_effect_failure")
        k = self.rng.random()
        if k < 0.3:
            # any planted failure with its operands traced
            self.fail_planted = False
            return [self.tw_stmt(self.planted_failure(scope, 2), 0.8)]
        mk, c, ty, good, bad = self.fx_container(scope)
        et = ty[1] if ty[0] == "list" else ty[2]
        C = ("var", c)
        key = self.pick(good)
        op = self.pick(["+", "-", "*", "|"]) if et == INT else "+"
        E = lambda key=key: self.fx_rhs(scope, c, ty, good, bad, key)
        tr = lambda e: self.fx_tr(e) if self.chance(0.5) else e
        if k < 0.55:
            st = ("aug", ("tindex", tr(C), tr(self.pick(bad))), op, E())                   # the read fails: the rhs must not have run
        elif k < 0.67 and ty[0] == "list":
            st = ("assign", ("tindex", tr(C), tr(self.pick(bad))), E())                    # the rhs runs, then the store fails
        elif k < 0.77 and ty[0] == "list":
            st = ("aug", ("tindex", C, key), op, self.fx("clr0", C, self.expr(scope, et, 0)))   # read, rhs empties the list, the store fails
        elif k < 0.87:
            other = STR if et == INT else INT
            st = ("aug", ("tindex", tr(C), tr(key)), "+", self.fx_tr(self.expr(scope, other, 0)))   # operand type error after the rhs
        else:
            st = ("expr", ("call", ("var", "emit"), [("tuple", [E(), ("index", tr(C), tr(self.pick(bad))), E()])], [], None, None))
        return [mk, st]

    def stmt(self, scope, depth):
        if self.strings and self.chance(0.06):
            # a string method applied to arguments derived from its receiver, observed directly
            self.budget -= 1
            e = self.rel_str_op(scope, self.pick([STR, STR, STR, INT, INT, BOOL, tlist(STR), ttuple([STR, STR, STR])]), 1)
            self.note("string_op")
            self.note("receiver_derived_argument")
            self.note_str_op(e)
            self.uses_strings = True
            return [("expr", ("call", ("var", "emit"), [e], [], None, None))]
        if not self.effects:
            return self.stmt0(scope, depth)
        if self.want_fail and not self.fail_planted and self.chance(0.05):
            self.budget -= 1
            return self.effect_failure(scope)
        if self.chance(0.08):
            self.budget -= 2
            return self.fx_block(scope)
        out = self.stmt0(scope, depth)
        if self.chance(0.12):
            out = [self.tw_stmt(s, self.pick([0.25, 0.5, 0.8])) for s in out]
        return out

    def stmt0(self, scope, depth):
        self.budget -= 1
        r = self.rng.random()
        d = self.max_depth - 1
        if self.want_fail and not self.fail_planted and self.chance(0.12):
            return [self.planted_failure(scope, 2)]
        if r < 0.22 or depth <= 0:
            t = self.rand_type(2)
            x = self.fresh()
            e = self.expr(scope, t, d)
            scope["vars"][x] = t
            out = [("assign", ("tvar", x), e)]
            if self.chance(0.6) and t[0] != "fn":
                out.append(("expr", ("call", ("var", "emit"), [("var", x)], [], None, None)))
            return out
        if r < 0.32:
            # rebind / augmented assignment of an existing variable (only names owned by this function scope)
            own = [x for x in sorted(scope["own"]) if scope["vars"].get(x, ("fn",))[0] != "fn" and x not in scope["unassigned"]] if "own" in scope else []
            if own:
                x = self.pick(own)
                t = scope["vars"][x]
                if t == INT and self.chance(0.5):
                    return [("aug", ("tvar", x), self.pick(["+", "-", "*", "|", "&"]), self.expr(scope, INT, d))]
                if t == STR and self.chance(0.5):
                    return [("aug", ("tvar", x), "+", self.expr(scope, STR, d))]
                if t[0] in ("list", "dict") and t in scope["locked"]:
                    return [("pass",)]
                return [("assign", ("tvar", x), self.expr(scope, t, d))]
        if r < 0.45:
            e = self.expr(scope, self.rand_type(2), d)
            return [("expr", ("call", ("var", "emit"), [e], [], None, None))]
        if r < 0.57:
            m = self.mutation(scope, d)
            if m is not None:
                return [m]
        if r < 0.68:
            c = self.expr(scope, BOOL, d)
            th = self.block(scope, depth - 1, self.rng.randint(1, 3))
            el = self.block(scope, depth - 1, self.rng.randint(0, 2)) if self.chance(0.5) else []
            self.note("if")
            return [("if", c, th, el)]
        if r < 0.82:
            return [self.for_stmt(scope, depth)]
        if r < 0.93 and scope["depth"] < 2:
            return self.def_stmt(scope, depth)
        if scope["in_loop"] and self.chance(0.5):
            c = self.expr(scope, BOOL, d)
            self.note("break_continue")
            return [("if", c, [(self.pick(["break", "continue"]),)], [])]
        if scope["in_fn"] and self.chance(0.5):
            self.note("early_return")
            return [("if", self.expr(scope, BOOL, d), [("return", self.expr(scope, scope["ret"], d))], [])]
        return [("expr", ("call", ("var", "emit"), [self.expr(scope, INT, d)], [], None, None))]

    def block(self, scope, depth, n):
        """Statements in a nested block: new variables stay visible afterwards only if assigned on all paths,
        so names introduced inside a block are dropped from the scope when the block ends."""
        saved = dict(scope["vars"])
        out = []
        for _ in range(n):
            if self.budget <= 0:
                break
            out += self.stmt(scope, depth)
        # variables introduced in the block are forgotten (they may be unassigned on other paths)
        for x in list(scope["vars"]):
            if x not in saved:
                del scope["vars"][x]
                scope.setdefault("dead", set()).add(x)
        if not out:
            out = [("pass",)]
        return out

    def for_stmt(self, scope, depth):
        d = self.max_depth - 2
        k = self.rng.random()
        x = self.fresh("i")
        if self.strings and self.chance(0.12):
            it, et, lock = ("meth", self.expr(scope, STR, d), "elems", []), STR, None
            self.uses_strings = True
        elif k < 0.4:
            it, et, lock = self.range_expr(scope, d), INT, None
        elif k < 0.8:
            et = self.pick([INT, STR, ttuple([INT, STR]), tlist(INT)])
            it, lock = self.expr(scope, tlist(et), d), tlist(et)
        else:
            kt = self.pick([INT, STR])
            dt = tdict(kt, INT)
            it, et, lock = self.expr(scope, dt, d), kt, dt
        target = ("tvar", x)
        new = {x: et}
        if et[0] == "tuple" and self.chance(0.6):
            a, b = self.fresh("i"), self.fresh("i")
            target = ("ttuple", [("tvar", a), ("tvar", b)])
            new = {a: et[1][0], b: et[1][1]}
        saved_vars = dict(scope["vars"])
        saved_locked, saved_loop = scope["locked"], scope["in_loop"]
        scope["vars"].update(new)
        if "own" in scope:
            scope["own"].update(new.keys())
        scope["locked"] = scope["locked"] | ({lock} if lock else set())
        scope["in_loop"] = True
        body = self.block(scope, depth - 1, self.rng.randint(1, 4))
        scope["locked"], scope["in_loop"] = saved_locked, saved_loop
        # the loop variables stay bound after the loop only if it ran at least once: forget them
        for n_ in new:
            if n_ not in saved_vars:
                scope["vars"].pop(n_, None)
        self.note("for")
        return ("for", target, it, body)

    def def_stmt(self, scope, depth):
        name = self.fresh("f")
        nparams = self.rng.randint(0, 3)
        ptypes = [self.rand_type(1) for _ in range(nparams)]
        pnames = [self.fresh("p") for _ in range(nparams)]
        ret = self.rand_type(1)
        ndefaults = self.rng.randint(0, nparams) if self.chance(0.4) else 0
        params = []
        for i, (p, t) in enumerate(zip(pnames, ptypes)):
            dflt = self.expr(scope, t, 1) if i >= nparams - ndefaults else None
            params.append(("p", p, dflt))
        inner = {"vars": dict(scope["vars"]), "unassigned": set(scope["unassigned"]), "locked": set(), "in_loop": False,
                 "in_fn": True, "ret": ret, "depth": scope["depth"] + 1, "mutates": set(), "own": set(pnames)}
        inner["vars"].update(dict(zip(pnames, ptypes)))
        # closures may read enclosing variables; they must not mutate containers of types locked at call sites:
        # record the mutated types in the function type and consult them when calling inside loops
        recursive = self.chance(0.2) and nparams > 0 and ptypes[0] == INT
        body = []
        if recursive:
            # bounded recursion on the first parameter
            # the function's own name is NOT put in scope of the generated body: the only self-call is the explicit one below, whose
            # first argument decreases.  (A base case that called the function again - `if p <= 0: return f(big, s + s)` - was an
            # unbounded recursion doubling a string per level: 4 GiB after 30 levels, long before the call-stack limit.)
            base = ("if", ("bin", "<=", ("var", pnames[0]), ("int", 0)), [("return", self.expr(inner, ret, 1))], [])
            body.append(base)
            self.note("recursive_def")
        saved_budget = self.budget
        self.budget = min(self.budget, 6)
        for _ in range(self.rng.randint(1, 4)):
            if self.budget <= 0:
                break
            body += self.stmt(inner, depth - 1)
        self.budget = saved_budget - 2
        if recursive:
            rec_args = [("bin", "-", ("call", ("var", "min"), [("var", pnames[0]), ("int", 5)], [], None, None), ("int", 1))] + \
                       [self.expr(inner, t, 1) for t in ptypes[1:]]
            body.append(("assign", ("tvar", self.fresh()), ("call", ("var", name), rec_args, [], None, None)))
        body.append(("return", self.expr(inner, ret, 2)))
        fty = tfn(ptypes, ret, inner["mutates"], ndefaults)
        scope["vars"][name] = fty
        scope["mutates"] |= inner["mutates"]
        if "own" in scope:
            scope["own"].add(name)
        self.note("def")
        out = [("def", name, params, body)]
        if self.chance(0.8) and not (fty[3] & scope["locked"]):
            x = self.fresh()
            out.append(("assign", ("tvar", x), self.call_fn(scope, name, fty, 2)))
            scope["vars"][x] = ret
            if "own" in scope:
                scope["own"].add(x)
            out.append(("expr", ("call", ("var", "emit"), [("var", x)], [], None, None)))
        return out

    def program(self):
        self.cur = {"vars": {}, "unassigned": set(), "locked": set(), "in_loop": False, "in_fn": False, "ret": NONE,
                    "depth": 0, "mutates": set(), "own": set()}
        scope = self.cur
        out = []
        while self.budget > 0:
            before = set(scope["vars"])
            out += self.stmt(scope, self.max_depth)
            scope["own"].update(set(scope["vars"]) - before)
        if self.want_fail and not self.fail_planted:
            if self.effects and self.chance(0.3):
                out += self.effect_failure(scope)
            else:
                out.append(self.planted_failure(scope, 2))
        out.append(("expr", ("call", ("var", "emit"), [("int", 424242)], [], None, None)))
        # the effect helpers this program uses are defined first
        out = [("def", h, [("p", x, None) for x in self.FX_DEFS[h][0]], list(self.FX_DEFS[h][1])) for h in self.FX_ORDER if h in self.fx_used] + out
        return out


# ---- rendering ---------------------------------------------------------------------------------------
PREC = {"or": 1, "and": 2, "not": 3, "cmp": 4, "|": 5, "^": 6, "&": 7, "<<": 8, ">>": 8, "+": 9, "-": 9, "*": 10, "//": 10, "%": 10,
        "unary": 11}


def q(s):
    out = []
    for ch in s:
        o = ord(ch)
        if ch == "\\":
            out.append("\\\\")
        elif ch == '"':
            out.append('\\"')
        elif ch == "\n":
            out.append("\\n")
        elif ch == "\t":
            out.append("\\t")
        elif ch == "\r":
            out.append("\\r")
        elif o < 32 or o == 127:
            out.append("\\x%02x" % o)
        else:
            out.append(ch)
    return '"' + "".join(out) + '"'


def src_expr(e):
    """Fully parenthesised source (precedence is C06's concern; here every nested operator is bracketed)."""
    k = e[0]
    if k == "none":
        return "None"
    if k == "bool":
        return "True" if e[1] else "False"
    if k == "int":
        return str(e[1]) if e[1] >= 0 else "(%d)" % e[1]
    if k == "str":
        return q(e[1])
    if k == "var":
        return e[1]
    if k == "tuple":
        if len(e[1]) == 1:
            return "(%s,)" % src_expr(e[1][0])
        return "(%s)" % ", ".join(src_expr(x) for x in e[1])
    if k == "list":
        return "[%s]" % ", ".join(src_expr(x) for x in e[1])
    if k == "dict":
        return "{%s}" % ", ".join("%s: %s" % (src_expr(a), src_expr(b)) for a, b in e[1])
    if k == "un":
        return "(%s %s)" % (e[1], src_expr(e[2])) if e[1] == "not" else "(%s%s)" % (e[1], src_expr(e[2]))
    if k == "bin":
        return "(%s %s %s)" % (src_expr(e[2]), e[1], src_expr(e[3]))
    if k in ("and", "or"):
        return "(%s %s %s)" % (src_expr(e[1]), k, src_expr(e[2]))
    if k == "ifx":
        return "(%s if %s else %s)" % (src_expr(e[2]), src_expr(e[1]), src_expr(e[3]))
    if k == "index":
        return "%s[%s]" % (src_expr(e[1]), src_expr(e[2]))
    if k == "slice":
        parts = [src_expr(x) if x is not None else "" for x in (e[2], e[3])]
        s = ":".join(parts)
        if e[4] is not None:
            s += ":" + src_expr(e[4])
        return "%s[%s]" % (src_expr(e[1]), s)
    if k == "call":
        args = [src_expr(a) for a in e[2]] + ["%s=%s" % (n, src_expr(v)) for n, v in e[3]]
        if e[4] is not None:
            args.append("*" + src_expr(e[4]))
        if e[5] is not None:
            args.append("**" + src_expr(e[5]))
        return "%s(%s)" % (src_expr(e[1]), ", ".join(args))
    if k == "meth":
        if _PY[0] and e[2] == "elems" and not e[3]:
            return "list(%s)" % src_expr(e[1])
        kw = e[4] if len(e) > 4 else []
        return "%s.%s(%s)" % (src_expr(e[1]), e[2], ", ".join([src_expr(a) for a in e[3]] + ["%s=%s" % (n, src_expr(v)) for n, v in kw]))
    if k == "lambda":
        return "(lambda %s: %s)" % (", ".join(src_param(p) for p in e[1]), src_expr(e[2]))
    if k == "lcomp":
        return "[%s %s]" % (src_expr(e[1]), " ".join(src_clause(c) for c in e[2]))
    if k == "dcomp":
        return "{%s: %s %s}" % (src_expr(e[1]), src_expr(e[2]), " ".join(src_clause(c) for c in e[3]))
    raise ValueError(e)


def src_clause(c):
    if c[0] == "for":
        return "for %s in %s" % (src_target(c[1]), src_expr(c[2]))
    return "if %s" % src_expr(c[1])


def src_param(p):
    if p[0] == "p":
        return p[1] if p[2] is None else "%s=%s" % (p[1], src_expr(p[2]))
    return ("*" if p[0] == "args" else "**") + p[1]


def src_target(t):
    if t[0] == "tvar":
        return t[1]
    if t[0] == "ttuple":
        return "(%s)" % ", ".join(src_target(x) for x in t[1]) if len(t[1]) != 1 else "(%s,)" % src_target(t[1][0])
    return "%s[%s]" % (src_expr(t[1]), src_expr(t[2]))


def number(prog, start=1):
    """Attach line numbers: returns (numbered program, next line).  Numbered stmt = (line, stmt-with-numbered-children)."""
    out, ln = [], start
    for s in prog:
        k = s[0]
        if k == "if":
            th, ln2 = number(s[2], ln + 1)
            if s[3]:
                el, ln3 = number(s[3], ln2 + 1)   # the `else:` line
            else:
                el, ln3 = [], ln2
            out.append((ln, ("if", s[1], th, el)))
            ln = ln3
        elif k == "for":
            body, ln2 = number(s[3], ln + 1)
            out.append((ln, ("for", s[1], s[2], body)))
            ln = ln2
        elif k == "def":
            body, ln2 = number(s[3], ln + 1)
            out.append((ln, ("def", s[1], s[2], body)))
            ln = ln2
        else:
            out.append((ln, s))
            ln += 1
    return out, ln


def render_src(nprog, indent=0):
    lines = []
    pad = "    " * indent
    for ln, s in nprog:
        k = s[0]
        if k == "expr":
            lines.append(pad + src_expr(s[1]))
        elif k == "assign":
            lines.append(pad + "%s = %s" % (src_target(s[1]), src_expr(s[2])))
        elif k == "aug":
            lines.append(pad + "%s %s= %s" % (src_target(s[1]), s[2], src_expr(s[3])))
        elif k == "if":
            lines.append(pad + "if %s:" % src_expr(s[1]))
            lines += render_src(s[2], indent + 1)
            if s[3]:
                lines.append(pad + "else:")
                lines += render_src(s[3], indent + 1)
        elif k == "for":
            lines.append(pad + "for %s in %s:" % (src_target(s[1]), src_expr(s[2])))
            lines += render_src(s[3], indent + 1)
        elif k == "def":
            lines.append(pad + "def %s(%s):" % (s[1], ", ".join(src_param(p) for p in s[2])))
            lines += render_src(s[3], indent + 1)
        elif k in ("break", "continue", "pass"):
            lines.append(pad + k)
        elif k == "return":
            lines.append(pad + ("return" if s[1] is None else "return %s" % src_expr(s[1])))
        else:
            raise ValueError(s)
    return lines


def source_of(prog):
    nprog, _ = number(prog)
    return "\n".join(render_src(nprog)) + "\n", nprog


def python_source_of(prog):
    """The CPython rendering (same lines; differs only where Python spells a shared operation differently)."""
    _PY[0] = True
    try:
        return source_of(prog)[0]
    finally:
        _PY[0] = False


def cq(s):
    """A Gallina string term; control characters are spelled with ascii_of_nat (no raw control bytes in .v files)."""
    if all(32 <= ord(ch) < 127 for ch in s):
        return '"' + s.replace('"', '""') + '"'
    parts, cur = [], ""
    for ch in s:
        if 32 <= ord(ch) < 127:
            cur += ch
        else:
            if cur:
                parts.append('"' + cur.replace('"', '""') + '"')
                cur = ""
            parts.append('(String (Ascii.ascii_of_nat %d%%nat) "")' % ord(ch))
    if cur:
        parts.append('"' + cur.replace('"', '""') + '"')
    out = parts[-1]
    for p_ in reversed(parts[:-1]):
        out = "(String.append %s %s)" % (p_, out)
    return out


def z(n):
    return "(%d)" % n if n < 0 else str(n)


def coq_opt(e):
    return "None" if e is None else "(Some %s)" % coq_expr(e)


def coq_expr(e):
    k = e[0]
    if k == "none":
        return "ENone"
    if k == "bool":
        return "(EBool %s)" % ("true" if e[1] else "false")
    if k == "int":
        return "(EInt %s)" % z(e[1])
    if k == "str":
        return "(EStr %s)" % cq(e[1])
    if k == "var":
        return "(EVar %s)" % cq(e[1])
    if k == "tuple":
        return "(ETuple [%s])" % "; ".join(coq_expr(x) for x in e[1])
    if k == "list":
        return "(EList [%s])" % "; ".join(coq_expr(x) for x in e[1])
    if k == "dict":
        return "(EDict [%s])" % "; ".join("(%s, %s)" % (coq_expr(a), coq_expr(b)) for a, b in e[1])
    if k == "un":
        return "(EUn %s %s)" % (COQ_UN[e[1]], coq_expr(e[2]))
    if k == "bin":
        return "(EBin %s %s %s)" % (COQ_BIN[e[1]], coq_expr(e[2]), coq_expr(e[3]))
    if k == "and":
        return "(EAnd %s %s)" % (coq_expr(e[1]), coq_expr(e[2]))
    if k == "or":
        return "(EOr %s %s)" % (coq_expr(e[1]), coq_expr(e[2]))
    if k == "ifx":
        return "(EIf %s %s %s)" % (coq_expr(e[1]), coq_expr(e[2]), coq_expr(e[3]))
    if k == "index":
        return "(EIndex %s %s)" % (coq_expr(e[1]), coq_expr(e[2]))
    if k == "slice":
        return "(ESlice %s %s %s %s)" % (coq_expr(e[1]), coq_opt(e[2]), coq_opt(e[3]), coq_opt(e[4]))
    if k == "call":
        return "(ECall %s [%s] [%s] %s %s)" % (coq_expr(e[1]), "; ".join(coq_expr(a) for a in e[2]),
                                              "; ".join("(%s, %s)" % (cq(n), coq_expr(v)) for n, v in e[3]), coq_opt(e[4]), coq_opt(e[5]))
    if k == "meth":
        kw = e[4] if len(e) > 4 else []
        return "(EMeth %s %s [%s] [%s])" % (coq_expr(e[1]), cq(e[2]), "; ".join(coq_expr(a) for a in e[3]),
                                            "; ".join("(%s, %s)" % (cq(n), coq_expr(v)) for n, v in kw))
    if k == "lambda":
        return "(ELambda [%s] %s)" % ("; ".join(coq_param(p) for p in e[1]), coq_expr(e[2]))
    if k == "lcomp":
        return "(EListComp %s [%s])" % (coq_expr(e[1]), "; ".join(coq_clause(c) for c in e[2]))
    if k == "dcomp":
        return "(EDictComp %s %s [%s])" % (coq_expr(e[1]), coq_expr(e[2]), "; ".join(coq_clause(c) for c in e[3]))
    raise ValueError(e)


def coq_clause(c):
    if c[0] == "for":
        return "(CFor %s %s)" % (coq_target(c[1]), coq_expr(c[2]))
    return "(CIf %s)" % coq_expr(c[1])


def coq_param(p):
    if p[0] == "p":
        return "(PNormal %s %s)" % (cq(p[1]), coq_opt(p[2]))
    return "(%s %s)" % ("PArgs" if p[0] == "args" else "PKwargs", cq(p[1]))


def coq_target(t):
    if t[0] == "tvar":
        return "(TVar %s)" % cq(t[1])
    if t[0] == "ttuple":
        return "(TTuple [%s])" % "; ".join(coq_target(x) for x in t[1])
    return "(TIndex %s %s)" % (coq_expr(t[1]), coq_expr(t[2]))


def coq_block(nprog):
    return "[" + ";\n ".join(coq_stmt(ln, s) for ln, s in nprog) + "]"


def coq_stmt(ln, s):
    k = s[0]
    if k == "expr":
        return "SExpr %d %s" % (ln, coq_expr(s[1]))
    if k == "assign":
        return "SAssign %d %s %s" % (ln, coq_target(s[1]), coq_expr(s[2]))
    if k == "aug":
        return "SAug %d %s %s %s" % (ln, coq_target(s[1]), COQ_BIN[s[2]], coq_expr(s[3]))
    if k == "if":
        return "SIf %d %s %s %s" % (ln, coq_expr(s[1]), coq_block(s[2]), coq_block(s[3]))
    if k == "for":
        return "SFor %d %s %s %s" % (ln, coq_target(s[1]), coq_expr(s[2]), coq_block(s[3]))
    if k == "break":
        return "SBreak %d" % ln
    if k == "continue":
        return "SContinue %d" % ln
    if k == "pass":
        return "SPass %d" % ln
    if k == "return":
        return "SReturn %d %s" % (ln, coq_opt(s[1]))
    if k == "def":
        return "SDef %d %s [%s] %s" % (ln, cq(s[1]), "; ".join(coq_param(p) for p in s[2]), coq_block(s[3]))
    raise ValueError(s)


def generate(seed, **kw):
    g = Gen(random.Random(seed), **kw)
    prog = g.program()
    src, nprog = source_of(prog)
    return {"seed": seed, "prog": prog, "src": src, "coq": coq_block(nprog), "stats": g.stats, "want_fail": g.want_fail,
            "uses_strings": g.uses_strings}


def wrap_in_function(prog):
    """The same program run inside a function (C01: 'whether code runs at module level or inside functions')."""
    return [("def", "main__", [], list(prog) + [("return", None)]), ("expr", ("call", ("var", "main__"), [], [], None, None))]


if __name__ == "__main__":
    import sys
    r = generate(int(sys.argv[1]) if len(sys.argv) > 1 else 1)
    print(r["src"])
    print(r["coq"])
    print(r["stats"])
