"""C17: type-directed modules for the static type checker, built on gen.progs.

`TGen` is progs.Gen without container mutation; every def it makes gets an annotation decision
(none / parameters / parameters + return / return only / some parameters) using the static types the
generator tracks.  `instrument` inserts `probe("x", x)` after every binding of a local name so that the
harness can test the value against the checker's type of that binding at run time.
`render` prints the source with annotations; `coq_module` prints the same program as a Gallina term
plus the signature table for coq/Typing/Model.v.

Type trees (shared with the comparison code): "int" "bool" "str" "none" ("list",T) ("tuple",(..)) ("dict",K,V)
and for checker output additionally "any" "never" "float" ("tupof",T) ("union",(..)) ("opaque",text).
"""
import random

from gen import progs
from gen.progs import INT, BOOL, STR, NONE


class TGen(progs.Gen):
    def __init__(self, rng, **kw):
        kw.setdefault("p_fail", 0.0)
        super().__init__(rng, **kw)
        self.ann = {}      # def name -> ([ptype | None], ret | None)
        self.sigs = {}     # def name -> fn type

    def mutation(self, scope, depth):       # the property's quantifier: no container mutation after binding
        return None

    def elem_access(self, scope, t, depth):
        """A constant index into a *heterogeneous* tuple display is typed by the checker as the union of all elements
        (known finding `false-error:incompatible-type:tuple-literal-index`, kept as a corpus case); random modules use the
        list form only, so that one root cause is not re-reported under the message of whatever operator consumes the
        mis-typed value."""
        c = self.nonempty_list(scope, t, depth)
        return ("index", c, self.pick([("int", 0), ("int", -1)]))

    def def_stmt(self, scope, depth):
        out = super().def_stmt(scope, depth)
        d = out[0]
        name = d[1]
        fty = scope["vars"][name]
        self.sigs[name] = fty
        mode = self.pick(["none", "none", "params", "all", "all", "all", "ret", "some"])
        pt = list(fty[1])
        if mode == "none":
            a = ([None] * len(pt), None)
        elif mode == "params":
            a = (pt, None)
        elif mode == "all":
            a = (pt, fty[2])
        elif mode == "ret":
            a = ([None] * len(pt), fty[2])
        else:
            a = ([t if self.chance(0.5) else None for t in pt], fty[2] if self.chance(0.5) else None)
        self.ann[name] = a
        return out


# ---- source text -------------------------------------------------------------------------------------
def ty_src(t):
    """Annotation syntax of a generator type."""
    if t == INT:
        return "int"
    if t == BOOL:
        return "bool"
    if t == STR:
        return "str"
    if t == NONE:
        return "None"
    if t[0] == "list":
        return "list[%s]" % ty_src(t[1])
    if t[0] == "dict":
        return "dict[%s, %s]" % (ty_src(t[1]), ty_src(t[2]))
    if t[0] == "tuple":
        if len(t[1]) == 1:
            return "(%s,)" % ty_src(t[1][0])
        return "(%s)" % ", ".join(ty_src(x) for x in t[1])
    raise ValueError(t)


def render(prog, ann, indent=0):
    """Like progs.render_src (on an un-numbered program) with annotations on defs."""
    lines = []
    pad = "    " * indent
    for s in prog:
        k = s[0]
        if k == "expr":
            lines.append(pad + progs.src_expr(s[1]))
        elif k == "assign":
            lines.append(pad + "%s = %s" % (progs.src_target(s[1]), progs.src_expr(s[2])))
        elif k == "aug":
            lines.append(pad + "%s %s= %s" % (progs.src_target(s[1]), s[2], progs.src_expr(s[3])))
        elif k == "if":
            lines.append(pad + "if %s:" % progs.src_expr(s[1]))
            lines += render(s[2], ann, indent + 1)
            if s[3]:
                lines.append(pad + "else:")
                lines += render(s[3], ann, indent + 1)
        elif k == "for":
            lines.append(pad + "for %s in %s:" % (progs.src_target(s[1]), progs.src_expr(s[2])))
            lines += render(s[3], ann, indent + 1)
        elif k == "def":
            pa, ra = ann.get(s[1], ([None] * len(s[2]), None))
            ps = []
            for p, t in zip(s[2], list(pa) + [None] * len(s[2])):
                txt = p[1]
                if t is not None:
                    txt += ": " + ty_src(t)
                if p[2] is not None:
                    txt += (" = " if t is not None else "=") + progs.src_expr(p[2])
                ps.append(txt)
            lines.append(pad + "def %s(%s)%s:" % (s[1], ", ".join(ps), "" if ra is None else " -> " + ty_src(ra)))
            lines += render(s[3], ann, indent + 1)
        elif k in ("break", "continue", "pass"):
            lines.append(pad + k)
        elif k == "return":
            lines.append(pad + ("return" if s[1] is None else "return %s" % progs.src_expr(s[1])))
        else:
            raise ValueError(s)
    return lines


def probe(x):
    return ("expr", ("call", ("var", "probe"), [("str", x), ("var", x)], [], None, None))


def target_vars(t):
    if t[0] == "tvar":
        return [t[1]]
    if t[0] == "ttuple":
        return [v for x in t[1] for v in target_vars(x)]
    return []


def instrument(prog):
    out = []
    for s in prog:
        k = s[0]
        if k in ("assign", "aug"):
            out.append(s)
            out += [probe(x) for x in target_vars(s[1])]
        elif k == "if":
            out.append(("if", s[1], instrument(s[2]), instrument(s[3]) if s[3] else []))
        elif k == "for":
            out.append(("for", s[1], s[2], [probe(x) for x in target_vars(s[1])] + instrument(s[3])))
        elif k == "def":
            out.append(("def", s[1], s[2], [probe(p[1]) for p in s[2] if p[0] == "p"] + instrument(s[3])))
        else:
            out.append(s)
    return out


# ---- Gallina ---------------------------------------------------------------------------------------------
def ty_coq(t):
    if t is None:
        return "TAny"
    if t == INT:
        return "(TBase BInt)"
    if t == BOOL:
        return "(TBase BBool)"
    if t == STR:
        return "(TBase BStr)"
    if t == NONE:
        return "(TBase BNone)"
    if t[0] == "list":
        return "(TList %s)" % ty_coq(t[1])
    if t[0] == "dict":
        return "(TDict %s %s)" % (ty_coq(t[1]), ty_coq(t[2]))
    if t[0] == "tuple":
        return "(TyTuple [%s])" % "; ".join(ty_coq(x) for x in t[1])
    raise ValueError(t)


def sigs_coq(prog, ann):
    """[(name, mkSig [param types] nrequired ret)] for every def of the program (nested ones too)."""
    rows = []

    def walk(ss):
        for s in ss:
            if s[0] == "def":
                pa, ra = ann.get(s[1], ([None] * len(s[2]), None))
                pa = list(pa) + [None] * (len(s[2]) - len(pa))
                nreq = len([p for p in s[2] if p[2] is None])
                rows.append("(%s, mkSig [%s] %d %s)" % (progs.cq(s[1]), "; ".join(ty_coq(t) for t in pa[:len(s[2])]), nreq, ty_coq(ra)))
                walk(s[3])
            elif s[0] == "if":
                walk(s[2])
                walk(s[3])
            elif s[0] == "for":
                walk(s[3])
    walk(prog)
    return "[" + "; ".join(rows) + "]"


# ---- the checker's rendered types -------------------------------------------------------------------------
class _P:
    def __init__(self, s):
        self.s, self.i = s, 0

    def peek(self, t):
        return self.s.startswith(t, self.i)

    def eat(self, t):
        if self.peek(t):
            self.i += len(t)
            return True
        return False

    def union(self):
        alts = [self.item()]
        while self.eat(" | "):
            alts.append(self.item())
        return alts[0] if len(alts) == 1 else ("union", tuple(alts))

    def item(self):
        if self.eat("("):
            xs = []
            if self.eat(")"):
                return ("tuple", ())
            while True:
                xs.append(self.union())
                if self.eat(",)"):
                    break
                if self.eat(")"):
                    break
                if not self.eat(", "):
                    raise ValueError(self.s)
            return ("tuple", tuple(xs))
        j = self.i
        while j < len(self.s) and (self.s[j].isalnum() or self.s[j] in "._"):
            j += 1
        name = self.s[self.i:j]
        if not name:
            raise ValueError(self.s)
        self.i = j
        args = None
        if self.eat("["):
            args = []
            while True:
                if self.eat("..."):
                    args.append("...")
                else:
                    args.append(self.union())
                if self.eat("]"):
                    break
                if not self.eat(", "):
                    raise ValueError(self.s)
        simple = {"typing.Any": "any", "typing.Never": "never", "None": NONE, "int": INT, "bool": BOOL, "str": STR, "float": "float"}
        if args is None:
            if name in simple:
                return simple[name]
            if name == "list":
                return ("list", "any")
            if name == "tuple":
                return ("tupof", "any")
            if name == "dict":
                return ("dict", "any", "any")
            return ("opaque", name)
        if name == "list" and len(args) == 1:
            return ("list", args[0])
        if name == "dict" and len(args) == 2:
            return ("dict", args[0], args[1])
        if name == "tuple" and len(args) == 2 and args[1] == "...":
            return ("tupof", args[0])
        return ("opaque", name)


def parse_ty(text):
    """Checker Display text -> type tree (("opaque", text) when outside the modelled universe)."""
    try:
        p = _P(text)
        t = p.union()
        if p.i != len(text):
            return ("opaque", text)
        return canon_ty(t)
    except (ValueError, IndexError):
        return ("opaque", text)


def canon_ty(t):
    """Sort the alternatives of unions (their order is not part of the comparison)."""
    if isinstance(t, str):
        return t
    k = t[0]
    if k in ("list", "tupof"):
        return (k, canon_ty(t[1]))
    if k == "dict":
        return (k, canon_ty(t[1]), canon_ty(t[2]))
    if k == "tuple":
        return (k, tuple(canon_ty(x) for x in t[1]))
    if k == "union":
        return (k, tuple(sorted((canon_ty(x) for x in t[1]), key=repr)))
    return t


def has_opaque(t):
    if isinstance(t, str):
        return False
    if t[0] == "opaque":
        return True
    if t[0] in ("tuple", "union"):
        return any(has_opaque(x) for x in t[1])
    return any(has_opaque(x) for x in t[1:])


def from_coq_ty(o):
    """Parsed Coq `ty` term (sv.parse_coq_term) -> type tree."""
    if o == "TAny":
        return "any"
    if o == "TNever":
        return "never"
    if isinstance(o, str):
        return ("opaque", o)
    h = o[0].split(".")[-1]
    if h == "TBase":
        return {"BNone": NONE, "BBool": BOOL, "BInt": INT, "BStr": STR, "BFloat": "float", "BRange": ("opaque", "range")}[o[1]]
    if h == "TList":
        return ("list", from_coq_ty(o[1]))
    if h == "TTupleOf":
        return ("tupof", from_coq_ty(o[1]))
    if h == "TDict":
        return ("dict", from_coq_ty(o[1]), from_coq_ty(o[2]))
    if h == "TTuple":
        return ("tuple", tuple(from_coq_ty(x) for x in o[1]))
    if h == "TUnion":
        return canon_ty(("union", tuple(from_coq_ty(x) for x in o[1])))
    return ("opaque", str(o))


def show_ty(t):
    if isinstance(t, str):
        return {"any": "typing.Any", "never": "typing.Never", NONE: "None"}.get(t, t)
    k = t[0]
    if k == "list":
        return "list[%s]" % show_ty(t[1])
    if k == "tupof":
        return "tuple[%s, ...]" % show_ty(t[1])
    if k == "dict":
        return "dict[%s, %s]" % (show_ty(t[1]), show_ty(t[2]))
    if k == "tuple":
        return "(%s%s)" % (", ".join(show_ty(x) for x in t[1]), "," if len(t[1]) == 1 else "")
    if k == "union":
        return " | ".join(show_ty(x) for x in t[1])
    return "<%s>" % (t[1],)


# ---- whole cases --------------------------------------------------------------------------------------------
def generate(seed, **kw):
    """-> dict with the module-level and the wrapped-in-a-function variants of one generated program."""
    g = TGen(random.Random(seed), **kw)
    prog = g.program()
    iprog = instrument(prog)
    wprog = progs.wrap_in_function(iprog)
    nw, _ = progs.number(wprog)
    return {"seed": seed, "prog": prog, "ann": g.ann, "sigs": g.sigs, "stats": g.stats, "want_fail": g.want_fail,
            "src_module": "\n".join(render(iprog, g.ann)) + "\n",
            "src_wrapped": "\n".join(render(wprog, g.ann)) + "\n",
            "coq_wrapped": progs.coq_block(nw), "coq_sigs": sigs_coq(wprog, g.ann), "wprog": wprog}


def find_binding_exprs(prog, name):
    """Right-hand sides of the statements binding `name` (for classifying an unsound binding)."""
    out = []

    def walk(ss):
        for s in ss:
            k = s[0]
            if k in ("assign", "aug") and name in target_vars(s[1]):
                out.append(s)
            elif k == "if":
                walk(s[2])
                walk(s[3])
            elif k == "for":
                if name in target_vars(s[1]):
                    out.append(s)
                walk(s[3])
            elif k == "def":
                walk(s[3])
    walk(prog)
    return out


if __name__ == "__main__":
    import sys
    r = generate(int(sys.argv[1]) if len(sys.argv) > 1 else 1, max_stmts=16)
    print(r["src_wrapped"])
    print(r["coq_sigs"])
