"""C17: type-directed modules for the static type checker, built on gen.progs.

`TGen` is progs.Gen without container mutation; every def it makes gets an annotation decision
(none / parameters / parameters + return / return only / some parameters) using the static types the
generator tracks.  `instrument` inserts `probe("x", x)` after every binding of a local name so that the
harness can test the value against the checker's type of that binding at run time.
`render` prints the source with annotations; `coq_module` prints the same program as a Gallina term
plus the signature table for coq/Typing/Model.v.

Type trees (shared with the comparison code): "int" "bool" "str" "none" ("list",T) ("tuple",(..)) ("dict",K,V)
and for checker output additionally "any" "never" "float" ("tupof",T) ("union",(..)) ("opaque",text).
"""
import random

from gen import progs
from gen.progs import INT, BOOL, STR, NONE


class TGen(progs.Gen):
    def __init__(self, rng, **kw):
        kw.setdefault("p_fail", 0.0)
        super().__init__(rng, **kw)
        self.ann = {}      # def name -> ([ptype | None], ret | None)
        self.sigs = {}     # def name -> fn type

    def mutation(self, scope, depth):       # the property's quantifier: no container mutation after binding
        return None

    def elem_access(self, scope, t, depth):
        """A constant index into a *heterogeneous* tuple display is typed by the checker as the union of all elements
        (known finding `false-error:incompatible-type:tuple-literal-index`, kept as a corpus case); random modules use the
        list form only, so that one root cause is not re-reported under the message of whatever operator consumes the
        mis-typed value."""
        c = self.nonempty_list(scope, t, depth)
        return ("index", c, self.pick([("int", 0), ("int", -1)]))

    def def_stmt(self, scope, depth):
        out = super().def_stmt(scope, depth)
        d = out[0]
        name = d[1]
        fty = scope["vars"][name]
        self.sigs[name] = fty
        mode = self.pick(["none", "none", "params", "all", "all", "all", "ret", "some"])
        pt = list(fty[1])
        if mode == "none":
            a = ([None] * len(pt), None)
        elif mode == "params":
            a = (pt, None)
        elif mode == "all":
            a = (pt, fty[2])
        elif mode == "ret":
            a = ([None] * len(pt), fty[2])
        else:
            a = ([t if self.chance(0.5) else None for t in pt], fty[2] if self.chance(0.5) else None)
        self.ann[name] = a
        return out


# ---- source text -------------------------------------------------------------------------------------
def ty_src(t):
    """Annotation syntax of a generator type."""
    if t == INT:
        return "int"
    if t == BOOL:
        return "bool"
    if t == STR:
        return "str"
    if t == NONE:
        return "None"
    if t[0] == "list":
        return "list[%s]" % ty_src(t[1])
    if t[0] == "dict":
        return "dict[%s, %s]" % (ty_src(t[1]), ty_src(t[2]))
    if t[0] == "tuple":
        if len(t[1]) == 1:
            return "(%s,)" % ty_src(t[1][0])
        return "(%s)" % ", ".join(ty_src(x) for x in t[1])
    raise ValueError(t)


def render(prog, ann, indent=0):
    """Like progs.render_src (on an un-numbered program) with annotations on defs."""
    lines = []
    pad = "    " * indent
    for s in prog:
        k = s[0]
        if k == "expr":
            lines.append(pad + progs.src_expr(s[1]))
        elif k == "assign":
            lines.append(pad + "%s = %s" % (progs.src_target(s[1]), progs.src_expr(s[2])))
        elif k == "aug":
            lines.append(pad + "%s %s= %s" % (progs.src_target(s[1]), s[2], progs.src_expr(s[3])))
        elif k == "if":
            lines.append(pad + "if %s:" % progs.src_expr(s[1]))
            lines += render(s[2], ann, indent + 1)
            if s[3]:
                lines.append(pad + "else:")
                lines += render(s[3], ann, indent + 1)
        elif k == "for":
            lines.append(pad + "for %s in %s:" % (progs.src_target(s[1]), progs.src_expr(s[2])))
            lines += render(s[3], ann, indent + 1)
        elif k == "def":
            pa, ra = ann.get(s[1], ([None] * len(s[2]), None))
            ps = []
            for p, t in zip(s[2], list(pa) + [None] * len(s[2])):
                txt = p[1]
                if t is not None:
                    txt += ": " + ty_src(t)
                if p[2] is not None:
                    txt += (" = " if t is not None else "=") + progs.src_expr(p[2])
                ps.append(txt)
            lines.append(pad + "def %s(%s)%s:" % (s[1], ", ".join(ps), "" if ra is None else " -> " + ty_src(ra)))
            lines += render(s[3], ann, indent + 1)
        elif k in ("break", "continue", "pass"):
            lines.append(pad + k)
        elif k == "return":
            lines.append(pad + ("return" if s[1] is None else "return %s" % progs.src_expr(s[1])))
        else:
            raise ValueError(s)
    return lines


def probe(x):
    return ("expr", ("call", ("var", "probe"), [("str", x), ("var", x)], [], None, None))


def target_vars(t):
    if t[0] == "tvar":
        return [t[1]]
    if t[0] == "ttuple":
        return [v for x in t[1] for v in target_vars(x)]
    return []


def instrument(prog):
    out = []
    for s in prog:
        k = s[0]
        if k in ("assign", "aug"):
            out.append(s)
            out += [probe(x) for x in target_vars(s[1])]
        elif k == "if":
            out.append(("if", s[1], instrument(s[2]), instrument(s[3]) if s[3] else []))
        elif k == "for":
            out.append(("for", s[1], s[2], [probe(x) for x in target_vars(s[1])] + instrument(s[3])))
        elif k == "def":
            out.append(("def", s[1], s[2], [probe(p[1]) for p in s[2] if p[0] == "p"] + instrument(s[3])))
        else:
            out.append(s)
    return out


# ---- Gallina ---------------------------------------------------------------------------------------------
def ty_coq(t):
    if t is None:
        return "TAny"
    if t == INT:
        return "(TBase BInt)"
    if t == BOOL:
        return "(TBase BBool)"
    if t == STR:
        return "(TBase BStr)"
    if t == NONE:
        return "(TBase BNone)"
    if t[0] == "list":
        return "(TList %s)" % ty_coq(t[1])
    if t[0] == "dict":
        return "(TDict %s %s)" % (ty_coq(t[1]), ty_coq(t[2]))
    if t[0] == "tuple":
        return "(TyTuple [%s])" % "; ".join(ty_coq(x) for x in t[1])
    raise ValueError(t)


def sigs_coq(prog, ann):
    """[(name, mkSig [param types] nrequired ret)] for every def of the program (nested ones too)."""
    rows = []

    def walk(ss):
        for s in ss:
            if s[0] == "def":
                pa, ra = ann.get(s[1], ([None] * len(s[2]), None))
                pa = list(pa) + [None] * (len(s[2]) - len(pa))
                nreq = len([p for p in s[2] if p[2] is None])
                rows.append("(%s, mkSig [%s] %d %s)" % (progs.cq(s[1]), "; ".join(ty_coq(t) for t in pa[:len(s[2])]), nreq, ty_coq(ra)))
                walk(s[3])
            elif s[0] == "if":
                walk(s[2])
                walk(s[3])
            elif s[0] == "for":
                walk(s[3])
    walk(prog)
    return "[" + "; ".join(rows) + "]"


# ---- the checker's rendered types -------------------------------------------------------------------------
class _P:
    def __init__(self, s):
        self.s, self.i = s, 0

    def peek(self, t):
        return self.s.startswith(t, self.i)

    def eat(self, t):
        if self.peek(t):
            self.i += len(t)
            return True
        return False

    def union(self):
        alts = [self.item()]
        while self.eat(" | "):
            alts.append(self.item())
        return alts[0] if len(alts) == 1 else ("union", tuple(alts))

    def item(self):
        if self.eat("("):
            xs = []
            if self.eat(")"):
                return ("tuple", ())
            while True:
                xs.append(self.union())
                if self.eat(",)"):
                    break
                if self.eat(")"):
                    break
                if not self.eat(", "):
                    raise ValueError(self.s)
            return ("tuple", tuple(xs))
        j = self.i
        while j < len(self.s) and (self.s[j].isalnum() or self.s[j] in "._"):
            j += 1
        name = self.s[self.i:j]
        if not name:
            raise ValueError(self.s)
        self.i = j
        args = None
        if self.eat("["):
            args = []
            while True:
                if self.eat("..."):
                    args.append("...")
                else:
                    args.append(self.union())
                if self.eat("]"):
                    break
                if not self.eat(", "):
                    raise ValueError(self.s)
        simple = {"typing.Any": "any", "typing.Never": "never", "None": NONE, "int": INT, "bool": BOOL, "str": STR, "float": "float"}
        if args is None:
            if name in simple:
                return simple[name]
            if name == "list":
                return ("list", "any")
            if name == "tuple":
                return ("tupof", "any")
            if name == "dict":
                return ("dict", "any", "any")
            return ("opaque", name)
        if name == "list" and len(args) == 1:
            return ("list", args[0])
        if name == "dict" and len(args) == 2:
            return ("dict", args[0], args[1])
        if name == "tuple" and len(args) == 2 and args[1] == "...":
            return ("tupof", args[0])
        return ("opaque", name)


def parse_ty(text):
    """Checker Display text -> type tree (("opaque", text) when outside the modelled universe)."""
    try:
        p = _P(text)
        t = p.union()
        if p.i != len(text):
            return ("opaque", text)
        return canon_ty(t)
    except (ValueError, IndexError):
        return ("opaque", text)


def canon_ty(t):
    """Sort the alternatives of unions (their order is not part of the comparison)."""
    if isinstance(t, str):
        return t
    k = t[0]
    if k in ("list", "tupof"):
        return (k, canon_ty(t[1]))
    if k == "dict":
        return (k, canon_ty(t[1]), canon_ty(t[2]))
    if k == "tuple":
        return (k, tuple(canon_ty(x) for x in t[1]))
    if k == "union":
        return (k, tuple(sorted((canon_ty(x) for x in t[1]), key=repr)))
    return t


def has_opaque(t):
    if isinstance(t, str):
        return False
    if t[0] == "opaque":
        return True
    if t[0] in ("tuple", "union"):
        return any(has_opaque(x) for x in t[1])
    return any(has_opaque(x) for x in t[1:])


def from_coq_ty(o):
    """Parsed Coq `ty` term (sv.parse_coq_term) -> type tree."""
    if o == "TAny":
        return "any"
    if o == "TNever":
        return "never"
    if isinstance(o, str):
        return ("opaque", o)
    h = o[0].split(".")[-1]
    if h == "TBase":
        return {"BNone": NONE, "BBool": BOOL, "BInt": INT, "BStr": STR, "BFloat": "float", "BRange": ("opaque", "range")}[o[1]]
    if h == "TList":
        return ("list", from_coq_ty(o[1]))
    if h == "TTupleOf":
        return ("tupof", from_coq_ty(o[1]))
    if h == "TDict":
        return ("dict", from_coq_ty(o[1]), from_coq_ty(o[2]))
    if h == "TTuple":
        return ("tuple", tuple(from_coq_ty(x) for x in o[1]))
    if h == "TUnion":
        return canon_ty(("union", tuple(from_coq_ty(x) for x in o[1])))
    return ("opaque", str(o))


def show_ty(t):
    if isinstance(t, str):
        return {"any": "typing.Any", "never": "typing.Never", NONE: "None"}.get(t, t)
    k = t[0]
    if k == "list":
        return "list[%s]" % show_ty(t[1])
    if k == "tupof":
        return "tuple[%s, ...]" % show_ty(t[1])
    if k == "dict":
        return "dict[%s, %s]" % (show_ty(t[1]), show_ty(t[2]))
    if k == "tuple":
        return "(%s%s)" % (", ".join(show_ty(x) for x in t[1]), "," if len(t[1]) == 1 else "")
    if k == "union":
        return " | ".join(show_ty(x) for x in t[1])
    return "<%s>" % (t[1],)


# ---- whole cases --------------------------------------------------------------------------------------------
def generate(seed, **kw):
    """-> dict with the module-level and the wrapped-in-a-function variants of one generated program."""
    g = TGen(random.Random(seed), **kw)
    prog = g.program()
    iprog = instrument(prog)
    wprog = progs.wrap_in_function(iprog)
    nw, _ = progs.number(wprog)
    return {"seed": seed, "prog": prog, "ann": g.ann, "sigs": g.sigs, "stats": g.stats, "want_fail": g.want_fail,
            "src_module": "\n".join(render(iprog, g.ann)) + "\n",
            "src_wrapped": "\n".join(render(wprog, g.ann)) + "\n",
            "coq_wrapped": progs.coq_block(nw), "coq_sigs": sigs_coq(wprog, g.ann), "wprog": wprog}


def find_binding_exprs(prog, name):
    """Right-hand sides of the statements binding `name` (for classifying an unsound binding)."""
    out = []

    def walk(ss):
        for s in ss:
            k = s[0]
            if k in ("assign", "aug") and name in target_vars(s[1]):
                out.append(s)
            elif k == "if":
                walk(s[2])
                walk(s[3])
            elif k == "for":
                if name in target_vars(s[1]):
                    out.append(s)
                walk(s[3])
            elif k == "def":
                walk(s[3])
    walk(prog)
    return out


if __name__ == "__main__":
    import sys
    r = generate(int(sys.argv[1]) if len(sys.argv) > 1 else 1, max_stmts=16)
    print(r["src_wrapped"])
    print(r["coq_sigs"])


# ---- module-level family ------------------------------------------------------------------------------
# The module Interface (types of exported module variables, also what every def sees for a global) is computed by a
# partial evaluator over the TOP-LEVEL statements (typing/fill_types_for_lint.rs GlobalTypesBuilder), not by the
# solver.  This family exercises exactly that evaluator: exported variables bound once, re-bound straight-line,
# re-bound inside top-level if / if-else / for bodies (same kind and different kind, branch taken or not), bound only
# inside a branch, tuple-unpacking targets, augmented assignment, loop variables, (re-)defined defs, aliases; values
# of every kind the evaluator distinguishes (str / tuple / bool / None / def / builtin: definite types) and of the
# kinds it gives up on (int list dict struct lambda index: Any).  The generator tracks the kind of value every
# variable holds when the module has run (conditions are constant but opaque to the evaluator: they are calls), and
# emits defs that USE the globals according to that final kind - the module is well typed and runs to completion.

ML_KINDS = ("str", "tuple", "bool", "none", "int", "list", "dict", "struct", "fn1", "fn0")


def _ml_value(rng, kind, k, defs):
    """(source text, kind) of a value expression of the given run-time kind."""
    if kind == "str":
        return rng.choice(['"s%d"' % k, '"low"', '"v%d" + "w"' % k])
    if kind == "tuple":
        return rng.choice(['("a", "b")', '("a", None, True)', '(("x",), "y")', '("t%d",)' % k, '()'])
    if kind == "bool":
        return rng.choice(["True", "False"])
    if kind == "none":
        return "None"
    if kind == "int":
        return rng.choice(["10", "%d" % (k + 3), "1 << 70", "len(\"abc\")"])
    if kind == "list":
        return rng.choice(['[1, "a"]', "[%d]" % k, "[[1], [2]]", "list((1, 2))"])
    if kind == "dict":
        return rng.choice(['{"k": 1}', "{1: \"x\"}", "dict(a = 1)"])
    if kind == "struct":
        return "struct(a = %d)" % k
    if kind == "fn1":       # callable with one positional argument
        opts = ["lambda q: q", "len", "str", "repr"] + [d for d, n in defs if n == 1]
        return rng.choice(opts)
    if kind == "fn0":
        opts = ['"x".upper', "lambda: 1"] + [d for d, n in defs if n == 0]
        return rng.choice(opts)
    raise ValueError(kind)


def _ml_use(name, kind, k):
    """A def that uses the global `name` the way a value of `kind` can be used (sometimes with a return annotation)."""
    forms = {
        "str": [('%s + "z"' % name, "str"), ("%s.upper()" % name, "str"), ("len(%s)" % name, "int")],
        "tuple": [('%s + ("t",)' % name, "tuple"), ("len(%s)" % name, "int"), ("[x for x in %s]" % name, None)],
        "bool": [("not %s" % name, "bool"), ("1 if %s else 2" % name, "int")],
        "none": [("%s" % name, "None"), ("%s == None" % name, "bool")],
        "int": [("%s - 1" % name, "int"), ("%s * 2" % name, "int"), ("%s // 3" % name, "int")],
        "list": [("%s + [1]" % name, None), ("len(%s)" % name, "int"), ("%s[0]" % name, None)],
        "dict": [("len(%s)" % name, "int"), ("list(%s.keys())" % name, None)],
        "struct": [("%s.a" % name, None), ("%s.a + 1" % name, None)],
        "fn1": [('%s("3")' % name, None)],
        "fn0": [("%s()" % name, None)],
    }[kind]
    body, ret = forms[k % len(forms)]
    ann = (" -> %s" % ret) if ret and k % 3 != 0 else ""
    return "def use_%s()%s:\n    return %s\n" % (name, ann, body)


ML_SHAPES = ["once", "once", "straight", "straight", "if_rebind", "if_rebind", "if_rebind", "ifelse_rebind", "for_rebind", "for_rebind",
             "nested_rebind", "branch_only", "branch_only", "def_then_branch", "value_then_branch_def", "def_redef_branch",
             "unpack", "aug", "forvar", "alias", "straight_def"]
DEFINITE = ("str", "tuple", "bool", "none", "fn1", "fn0")     # kinds for which the evaluator commits to a type


def module_level(rng, nvars=None):
    """One module of the family.  Returns {"src", "vars": {name: final kind}, "shapes": {shape: count}, "rebind_diff": n}."""
    nvars = nvars or rng.randint(2, 6)
    lines, uses = [], []
    final, shapes = {}, {}
    defs = []            # (def name, arity) usable as function values
    rebind_diff = 0
    TRUE = ['len("abc") > 2', "bool([1])", 'str(1) == "1"']
    FALSE = ['len("a") > 2', "bool([])", 'str(1) == "2"']
    for h in range(rng.randint(0, 2)):
        n = rng.choice([0, 1])
        nm = "h%d" % h
        lines.append("def %s(%s):\n    return %s" % (nm, "q" if n else "", '[q, "h"]' if n else '"h%d"' % h))
        defs.append((nm, n))
        final[nm] = "fn1" if n else "fn0"
    for i in range(nvars):
        v = "g%d" % i
        shape = rng.choice(ML_SHAPES)
        shapes[shape] = shapes.get(shape, 0) + 1
        k1 = rng.choice(DEFINITE if rng.random() < 0.75 else ML_KINDS)
        same = rng.random() < 0.3
        k2 = k1 if same else rng.choice([k for k in ML_KINDS if k != k1])
        k3 = rng.choice(ML_KINDS)
        val = lambda kk: _ml_value(rng, kk, i, defs)       # noqa: E731
        if shape == "once":
            lines.append("%s = %s" % (v, val(k1)))
            final[v] = k1
        elif shape == "straight":
            lines.append("%s = %s" % (v, val(k1)))
            lines.append("%s = %s" % (v, val(k2)))
            final[v] = k2
        elif shape == "if_rebind":
            taken = rng.random() < 0.6
            lines.append("%s = %s" % (v, val(k1)))
            lines.append("if %s:\n    %s = %s" % (rng.choice(TRUE if taken else FALSE), v, val(k2)))
            final[v] = k2 if taken else k1
            rebind_diff += k1 != k2
        elif shape == "ifelse_rebind":
            taken = rng.random() < 0.5
            lines.append("%s = %s" % (v, val(k1)))
            if rng.random() < 0.5:
                lines.append("if %s:\n    %s = %s\nelse:\n    %s = %s" % (rng.choice(TRUE if taken else FALSE), v, val(k2), v, val(k3)))
                final[v] = k2 if taken else k3
            else:       # re-bound in the else branch only
                lines.append("if %s:\n    pass\nelse:\n    %s = %s" % (rng.choice(TRUE if taken else FALSE), v, val(k2)))
                final[v] = k1 if taken else k2
            rebind_diff += final[v] != k1
        elif shape == "for_rebind":
            n = rng.choice([0, 1, 3])
            lines.append("%s = %s" % (v, val(k1)))
            lines.append("for _i%d in range(%d):\n    %s = %s" % (i, n, v, val(k2)))
            final[v] = k2 if n else k1
            final["_i%d" % i] = "int" if n else None
            rebind_diff += k1 != k2
        elif shape == "nested_rebind":
            taken = rng.random() < 0.6
            lines.append("%s = %s" % (v, val(k1)))
            lines.append("for _i%d in [1, 2]:\n    if %s:\n        %s = %s" % (i, rng.choice(TRUE if taken else FALSE), v, val(k2)))
            final[v] = k2 if taken else k1
            final["_i%d" % i] = "int"
            rebind_diff += k1 != k2
        elif shape == "branch_only":
            taken = rng.random() < 0.5
            if rng.random() < 0.5:
                lines.append("if %s:\n    %s = %s\nelse:\n    %s = %s" % (rng.choice(TRUE if taken else FALSE), v, val(k1), v, val(k2)))
                final[v] = k1 if taken else k2
            else:
                lines.append("if %s:\n    %s = %s" % (rng.choice(TRUE), v, val(k1)))
                final[v] = k1
        elif shape == "def_then_branch":
            taken = rng.random() < 0.6
            lines.append("def %s(q):\n    return q" % v)
            kk = rng.choice([k for k in ML_KINDS if k not in ("fn1", "fn0")])
            lines.append("if %s:\n    %s = %s" % (rng.choice(TRUE if taken else FALSE), v, val(kk)))
            final[v] = kk if taken else "fn1"
            rebind_diff += 1
        elif shape == "value_then_branch_def":
            taken = rng.random() < 0.6
            lines.append("%s = %s" % (v, val(k1)))
            lines.append("if %s:\n    def %s(q):\n        return q" % (rng.choice(TRUE if taken else FALSE), v))
            final[v] = "fn1" if taken else k1
            rebind_diff += k1 != "fn1"
        elif shape == "def_redef_branch":
            taken = rng.random() < 0.6
            lines.append("def %s():\n    return 1" % v)
            lines.append("for _i%d in range(%d):\n    def %s(q):\n        return q" % (i, 1 if taken else 0, v))
            final[v] = "fn1" if taken else "fn0"
            final["_i%d" % i] = "int" if taken else None
            rebind_diff += 1
        elif shape == "straight_def":
            lines.append("%s = %s" % (v, val(k1)))
            lines.append("def %s(q):\n    return q" % v)
            final[v] = "fn1"
        elif shape == "unpack":
            w = "u%d" % i
            if rng.random() < 0.5:
                lines.append("%s = %s" % (v, val(k1)))
            lines.append("(%s, %s) = (%s, %s)" % (v, w, val(k2), val(k3)))
            final[v], final[w] = k2, k3
        elif shape == "aug":
            kk = rng.choice(["str", "tuple", "int", "list"])
            lines.append("%s = %s" % (v, val(kk)))
            lines.append({"str": '%s += "b"', "tuple": '%s += ("b",)', "int": "%s += 1", "list": "%s += [2]"}[kk] % v)
            final[v] = kk
        elif shape == "forvar":
            if rng.random() < 0.5:
                lines.append("%s = %s" % (v, val(k1)))
            lines.append("for %s in [%s, %s]:\n    pass" % (v, val(k2), val(k2)))
            final[v] = k2
        elif shape == "alias":
            prev = [n for n, kk in final.items() if kk and not n.startswith("_")]
            if prev:
                src = rng.choice(prev)
                lines.append("%s = %s" % (v, src))
                final[v] = final[src]
            else:
                lines.append("%s = %s" % (v, val(k1)))
                final[v] = k1
        if final.get(v) and rng.random() < 0.6:
            uses.append((v, final[v]))
    # the consumers come after all bindings textually half of the time, before them otherwise (they are only CALLED at the end)
    use_src = [_ml_use(n, k, rng.randrange(6)) for n, k in uses]
    if rng.random() < 0.5:
        body = lines + [u.rstrip("\n") for u in use_src]
    else:
        body = [u.rstrip("\n") for u in use_src] + lines
    calls = ["use_%s()" % n for n, _ in uses]
    src = "\n".join(body + calls) + "\n"
    return {"src": src, "vars": {n: k for n, k in final.items() if k}, "shapes": shapes, "rebind_diff": rebind_diff, "uses": len(uses)}


def module_level_table():
    """The systematic part of the family: first binding of every kind with a definite type x every construct whose body
    may not run exactly once (and, for the model tie, once / straight-line re-binding) x every kind of the re-bound value
    x (no consumer | consumer def using the final value).  Every row carries the same module as a term of
    coq/Typing/IfaceModel.v (`level` = variable 0, loop variable = 1, consumer def = 2)."""
    out = []
    vals = {"str": '"low"', "tuple": '("a", "b")', "bool": "True", "none": "None", "int": "10", "list": "[1, 2]", "dict": '{"k": 1}',
            "struct": "struct(a = 1)", "fn1": "lambda q: q", "fn0": '"x".upper'}
    first = dict(vals, fn1="len")
    cval = {"str": "EVal KStr true", "tuple": "EVal KTuple true", "bool": "EVal KBool true", "none": "EVal KNone true",
            "int": "EVal KOther false", "list": "EVal KOther false", "dict": "EVal KOther false", "struct": "EVal KOther false",
            "fn1": "EVal KFn false", "fn0": "EVal KFn true"}
    cfirst = dict(cval, fn1="EVal KFn true")
    for k1 in DEFINITE + ("def",):
        for cons in ("if-taken", "if-skipped", "else-taken", "for-1", "for-0", "for-if", "if-def", "straight", "straight-def", "once"):
            for k2 in ML_KINDS:
                if cons in ("if-def", "straight-def", "once") and k2 != "fn1":
                    continue
                head = "def level(q):\n    return q\n" if k1 == "def" else "level = %s\n" % first[k1]
                chead = "SDef 0" if k1 == "def" else "SAssign 0 (%s)" % cfirst[k1]
                kk1 = "fn1" if k1 == "def" else k1
                rb = "level = %s" % vals[k2]
                crb = "SAssign 0 (%s)" % cval[k2]
                if cons == "if-taken":
                    body, fin, cbody = 'if len("abc") > 2:\n    %s\n' % rb, k2, "SIf (%s) SSkip" % crb
                elif cons == "if-skipped":
                    body, fin, cbody = 'if len("a") > 2:\n    %s\n' % rb, kk1, "SIf (%s) SSkip" % crb
                elif cons == "else-taken":
                    body, fin, cbody = 'if len("a") > 2:\n    pass\nelse:\n    %s\n' % rb, k2, "SIf SSkip (%s)" % crb
                elif cons == "for-1":
                    body, fin, cbody = "for _i in [3, 5, 4]:\n    %s\n" % rb, k2, "SFor 1 KOther (%s)" % crb
                elif cons == "for-0":
                    body, fin, cbody = "for _i in []:\n    %s\n" % rb, kk1, "SFor 1 KOther (%s)" % crb
                elif cons == "for-if":
                    body, fin, cbody = "for _i in [3, 5]:\n    if _i > 4:\n        %s\n" % rb, k2, "SFor 1 KOther (SIf (%s) SSkip)" % crb
                elif cons == "if-def":
                    body, fin, cbody = 'if len("abc") > 2:\n    def level(q):\n        return [q]\n', "fn1", "SIf (SDef 0) SSkip"
                elif cons == "straight":
                    body, fin, cbody = rb + "\n", k2, crb
                elif cons == "straight-def":
                    body, fin, cbody = "def level(q):\n    return [q]\n", "fn1", "SDef 0"
                else:
                    body, fin, cbody = "", kk1, "SSkip"
                for use in (False, True):
                    src = head + body
                    coq = "SSeq (%s) (%s)" % (chead, cbody)
                    if use:
                        src += _ml_use("level", fin, len(out)) + "use_level()\n"
                        coq = "SSeq (%s) (SDef 2)" % coq
                    out.append({"src": src, "id": "%s:%s:%s:%s" % (k1, cons, k2, "use" if use else "bare"), "final": fin,
                                "diff": fin != kk1, "coq": coq, "branchy": cons not in ("straight", "straight-def", "once")})
    return out


IFACE_CODES = {"str": 0, "tuple": 1, "bool": 2, "None": 3}


def iface_kind_codes(text):
    """Rendered interface type -> None (typing.Any) | set of kind codes of IfaceModel.kind_code | "?" (outside the model)."""
    if text == "typing.Any":
        return None
    parts, depth, cur = [], 0, ""
    i = 0
    while i < len(text):
        c = text[i]
        depth += c in "([{"
        depth -= c in ")]}"
        if depth == 0 and text.startswith(" | ", i):
            parts.append(cur)
            cur = ""
            i += 3
            continue
        cur += c
        i += 1
    parts.append(cur)
    out = set()
    for p in parts:
        p = p.strip()
        if p in IFACE_CODES:
            out.add(IFACE_CODES[p])
        elif p.startswith("def(") or p == "function":
            out.add(4)
        else:
            return "?"
    return out
