#!/usr/bin/env python3
"""Regenerates the table of seeded changes in DESIGN.md (section 10.5) from seeded/*/meta.json."""
import glob
import json
import os
import re

ROOT = os.path.dirname(os.path.dirname(os.path.abspath(__file__)))
rows = []
for d in sorted(glob.glob(os.path.join(ROOT, "seeded", "*"))):
    mp = os.path.join(d, "meta.json")
    if not os.path.exists(mp):
        continue
    m = json.load(open(mp))
    sid = os.path.basename(d)
    files = ", ".join(sorted({l.split(" b/")[-1].strip() for l in open(os.path.join(d, "patch.diff")) if l.startswith("diff --git")}))
    summ = (m.get("summary") or m.get("raw") or "")
    summ = re.sub(r"\s+", " ", summ)[:230]
    caught = m.get("caught_by", {})
    c = "; ".join("%s: %s" % (k, re.sub(r"\s+", " ", v)[:110]) for k, v in caught.items())
    missed = m.get("missed_before_strengthening")
    conf = m.get("confirmed_by_orchestrator")
    cs = "demo fails with / passes without the patch; suite: %s" % conf["pinned_suite_with_patch"][:60] if conf else "pending"
    rows.append((sid, m.get("breaks", sid[:3]), files, summ, c, "yes: " + re.sub(r"\s+", " ", missed)[:200] if missed else "no", cs))

out = ["### 10.5 Seeded changes and which checks catch them",
       "",
       "Each change was written by a fresh sub-agent that saw only the property text and a scratch worktree; it compiles and",
       "passes the pinned suite (1308 tests). `seeded/<id>/` holds `patch.diff`, the demonstration and `meta.json` (what it",
       "needs to manifest, what was run). Validation: the patch is applied to a scratch worktree of /repo HEAD and the check",
       "is run against it (`SV_REPO=<worktree> ./check <id>`; round 3: applied to /repo itself with `git -C /repo apply`, checked,",
       "and undone with `git -C /repo checkout -- .`); the demonstration and the pinned suite are re-run by the",
       "orchestrator (`confirmed_by_orchestrator` in meta.json). \"Strengthened\" = the check missed the change at first and",
       "was extended (generator/harness/model), never by special-casing the patch.",
       "",
       "| id | files changed | change (abridged) | caught by | check strengthened first? | confirmation |",
       "|---|---|---|---|---|---|"]
for r in rows:
    out.append("| %s | %s | %s | %s | %s | %s |" % (r[0], r[2], r[3].replace("|", "/"), r[4].replace("|", "/"), r[5].replace("|", "/"), r[6].replace("|", "/")))
text = "\n".join(out) + "\n\n"
p = os.path.join(ROOT, "DESIGN.md")
s = open(p).read()
a = s.find("### 10.5 Seeded changes and which checks catch them")
marker = "---------------------------------------------------------------------------\n\n## Appendix A."
b = s.find(marker)
if a >= 0:
    s = s[:a] + text + s[b:]
else:
    s = s[:b] + text + s[b:]
open(p, "w").write(s)
print("seed table: %d rows" % len(rows))
