"""CPython 3.11 `ast` as an independent reference for the grammar Starlark shares with Python (C06).

`canon(src)` -> ("ok", sexpr) | ("reject", message) | ("pyonly", what)
  ok      : the canonical fully-parenthesised S-expression of the module, in exactly the format of the
            `parse` harness bin (harness/src/bin/parse.rs) and of ocaml/parse_driver.ml
  reject  : CPython rejects the text (SyntaxError from ast.parse or from compile())
  pyonly  : CPython accepts it but the tree uses a construct that Starlark does not have
            (chained comparison, `is`, `**`, walrus, starred target, set, generator expression, ...)
CPython is never part of a proof; it validates coq/Parse/Grammar.v and is the third opinion in triage.
Usage as a program: python3 c06_ast.py < file   (prints the result as JSON)."""
import ast
import json
import sys


class PyOnly(Exception):
    pass


BINOP = {ast.Add: "Add", ast.Sub: "Subtract", ast.Mult: "Multiply", ast.Div: "Divide", ast.FloorDiv: "FloorDivide",
         ast.Mod: "Percent", ast.BitAnd: "BitAnd", ast.BitOr: "BitOr", ast.BitXor: "BitXor", ast.LShift: "LeftShift",
         ast.RShift: "RightShift"}
CMPOP = {ast.Eq: "Equal", ast.NotEq: "NotEqual", ast.Lt: "Less", ast.Gt: "Greater", ast.LtE: "LessOrEqual",
         ast.GtE: "GreaterOrEqual", ast.In: "In", ast.NotIn: "NotIn"}
UNOP = {ast.Not: "not", ast.USub: "uminus", ast.UAdd: "uplus", ast.Invert: "invert"}


def jstr(s):
    return json.dumps(s, ensure_ascii=False)


class Canon:
    def __init__(self, src):
        self.src = src
        self.lines = src.split("\n")

    def char_at(self, node):
        try:
            line = self.lines[node.lineno - 1].encode("utf-8")
            return chr(line[node.col_offset])
        except Exception:  # noqa: BLE001
            return ""

    def wrapped(self, node):
        """is the source text of `node` one parenthesised group `( ... )`?"""
        seg = ast.get_source_segment(self.src, node) or ""
        if not (seg.startswith("(") and seg.endswith(")")):
            return False
        depth, i, n = 0, 0, len(seg)
        while i < n:
            ch = seg[i]
            if ch in "\"'":
                q = seg[i:i + 3] if seg[i:i + 3] in ('"""', "'''") else ch
                i += len(q)
                while i < n and not seg.startswith(q, i):
                    i += 2 if seg[i] == "\\" else 1
                i += len(q)
                continue
            if ch in "([{":
                depth += 1
            elif ch in ")]}":
                depth -= 1
                if depth == 0 and i != n - 1:
                    return False
            i += 1
        return True

    # ---- expressions
    def e(self, n):
        t = type(n)
        if t is ast.Name:
            return "(id %s)" % n.id
        if t is ast.Constant:
            v = n.value
            if v is True:
                return "(id True)"
            if v is False:
                return "(id False)"
            if v is None:
                return "(id None)"
            if v is Ellipsis:
                return "(ellipsis)"
            if isinstance(v, int):
                return "(int %d)" % v
            if isinstance(v, float):
                return "(float %r)" % v
            if isinstance(v, str):
                if getattr(n, "kind", None) == "u":
                    raise PyOnly("u-string")
                return "(str %s)" % jstr(v)
            if isinstance(v, bytes):
                return "(bytes %s)" % v.hex()
            raise PyOnly("constant " + type(v).__name__)
        if t is ast.Tuple:
            return "(tuple%s)" % "".join(" " + self.e(x) for x in n.elts)
        if t is ast.List:
            return "(list%s)" % "".join(" " + self.e(x) for x in n.elts)
        if t is ast.Dict:
            if any(k is None for k in n.keys):
                raise PyOnly("dict unpacking")
            return "(dict%s)" % "".join(" (%s %s)" % (self.e(k), self.e(v)) for k, v in zip(n.keys, n.values))
        if t is ast.Attribute:
            return "(dot %s %s)" % (self.e(n.value), n.attr)
        if t is ast.Call:
            items = []
            for a in n.args:
                if isinstance(a, ast.Starred):
                    items.append(((a.lineno, a.col_offset), "(star %s)" % self.e(a.value)))
                elif isinstance(a, ast.GeneratorExp) and len(n.args) == 1 and not n.keywords and self.char_at(a) != "(":
                    raise PyOnly("generator argument")
                else:
                    items.append(((a.lineno, a.col_offset), "(pos %s)" % self.e(a)))
            for k in n.keywords:
                if k.arg is None:
                    items.append(((k.lineno, k.col_offset), "(starstar %s)" % self.e(k.value)))
                else:
                    items.append(((k.lineno, k.col_offset), "(named %s %s)" % (k.arg, self.e(k.value))))
            items.sort(key=lambda p: p[0])
            return "(call %s%s)" % (self.e(n.func), "".join(" " + s for _, s in items))
        if t is ast.Subscript:
            s = n.slice
            if isinstance(s, ast.Slice):
                def o(x):
                    return "_" if x is None else self.e(x)
                return "(slice %s %s %s %s)" % (self.e(n.value), o(s.lower), o(s.upper), o(s.step))
            if isinstance(s, ast.Tuple) and not self.wrapped(s):
                if len(s.elts) != 2 or any(isinstance(x, (ast.Slice, ast.Starred)) for x in s.elts):
                    raise PyOnly("subscript tuple")
                # a[b, c]: two-index form (Index2); CPython cannot tell `a[b, c]` from `a[b, c,]`
                return "(index2 %s %s %s)" % (self.e(n.value), self.e(s.elts[0]), self.e(s.elts[1]))
            return "(index %s %s)" % (self.e(n.value), self.e(s))
        if t is ast.Lambda:
            return "(lambda %s %s)" % (self.params(n.args), self.e(n.body))
        if t is ast.UnaryOp:
            return "(%s %s)" % (UNOP[type(n.op)], self.e(n.operand))
        if t is ast.BinOp:
            if type(n.op) not in BINOP:
                raise PyOnly("operator " + type(n.op).__name__)
            return "(op %s %s %s)" % (BINOP[type(n.op)], self.e(n.left), self.e(n.right))
        if t is ast.BoolOp:
            name = "Or" if isinstance(n.op, ast.Or) else "And"
            acc = self.e(n.values[0])
            for v in n.values[1:]:
                acc = "(op %s %s %s)" % (name, acc, self.e(v))
            return acc
        if t is ast.Compare:
            if len(n.ops) != 1:
                raise PyOnly("chained comparison")
            if type(n.ops[0]) not in CMPOP:
                raise PyOnly("operator " + type(n.ops[0]).__name__)
            return "(op %s %s %s)" % (CMPOP[type(n.ops[0])], self.e(n.left), self.e(n.comparators[0]))
        if t is ast.IfExp:
            return "(if %s %s %s)" % (self.e(n.test), self.e(n.body), self.e(n.orelse))
        if t is ast.ListComp:
            return "(listcomp %s%s)" % (self.e(n.elt), self.gens(n.generators))
        if t is ast.DictComp:
            return "(dictcomp %s %s%s)" % (self.e(n.key), self.e(n.value), self.gens(n.generators))
        raise PyOnly(t.__name__)

    def gens(self, gs):
        out = ""
        for g in gs:
            if g.is_async:
                raise PyOnly("async comprehension")
            out += " (for %s %s)" % (self.target(g.target), self.e(g.iter))
            for c in g.ifs:
                out += " (cif %s)" % self.e(c)
        return out

    def target(self, n):
        t = type(n)
        if t in (ast.Tuple, ast.List):
            return "(tuple%s)" % "".join(" " + self.target(x) for x in n.elts)
        if t is ast.Name:
            return "(id %s)" % n.id
        if t is ast.Attribute:
            return "(dot %s %s)" % (self.e(n.value), n.attr)
        if t is ast.Subscript:
            r = self.e(n)
            if not r.startswith("(index "):
                raise PyOnly("slice target")
            return r
        raise PyOnly("target " + t.__name__)

    def params(self, a):
        out = []
        pos = list(a.posonlyargs) + list(a.args)
        nd = len(a.defaults)
        for i, p in enumerate(pos):
            d = a.defaults[i - (len(pos) - nd)] if i >= len(pos) - nd else None
            out.append(self.param(p, d))
            if a.posonlyargs and i == len(a.posonlyargs) - 1:
                out.append("(slash)")
        if a.vararg:
            out.append(self.named("args", a.vararg))
        elif a.kwonlyargs:
            out.append("(star)")
        for p, d in zip(a.kwonlyargs, a.kw_defaults):
            out.append(self.param(p, d))
        if a.kwarg:
            out.append(self.named("kwargs", a.kwarg))
        return "(%s)" % " ".join(out)

    def param(self, p, d):
        s = "(pt " if p.annotation is not None else "(p "
        s += p.arg
        if p.annotation is not None:
            s += " " + self.e(p.annotation)
        if d is not None:
            s += " " + self.e(d)
        return s + ")"

    def named(self, kind, p):
        if p.annotation is not None:
            return "(%st %s %s)" % (kind, p.arg, self.e(p.annotation))
        return "(%s %s)" % (kind, p.arg)

    # ---- statements
    def block(self, body):
        return "(block%s)" % "".join(" " + self.s(x) for x in body)

    def s(self, n):
        t = type(n)
        if t is ast.Expr:
            return "(expr %s)" % self.e(n.value)
        if t is ast.Assign:
            if len(n.targets) != 1:
                raise PyOnly("chained assignment")
            return "(assign %s %s)" % (self.target(n.targets[0]), self.e(n.value))
        if t is ast.AnnAssign:
            if n.value is None:
                raise PyOnly("annotation without value")
            return "(annassign %s %s %s)" % (self.target(n.target), self.e(n.annotation), self.e(n.value))
        if t is ast.AugAssign:
            if type(n.op) not in BINOP:
                raise PyOnly("operator " + type(n.op).__name__)
            return "(augassign %s %s %s)" % (BINOP[type(n.op)], self.target(n.target), self.e(n.value))
        if t is ast.Return:
            return "(return)" if n.value is None else "(return %s)" % self.e(n.value)
        if t is ast.Pass:
            return "(pass)"
        if t is ast.Break:
            return "(break)"
        if t is ast.Continue:
            return "(continue)"
        if t is ast.If:
            if n.orelse:
                return "(ifelse %s %s %s)" % (self.e(n.test), self.block(n.body), self.block(n.orelse))
            return "(if %s %s)" % (self.e(n.test), self.block(n.body))
        if t is ast.For:
            if n.orelse:
                raise PyOnly("for-else")
            return "(for %s %s %s)" % (self.target(n.target), self.e(n.iter), self.block(n.body))
        if t is ast.FunctionDef:
            if n.decorator_list:
                raise PyOnly("decorator")
            ret = "" if n.returns is None else " -> " + self.e(n.returns)
            return "(def %s %s%s %s)" % (n.name, self.params(n.args), ret, self.block(n.body))
        raise PyOnly(t.__name__)

    def module(self, m):
        return "(module%s)" % "".join(" " + self.s(x) for x in m.body)


def canon(src):
    try:
        tree = ast.parse(src)
        compile(src, "case.py", "exec", dont_inherit=True)
    except (SyntaxError, ValueError, RecursionError, MemoryError) as e:
        return ("reject", str(e)[:200])
    try:
        return ("ok", Canon(src).module(tree))
    except PyOnly as e:
        return ("pyonly", str(e))
    except RecursionError:
        return ("pyonly", "recursion")


if __name__ == "__main__":
    print(json.dumps(canon(sys.stdin.read())))
