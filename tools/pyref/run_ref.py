#!/usr/bin/env python3
"""CPython reference runner (used ONLY to validate the Coq reference semantics, DESIGN 3.6).
Reads JSON lines {"src": ...}; writes {"tr": [...], "out": {"ok": true} | {"err": {"cls","line"}}}."""
import json
import sys
import traceback
import tracemalloc

sys.setrecursionlimit(400)
if hasattr(sys, "set_int_max_str_digits"):
    sys.set_int_max_str_digits(0)


def enc(v, depth=0):
    if depth > 24:
        return "..."
    if v is None:
        return "None"
    if v is True:
        return "True"
    if v is False:
        return "False"
    if isinstance(v, int):
        return "i%d" % v
    if isinstance(v, str):
        return json.dumps(v, ensure_ascii=False)
    if isinstance(v, list):
        return "[" + ",".join(enc(x, depth + 1) for x in v) + "]"
    if isinstance(v, tuple):
        return "(" + ",".join(enc(x, depth + 1) for x in v) + ")"
    if isinstance(v, dict):
        return "{" + ",".join(enc(k, depth + 1) + ":" + enc(x, depth + 1) for k, x in v.items()) + "}"
    if isinstance(v, range):
        return "<range>"
    return "<%s>" % type(v).__name__


STEP_LIMIT = 200000
MEM_LIMIT = 64 * 1024 * 1024     # live bytes: a container doubled in a loop (x.extend(x + x)) passes any step limit


class Huge(BaseException):
    """the program runs longer than any program the check wants to compare (e.g. a string grown inside a loop over itself)"""


def run(src):
    tr = []
    env = {"emit": lambda x: tr.append(enc(x)), "__builtins__": dict(__builtins__.__dict__)}
    # Starlark spellings that differ from Python's builtins
    env["__builtins__"]["reversed"] = lambda x: list(reversed(x))
    env["__builtins__"]["enumerate"] = lambda x, start=0: list(enumerate(x, start))
    env["__builtins__"]["zip"] = lambda *a: list(zip(*a))
    steps = [0]

    def tracer(frame, event, arg):
        if event == "line":
            steps[0] += 1
            if steps[0] > STEP_LIMIT:
                raise Huge()
            if steps[0] % 64 == 0 and tracemalloc.get_traced_memory()[0] > MEM_LIMIT:
                raise Huge()
        return tracer

    tracemalloc.start()
    try:
        code = compile(src, "<prog>", "exec")
        sys.settrace(tracer)
        try:
            exec(code, env)
        finally:
            sys.settrace(None)
        peak = tracemalloc.get_traced_memory()[1]
        tracemalloc.stop()
        if peak > MEM_LIMIT:
            return {"tr": [], "out": {"huge": True}, "huge": True, "steps": steps[0], "peak": peak}
        return {"tr": tr, "out": {"ok": True}, "steps": steps[0], "peak": peak}
    except (Huge, MemoryError):
        tracemalloc.stop()
        return {"tr": [], "out": {"huge": True}, "huge": True, "steps": steps[0], "peak": 10 ** 12}
    except RecursionError:
        tracemalloc.stop()
        return {"tr": tr, "out": {"err": {"cls": "RecursionError", "line": 0}}}
    except Exception as e:  # noqa: BLE001
        peak = tracemalloc.get_traced_memory()[1]
        tracemalloc.stop()
        if peak > MEM_LIMIT:
            return {"tr": [], "out": {"huge": True}, "huge": True, "steps": steps[0], "peak": peak}
        line = 0
        for fs in traceback.extract_tb(e.__traceback__):
            if fs.filename == "<prog>":
                line = fs.lineno
        if isinstance(e, SyntaxError):
            line = e.lineno or 0
        return {"tr": tr, "out": {"err": {"cls": type(e).__name__, "line": line, "msg": str(e)[:100]}}, "steps": steps[0], "peak": peak}


def main():
    try:
        import resource
        resource.setrlimit(resource.RLIMIT_AS, (4 << 30, 4 << 30))   # a single huge allocation raises MemoryError instead of swapping
    except Exception:  # noqa: BLE001
        pass
    with open(sys.argv[1]) as f, open(sys.argv[2], "w") as out:
        for l in f:
            if l.strip():
                out.write(json.dumps(run(json.loads(l)["src"])) + "\n")


if __name__ == "__main__":
    main()
