#!/usr/bin/env python3
"""rs2v: translator from a small, pure subset of Rust function bodies to Gallina.

Used by tools/extract.py on every run: the named functions are read out of /repo's current sources,
parsed (items: `fn`; statements: `let`, `if`/`if let` with early `return`, `debug_assert!` (dropped),
final expression; expressions: literals, paths, unary/binary operators, `as` casts, method calls, field
access, calls, tuples, blocks, `if`/`else`, `match` with guards, closures, `?`, macros as opaque atoms)
and written as `Definition rs_<name>` into coq/Extracted/Rs*.v.  The meaning of the primitives
(`m_<method>`, `<Type>_<assoc>`, casts, operators) is given by the hand-written coq/Rs/Prelude.v;
anything the prelude does not define makes the Coq build fail loudly, and anything this parser does
not understand raises (both are broken ties, never silently skipped).

What the translation assumes (stated in DESIGN 10.6): plain `+ - *` and `<<` on machine integers do not
overflow (they are translated to the operations of Z); `/` and `%` truncate (Z.quot / Z.rem); `&`/`*`
(reference / dereference), `.clone()`, `.get()` are identities; method dispatch is by name except for
receivers whose declared type is listed in `typed_receivers`.
"""
import re

TOKEN_RE = re.compile(r"""
    (?P<ws>\s+|//[^\n]*|/\*.*?\*/)
  | (?P<num>0x[0-9a-fA-F_]+(?:[iu](?:8|16|32|64|128|size))?|\d[\d_]*(?:[iu](?:8|16|32|64|128|size))?)
  | (?P<life>'[A-Za-z_]\w*(?!'))
  | (?P<str>"(?:[^"\\]|\\.)*")
  | (?P<id>[A-Za-z_]\w*)
  | (?P<op>::|->|=>|==|!=|<=|>=|&&|\|\||<<|>>|\.\.=|\.\.|[-+*/%<>=!&|^.,;:?(){}\[\]#@])
""", re.X | re.S)


class Unsupported(Exception):
    pass


def tokenize(text):
    out, i = [], 0
    while i < len(text):
        m = TOKEN_RE.match(text, i)
        if not m:
            raise Unsupported("cannot tokenize at %r" % text[i:i + 20])
        i = m.end()
        k = m.lastgroup
        if k == "ws":
            continue
        out.append((k, m.group(k)))
    out.append(("eof", ""))
    return out


def find_fn(text, name, nth=0):
    """Source text of the nth `fn name` item (signature + body), by brace matching."""
    base = 0
    if isinstance(nth, str):               # an `impl` header regex: the first `fn name` after it
        mi = re.search(nth, text)
        if not mi:
            raise Unsupported("impl header %r not found" % nth)
        base, nth = mi.start(), 0
    ms = [m for m in re.finditer(r"\bfn\s+%s\s*[<(]" % re.escape(name), text) if m.start() >= base]
    if len(ms) <= nth:
        raise Unsupported("fn %s (occurrence %d) not found" % (name, nth))
    start = ms[nth].start()
    i = text.index("{", start)
    # a `where` clause or return type may contain no braces in our subset
    depth, j = 0, i
    while True:
        c = text[j]
        if c == "{":
            depth += 1
        elif c == "}":
            depth -= 1
            if depth == 0:
                break
        j += 1
    return text[start:j + 1], text.count("\n", 0, start) + 1


# ---------------------------------------------------------------------------------------------
# AST: tuples ("kind", ...)

class Parser:
    def __init__(self, toks):
        self.t, self.i = toks, 0
        self.nostruct = False

    def peek(self, k=0):
        return self.t[self.i + k]

    def at(self, v):
        return self.t[self.i][1] == v and self.t[self.i][0] in ("op", "id")

    def eat(self, v):
        if self.at(v):
            self.i += 1
            return True
        return False

    def expect(self, v):
        if not self.eat(v):
            raise Unsupported("expected %r, found %r" % (v, self.t[self.i][1]))

    def ident(self):
        k, v = self.t[self.i]
        if k != "id":
            raise Unsupported("expected identifier, found %r" % v)
        self.i += 1
        return v

    # ---- types: skipped, returned as text
    def type_text(self, stops):
        depth, parts = 0, []
        while True:
            k, v = self.peek()
            if k == "eof":
                break
            if depth == 0 and v in stops and k == "op":
                break
            if v in ("<", "(", "["):
                depth += 1
            elif v in (">", ")", "]"):
                if depth == 0:
                    break
                depth -= 1
            elif v == ">>":
                depth -= 2
            parts.append(v)
            self.i += 1
        return " ".join(parts)

    def fn_item(self):
        self.expect("fn")
        name = self.ident()
        if self.at("<"):
            self.i += 1
            self.type_text([])
            self.expect(">")
        self.expect("(")
        params = []
        while not self.at(")"):
            self.eat("&")
            if self.peek()[0] == "life":
                self.i += 1
            self.eat("mut")
            p = self.ident()
            if p == "self":
                params.append(("self_", "Self"))
            else:
                self.expect(":")
                params.append((p, self.type_text([","])))
            self.eat(",")
        self.expect(")")
        ret = ""
        if self.eat("->"):
            ret = self.type_text(["{"])
            if "where" in ret.split():
                ret = ret[:ret.index("where")]
        elif self.at("where"):
            self.type_text(["{"])
        body = self.block()
        return name, params, ret.strip(), body

    # ---- statements
    def block(self):
        self.expect("{")
        stmts = []
        while not self.at("}"):
            if self.at("#"):           # attribute
                self.i += 1
                self.expect("[")
                self.type_text([])
                self.expect("]")
                continue
            if self.at("let"):
                self.i += 1
                pat = self.pattern()
                if self.eat(":"):
                    self.type_text(["="])
                self.expect("=")
                e = self.expr()
                if self.eat("else"):
                    blk = self.block()
                    self.expect(";")
                    stmts.append(("letelse", pat, e, blk))
                    continue
                self.expect(";")
                stmts.append(("let", pat, e))
                continue
            e = self.expr()
            if self.eat(";"):
                stmts.append(("semi", e))
            elif self.at("}"):
                stmts.append(("final", e))
            elif e[0] in ("if", "iflet", "match", "block"):
                stmts.append(("semi", e))
            else:
                raise Unsupported("expected ; or } after expression, found %r" % self.peek()[1])
        self.expect("}")
        return ("block", stmts)

    # ---- patterns
    def pattern(self):
        k, v = self.peek()
        if v == "(":
            self.i += 1
            ps = []
            while not self.at(")"):
                ps.append(self.pattern())
                self.eat(",")
            self.expect(")")
            return ("ptuple", ps) if len(ps) != 1 else ps[0]
        if v == "..":
            self.i += 1
            return ("pwild",)
        if v == "-" and self.peek(1)[0] == "num":
            self.i += 2
            return ("plit", -num_value(self.t[self.i - 1][1]))
        if k == "num":
            self.i += 1
            return ("plit", num_value(v))
        if v == "&":
            self.i += 1
            return self.pattern()
        if k == "id":
            if v == "_":
                self.i += 1
                return ("pwild",)
            if v in ("mut", "ref"):
                self.i += 1
                return self.pattern()
            path = self.path()
            if self.at("("):
                self.i += 1
                ps = []
                while not self.at(")"):
                    ps.append(self.pattern())
                    self.eat(",")
                self.expect(")")
                return ("pctor", path, ps)
            if len(path) == 1 and not path[0][0].isupper():
                return ("pvar", path[0])
            return ("pctor", path, [])
        raise Unsupported("pattern starting with %r" % v)

    def path(self):
        segs = [self.ident()]
        while self.at("::"):
            self.i += 1
            if self.at("<"):            # turbofish
                self.i += 1
                self.type_text([])
                self.expect(">")
                continue
            segs.append(self.ident())
        return segs

    # ---- expressions
    BIN = [("||",), ("&&",), ("==", "!=", "<", ">", "<=", ">="), ("|",), ("^",), ("&",), ("<<", ">>"),
           ("+", "-"), ("*", "/", "%")]

    def expr(self, level=0, nostruct=False):
        if level == len(self.BIN):
            return self.cast()
        lhs = self.expr(level + 1)
        while self.peek()[0] == "op" and self.peek()[1] in self.BIN[level]:
            op = self.peek()[1]
            self.i += 1
            rhs = self.expr(level + 1)
            lhs = ("bin", op, lhs, rhs)
        return lhs

    def cast(self):
        e = self.unary()
        while self.at("as"):
            self.i += 1
            ty = self.type_text([",", ";", ")", "}", "{", "==", "!=", "<=", ">=", "&&", "||", "+", "-", "*", "/", "%",
                                 "<<", ">>", "=>", "?", "."])
            e = ("cast", e, ty.strip())
        return e

    def unary(self):
        if self.at("-"):
            self.i += 1
            return ("neg", self.unary())
        if self.at("!"):
            self.i += 1
            return ("not", self.unary())
        if self.at("&") or self.at("*"):
            self.i += 1
            self.eat("mut")
            return self.unary()
        return self.postfix()

    def args(self):
        self.expect("(")
        a = []
        while not self.at(")"):
            a.append(self.expr())
            self.eat(",")
        self.expect(")")
        return a

    def postfix(self):
        e = self.primary()
        if e[0] in ("block", "if", "iflet", "match"):
            return e                      # block-like expressions take no postfix (statement rule)
        while True:
            if self.at("?"):
                self.i += 1
                e = ("try", e)
            elif self.at("."):
                self.i += 1
                k, v = self.peek()
                if k == "num":
                    self.i += 1
                    e = ("field", e, v)
                else:
                    name = self.ident()
                    if self.at("::"):
                        self.i += 1
                        self.expect("<")
                        self.type_text([])
                        self.expect(">")
                    if self.at("("):
                        e = ("mcall", e, name, self.args())
                    else:
                        e = ("field", e, name)
            elif self.at("("):
                e = ("call", e, self.args())
            else:
                return e

    def head_expr(self):
        """Expression in `if`/`match` head position: no struct literals (as in Rust)."""
        old, self.nostruct = self.nostruct, True
        try:
            return self.expr()
        finally:
            self.nostruct = old

    def primary(self):
        k, v = self.peek()
        if k == "num":
            self.i += 1
            return ("num", num_value(v))
        if k == "str":
            self.i += 1
            return ("str", v)
        if v == "(":
            self.i += 1
            es = []
            while not self.at(")"):
                es.append(self.expr())
                self.eat(",")
            self.expect(")")
            return es[0] if len(es) == 1 else ("tuple", es)
        if v == "{":
            return self.block()
        if v == "|" or v == "||":
            self.i += 1
            params = []
            if v == "|":
                while not self.at("|"):
                    params.append(self.pattern())
                    self.eat(",")
                self.expect("|")
            return ("closure", params, self.expr())
        if v == "if":
            self.i += 1
            if self.at("let"):
                self.i += 1
                pat = self.pattern()
                self.expect("=")
                scrut = self.head_expr()
                then = self.block()
                els = None
                if self.eat("else"):
                    els = self.primary() if self.at("if") else self.block()
                return ("iflet", pat, scrut, then, els)
            c = self.head_expr()
            then = self.block()
            els = None
            if self.eat("else"):
                els = self.primary() if self.at("if") else self.block()
            return ("if", c, then, els)
        if v == "match":
            self.i += 1
            scrut = self.head_expr()
            self.expect("{")
            arms = []
            while not self.at("}"):
                pat = self.pattern()
                while self.at("|"):
                    raise Unsupported("or-patterns")
                guard = None
                if self.eat("if"):
                    guard = self.expr()
                self.expect("=>")
                body = self.expr()
                self.eat(",")
                arms.append((pat, guard, body))
            self.expect("}")
            return ("match", scrut, arms)
        if v == "return":
            self.i += 1
            return ("return", self.expr())
        if k == "id":
            path = self.path()
            if self.at("!"):           # macro invocation: opaque atom, arguments skipped
                self.i += 1
                opener = self.peek()[1]
                closer = {"(": ")", "[": "]", "{": "}"}[opener]
                depth = 0
                while True:
                    t = self.peek()[1]
                    self.i += 1
                    if t == opener:
                        depth += 1
                    elif t == closer:
                        depth -= 1
                        if depth == 0:
                            break
                return ("macro", path)
            if self.at("{") and not self.nostruct and path[-1][0].isupper() and self.peek(1)[0] == "id" \
                    and self.peek(2)[1] in (":", ",", "}"):
                self.i += 1
                fields = []
                old, self.nostruct = self.nostruct, False
                while not self.at("}"):
                    f = self.ident()
                    if self.eat(":"):
                        fields.append((f, self.expr()))
                    else:
                        fields.append((f, ("path", [f])))
                    self.eat(",")
                self.nostruct = old
                self.expect("}")
                return ("struct", path, fields)
            return ("path", path)
        raise Unsupported("expression starting with %r" % v)


def num_value(v):
    v = re.sub(r"[iu](8|16|32|64|128|size)$", "", v).replace("_", "")
    return int(v, 16) if v.startswith("0x") else int(v)


COQ_KEYWORDS = {"end", "at", "in", "as", "fun", "match", "with", "then", "else", "return", "let", "fix", "forall",
                "exists", "Type", "Prop", "Set", "where", "using", "if", "cofix", "struct", "for", "mod"}


def san(name):
    if name == "self":
        return "self_"
    return name + "_" if name in COQ_KEYWORDS else name


# ---------------------------------------------------------------------------------------------
# Gallina emission

def has_effect(e):
    """Does the expression contain `?` or `return` (outside closures)?"""
    if not isinstance(e, tuple):
        return False
    if e[0] in ("try", "return") or (e[0] == "mcall" and e[2] == "unwrap"):
        return True
    if e[0] == "closure":
        return False
    return any(has_effect(x) if isinstance(x, tuple) else
               (any(has_effect(y) for y in x if isinstance(y, (tuple, list))) if isinstance(x, list) else False)
               for x in e[1:])


def ID(v):
    return v


class Emitter:
    def __init__(self, cfg, fn_names):
        self.cfg = cfg
        self.fn_names = fn_names          # rust fn name -> coq name, for this group (and earlier groups)
        self.fresh = 0
        self.types = {}
        self.hints = {}
        self.notes = []

    def gensym(self, base="q"):
        self.fresh += 1
        return "%s__%d" % (base, self.fresh)

    def join(self, k, build, unit=False):
        """Join point: `build(k')` may call its continuation in several branches; the rest of the computation
        `k` is emitted once, as a local function."""
        if k is ID:
            return build(k)
        j = self.gensym("j")
        if unit:
            return "(let %s := (fun _ : unit => %s) in %s)" % (j, k("tt"), build(lambda _v: "(%s tt)" % j))
        x = self.gensym("jv")
        return "(let %s := (fun %s => %s) in %s)" % (j, x, k(x), build(lambda v: "(%s %s)" % (j, v)))

    # ---- names
    def path_name(self, path, call=False):
        last = path[-1]
        if len(path) == 1:
            if last in ("Ok", "Err", "Some", "None"):
                return {"Ok": "ROk", "Err": "RErr", "Some": "Some", "None": "None"}[last]
            if last in self.fn_names and call:
                return self.fn_names[last]
            return san(last)
        if path[0] == "Self" and len(path) == 2:
            if last in self.fn_names:
                return self.fn_names[last]
            return self.cfg.get("self_name", "Self") + "_" + last
        if last[0].isupper() and not last.isupper():
            if path[-2].endswith("Error"):
                return "E_" + last
            return last
        if len(path) >= 2 and (path[-2] + "::" + last) in self.cfg.get("assoc_fns", {}):
            return self.cfg["assoc_fns"][path[-2] + "::" + last]
        return "_".join(p for p in path[-2:])

    def pat(self, p):
        k = p[0]
        if k == "pwild":
            return "_"
        if k == "pvar":
            return san(p[1])
        if k == "ptuple":
            return "(" + ", ".join(self.pat(x) for x in p[1]) + ")"
        if k == "pctor":
            name = self.path_name(p[1])
            if not p[2]:
                return name
            return "(" + name + " " + " ".join(self.pat(x) for x in p[2]) + ")"
        raise Unsupported("pattern %r in this position" % (p,))

    def bind_types(self, p):
        """Types of variables bound by constructor patterns whose payload type is declared in cfg."""
        if p[0] == "ptuple":
            for x in p[1]:
                self.bind_types(x)
        elif p[0] == "pctor":
            t = self.cfg.get("ctor_payload", {}).get(p[1][-1])
            if t and len(p[2]) == 1 and p[2][0][0] == "pvar":
                self.types[p[2][0][1]] = t
            else:
                for x in p[2]:
                    self.bind_types(x)
        elif p[0] == "pvar" and p[1] in self.hints:
            self.types[p[1]] = self.hints[p[1]]
        elif p[0] == "pvar" and p[1] in self.types:
            del self.types[p[1]]

    def recv_type(self, e):
        if e[0] == "path" and len(e[1]) == 1:
            return self.types.get(e[1][0])
        if e[0] == "field" and e[1][0] == "path" and len(e[1][1]) == 1 and e[2] == "0":
            t = self.types.get(e[1][1][0])
            return self.cfg.get("newtypes", {}).get(t)
        return None

    # ---- expressions in continuation-passing style: tr(e, k) where k : coq-text -> coq-text
    def pure(self, e):
        if has_effect(e):
            raise Unsupported("`?`/return/unwrap in a position that must be effect-free")
        return self.tr(e, ID)

    def tr_list(self, es, k):
        def go(i, acc):
            if i == len(es):
                return k(acc)
            return self.tr(es[i], lambda v: go(i + 1, acc + [v]))
        return go(0, [])

    def tr(self, e, k):
        kind = e[0]
        if kind == "num":
            return k("%d%%Z" % e[1] if e[1] >= 0 else "(%d)%%Z" % e[1])
        if kind == "str":
            return k("tt")
        if kind == "macro":
            return k("MACRO_" + "_".join(e[1]))
        if kind == "path":
            return k(self.path_name(e[1]))
        if kind == "neg":
            return self.tr(e[1], lambda v: k("(rs_neg %s)" % v))
        if kind == "not":
            return self.tr(e[1], lambda v: k("(rs_not %s)" % v))
        if kind == "cast":
            ty = e[2].replace(" ", "")
            return self.tr(e[1], lambda v: k("(cast_%s %s)" % (ty, v)))
        if kind == "bin":
            op = e[1]
            if op in ("&&", "||") and has_effect(e[3]):
                raise Unsupported("effect in the right operand of %s" % op)
            name = {"+": "rs_add", "-": "rs_sub", "*": "rs_mul", "/": "rs_div", "%": "rs_rem", "<<": "rs_shl",
                    ">>": "rs_shr", "&": "rs_and", "|": "rs_or", "^": "rs_xor", "==": "rs_eqb", "!=": "rs_neb",
                    "<": "rs_ltb", ">": "rs_gtb", "<=": "rs_leb", ">=": "rs_geb", "&&": "andb", "||": "orb"}[op]
            return self.tr(e[2], lambda a: self.tr(e[3], lambda b: k("(%s %s %s)" % (name, a, b))))
        if kind == "tuple":
            return self.tr_list(e[1], lambda vs: k("(" + ", ".join(vs) + ")"))
        if kind == "field":
            f = e[2]
            t = self.recv_type(e[1])
            if f == "0" and t in self.cfg.get("newtypes", {}):
                return self.tr(e[1], k)
            if f in ("0", "1"):
                return self.tr(e[1], lambda v: k("(%s %s)" % ("fst" if f == "0" else "snd", v)))
            return self.tr(e[1], lambda v: k("(f_%s %s)" % (f, v)))
        if kind == "mcall":
            recv, name, args = e[1], e[2], e[3]
            if name == "unwrap" and not args:      # panics on None/Err: an explicit E_Panic outcome
                q = self.gensym()
                return self.tr(recv, lambda v: "(rbind (m_unwrap %s) (fun %s => %s))" % (v, q, k(q)))
            t = self.recv_type(recv)
            typed = self.cfg.get("typed_receivers", {})
            if t in typed and name in typed[t]:
                fname = typed[t][name]
            else:
                fname = "m_" + name
            return self.tr(recv, lambda r: self.tr_list(args, lambda vs: k("(" + " ".join([fname, r] + vs) + ")")))
        if kind == "call":
            f = e[1]
            if f[0] != "path":
                raise Unsupported("call of a non-path")
            fname = self.path_name(f[1], call=True)
            if not e[2]:
                return k("(%s tt)" % fname) if fname not in ("None",) else k(fname)
            return self.tr_list(e[2], lambda vs: k("(" + " ".join([fname] + vs) + ")"))
        if kind == "closure":
            params = " ".join(self.pat(p) if p[0] != "ptuple" else "'" + self.pat(p) for p in e[1]) or "_"
            return k("(fun %s => %s)" % (params, self.pure(e[2])))
        if kind == "try":
            q = self.gensym()
            return self.tr(e[1], lambda v: "(rbind %s (fun %s => %s))" % (v, q, k(q)))
        if kind == "return":
            return self.tr(e[1], ID)
        if kind == "block":
            return self.stmts(e[1], k)
        if kind == "if":
            if not has_effect(e):
                c = self.pure(e[1])
                a = self.pure(e[2])
                b = self.pure(e[3]) if e[3] is not None else "tt"
                return k("(if %s then %s else %s)" % (c, a, b))
            els = e[3]
            return self.join(k, lambda k2: self.tr(e[1], lambda c: "(if %s then %s else %s)" % (
                c, self.tr(e[2], k2), self.tr(els, k2) if els is not None else k2("tt"))), unit=(els is None))
        if kind == "iflet":
            arms = [(e[1], None, e[3]), (("pwild",), None, e[4] if e[4] is not None else ("unit",))]
            return self.join(k, lambda k2: self.tr(e[2], lambda s: self.match_arms(
                s, arms, lambda body: self.tr(body, k2))), unit=(e[4] is None))
        if kind == "match":
            if not has_effect(e):
                return k(self.match_pure(e))
            return self.join(k, lambda k2: self.tr(e[1], lambda s: self.match_arms(
                s, e[2], lambda body: self.tr(body, k2))))
        if kind == "unit":
            return k("tt")
        if kind == "struct":
            names = [f for f, _ in e[2]]
            return self.tr_list([x for _, x in e[2]], lambda vs: k(
                "{| " + "; ".join("f_%s := %s" % (n, v) for n, v in zip(names, vs)) + " |}"))
        raise Unsupported("expression kind %s" % kind)

    def match_pure(self, e):
        s = self.pure(e[1])
        return self.match_arms(s, e[2], self.pure)

    def match_arms(self, s, arms, tr_body):
        """Sequential semantics of Rust match with guards and literal patterns, as nested Coq matches."""
        if not arms:
            return "match_failure"
        simple = all(g is None and not self.has_lit(p) for p, g, _ in arms)
        if simple:
            out = []
            for p, _, b in arms:
                self.bind_types(p)
                out.append("| %s => %s" % (self.pat(p), tr_body(b)))
            return "(match %s with %s end)" % (s, " ".join(out))
        v = self.gensym("s")
        return "(let %s := %s in %s)" % (v, s, self.match_seq(v, arms, tr_body))

    def has_lit(self, p):
        return p[0] == "plit" or (p[0] in ("ptuple",) and any(self.has_lit(x) for x in p[1])) or \
            (p[0] == "pctor" and any(self.has_lit(x) for x in p[2]))

    def match_seq(self, v, arms, tr_body):
        if not arms:
            return "match_failure"
        (p, g, b), rest = arms[0], arms[1:]
        if p[0] == "plit":
            if g is not None:
                raise Unsupported("guard on a literal pattern")
            return "(if rs_eqb %s %s then %s else %s)" % (v, ("%d%%Z" % p[1]) if p[1] >= 0 else "(%d)%%Z" % p[1],
                                                          tr_body(b), self.match_seq(v, rest, tr_body))
        if self.has_lit(p):
            raise Unsupported("literal nested in a pattern")
        self.bind_types(p)
        irrefutable = p[0] in ("pwild", "pvar") or (p[0] == "ptuple" and all(x[0] in ("pwild", "pvar") for x in p[1]))
        body = tr_body(b)
        if g is not None:
            body = "(if %s then %s else %s)" % (self.pure(g), body, self.match_seq(v, rest, tr_body))
        if irrefutable:
            if p[0] == "pwild":
                return body
            return "(let %s := %s in %s)" % (("'" if p[0] == "ptuple" else "") + self.pat(p), v, body)
        return "(match %s with | %s => %s | _ => %s end)" % (v, self.pat(p), body, self.match_seq(v, rest, tr_body))

    def stmts(self, ss, k):
        if not ss:
            return k("tt")
        s, rest = ss[0], ss[1:]
        if s[0] == "final":
            if rest:
                raise Unsupported("statement after the final expression")
            return self.tr(s[1], k)
        if s[0] == "let":
            pat = s[1]
            ptxt = self.pat(pat)
            if pat[0] == "ptuple":
                ptxt = "'" + ptxt

            def after(v):
                self.bind_types(pat)
                return "(let %s := %s in %s)" % (ptxt, v, self.stmts(rest, k))
            return self.tr(s[2], after)
        if s[0] == "semi":
            e = s[1]
            if e[0] == "macro" and e[1][-1] in ("debug_assert", "debug_assert_eq", "assert", "assert_eq"):
                if e[1][-1].startswith("assert"):
                    self.notes.append("assert! dropped")
                return self.stmts(rest, k)
            if e[0] == "return":
                return self.tr(e[1], ID)
            if e[0] in ("if", "match", "iflet", "block"):
                if not has_effect(e):
                    if rest:
                        return self.stmts(rest, k)      # a pure statement has no effect in this subset
                    return self.tr(e, k)
                # may return early or fall through to the rest of the block
                if not rest:
                    return self.tr(e, k)
                return self.tr(e, lambda _v: self.stmts(rest, k))
            raise Unsupported("expression statement %s" % e[0])
        if s[0] == "letelse":
            pat = s[1]
            return self.tr(s[2], lambda v: "(match %s with | %s => %s | _ => %s end)" % (
                v, self.pat(pat), self.stmts(rest, k), self.tr(s[3], lambda _v: "match_failure")))
        raise Unsupported("statement %s" % s[0])

    def diverges(self, blk):
        ss = blk[1]
        if not ss:
            return False
        last = ss[-1]
        if last[0] == "semi" and last[1][0] == "return":
            return True
        if last[0] == "final" and last[1][0] == "return":
            return True
        return False


COQ_TYPES = {"i32": "Z", "u32": "Z", "i64": "Z", "u64": "Z", "usize": "Z", "isize": "Z", "InlineInt": "Z", "BigInt": "Z",
             "bool": "bool", "Value": "value", "StarlarkIntRef": "rep", "StarlarkInt": "rep", "StarlarkHashValue": "Z", "Range": "range", "StarlarkBigInt": "Z", "Span": "span", "Pos": "Z"}


def coq_type(t, cfg):
    t = t.replace(" ", "").lstrip("&")
    t = re.sub(r"<'\w+>", "", t)
    if t in ("Self", "self"):
        t = cfg.get("self_type", "Self")
    if t in COQ_TYPES:
        return COQ_TYPES[t]
    m = re.fullmatch(r"Option<(.*)>", t)
    if m:
        inner = coq_type(m.group(1), cfg)
        return "(option %s)" % inner if inner else None
    return None


def coq_param(name, t, cfg):
    ct = coq_type(t, cfg)
    return "(%s : %s)" % (name, ct) if ct else name


def translate_group(src_of, group):
    """group: dict(name, file, fns=[(rust_name, nth, coq_name)], cfg).  Returns (coq_text, items)."""
    cfg = group.get("cfg", {})
    fn_names = dict(group.get("extern_fns", {}))
    lines, items = [], []
    for spec in group["fns"]:
        rust_name, nth, coq_name = spec[:3]
        hints = spec[3] if len(spec) > 3 else {}
        text, line = find_fn(src_of(group["file"]), rust_name, nth)
        name, params, ret, body = Parser(tokenize(text)).fn_item()
        em = Emitter(cfg, fn_names)
        em.types = {p: t.replace(" ", "").lstrip("&") for p, t in params}
        if "self_type" in cfg:
            em.types["self"] = cfg["self_type"]
            em.types["self_"] = cfg["self_type"]
        em.types.update(hints)
        em.hints = dict(hints)
        btxt = em.tr(body, ID)
        ptxt = " ".join(coq_param(san(p), em.types.get(p, t), cfg) for p, t in params) or "(_ : unit)"
        lines.append("(* %s:%d  fn %s(%s) -> %s *)" % (group["file"], line, rust_name,
                                                       ", ".join("%s: %s" % pt for pt in params), ret))
        lines.append("Definition %s %s :=\n  %s." % (coq_name, ptxt, btxt))
        lines.append("")
        fn_names.setdefault(rust_name, coq_name)
        for extra in group.get("postlude", {}).get(coq_name, []):
            lines.append(extra)
            lines.append("")
        import hashlib
        items.append((coq_name, group["file"], line, hashlib.sha256(text.encode()).hexdigest()[:12]))
    return "\n".join(lines), items
