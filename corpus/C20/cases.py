"""Hand-written boundary rounds of C20 (run first, before the generated rounds)."""

LIB = '''
data = [1, "two", (3, 4), {"k": [5, 6]}, 1 << 70]
Rec = record(a=int, b=str)
r = Rec(a=1, b="x")
def f(x):
    return [x, data[0] + x, r.a, len(data)]
def mk(n):
    def g(x):
        return x + n + data[0]
    return g
g5 = mk(5)
words = ["alpha", "beta" * 20, "gamma"]
'''

USE = '''
load("lib0.star", "data", "f", "g5", "r", "Rec", "words")
emit(f(2))
emit(g5(10))
emit(repr(r))
emit({w: hash(w) for w in words})
emit(json.encode(data[3]))
emit(sorted(words, key = len))
'''

OWN = '''
load("lib0.star", "data", "f", "g5", "words")
keep = [data, f, g5, words]
def h(x):
    return [keep[1](x), keep[2](x), keep[3][1][:8]]
big = [i * i for i in range(200)]
'''

DEEP = '''
def nest(n, leaf):
    x = [leaf]
    for _ in range(n):
        x = [x]
    return x
a = nest(90, 1)
b = nest(90, 1)
c = nest(90, 2)
def nest_t(n, leaf):
    x = (leaf,)
    for i in range(n):
        x = (x, i)
    return x
t = nest_t(90, 1)
u = nest_t(90, 1)
cyc = [1]
cyc.append(cyc)
def depth(n):
    return 0 if n == 0 else 1 + depth(n - 1)
'''

DEEP_USE = '''
load("lib0.star", "a", "b", "c", "t", "u", "cyc", "depth")
emit([[a == b, a == c, a < c, [a] == [b], {"k": a} == {"k": b}, c in [a, b, c], {t: 1}.get(u), t < u] for _ in range(40)][-1])
emit(len(sorted([c, a, b, c, a])))
emit([len(repr(a)), repr(cyc), str(cyc), len(json.encode(b))])
emit(depth(45))
'''

# a library whose enum / record types are never assigned to a global (anonymous when the module is frozen), next to named ones
ANON = '''
types = [enum("RED", "GREEN"), record(a=int, b=field(str, "x"))]
ns = struct(E=enum("x", "y"), T=int | str)
Named = enum("n1", "n2")
vals = [types[0]("GREEN"), ns.E("x"), Named("n1")]
'''

ANON_LOAD = 'load("lib0.star", "types", "ns", "Named", "vals")\n'


def anon_binder(t):
    # binds the anonymous types to top-level names of its own module (a different name on every thread)
    return [{"op": "eval", "gc": 0, "src": ANON_LOAD + 'Mine%d = types[0]\nemit([repr(Mine%d("RED")), Mine%d.type, repr(types[0]("RED")), repr(vals)])\n'
             'Other%d = ns.E\nAlias%d = Named\nemit([repr(Other%d("y")), repr(Alias%d("n2")), repr(ns)])\n' % ((t,) * 7)},
            {"op": "eval", "gc": 0, "src": ANON_LOAD + 'MineR%d = types[1]\nemit([repr(MineR%d), MineR%d.type])\nMyT%d = ns.T\n'
             'def f(x: MyT%d):\n    return x\nemit(f(1))\nemit(repr(MineR%d(a=1)))\n' % ((t,) * 6)},
            {"op": "eval", "gc": 0, "src": ANON_LOAD + 'Mine%d = types[0]\nemit(Mine%d.type)\ndef g(x: Mine%d):\n    return x\n'
             'emit(repr(g(Mine%d("RED"))))\nemit(g(1))\n' % ((t,) * 4)}]


ANON_READER = [
    {"op": "eval", "gc": 0, "src": ANON_LOAD + 'emit([repr(types[0]("RED")), str(types[0]), types[0].type, type(types[0]("RED")), repr(vals)])\n'
     'emit([repr(ns.E("x")), ns.E.type, repr(ns), dir(types[0]), json.encode(vals[0])])\nemit([repr(types[1]), types[1].type, repr(Named("n1"))])\n'},
    {"op": "eval", "gc": 0, "src": ANON_LOAD + 'emit(repr(vals))\nemit(isinstance(vals[0], types[0]))\n'},
    {"op": "eval", "gc": 0, "src": ANON_LOAD + 'emit(str(types[0]("GREEN")))\nemit(types[0]("no-such-element"))\n'},
    {"op": "eval", "gc": 0, "src": ANON_LOAD + 'emit(repr(types[1]))\nemit(eval_type(types[0]))\n'},
]


def rounds():
    out = []
    # 1. handles into the shared library taken on every thread and dropped on another thread
    ops = [{"op": "eval", "src": USE, "gc": 0}, {"op": "handle", "mod": "lib0.star", "sym": "f", "send": True},
           {"op": "handle", "mod": "lib0.star", "sym": "g5", "send": True}, {"op": "eval", "src": USE, "gc": 1},
           {"op": "handle", "mod": "lib0.star", "sym": "data", "send": True}]
    out.append({"id": "corpus:handles-dropped-elsewhere", "seed": 11, "libs": [{"name": "lib0.star", "src": LIB}],
                "threads": [{"ops": ops} for _ in range(6)], "seq_first": True, "share_globals": True, "stack_mb": 16, "jitter_us": 100})
    # 2. a module that references the library is built on one thread and dropped on another while the others keep using the library
    ops2 = [{"op": "build", "name": "own.star", "src": OWN, "gc": 0}, {"op": "handle", "mod": "own.star", "sym": "h", "send": True},
            {"op": "drop", "name": "own.star", "sym": "h", "send": True}, {"op": "eval", "src": USE, "gc": 3},
            {"op": "build", "name": "own2.star", "src": OWN, "gc": 1}, {"op": "drop", "name": "own2.star", "sym": "big", "send": True},
            {"op": "eval", "src": USE, "gc": 0}]
    out.append({"id": "corpus:own-module-dropped-elsewhere", "seed": 12, "libs": [{"name": "lib0.star", "src": LIB}],
                "threads": [{"ops": ops2} for _ in range(8)], "seq_first": False, "share_globals": False, "stack_mb": 16, "jitter_us": 400})
    # 3. two threads only (the smallest sharing round)
    out.append({"id": "corpus:two-threads", "seed": 13, "libs": [{"name": "lib0.star", "src": LIB}],
                "threads": [{"ops": ops2[:4]} for _ in range(2)], "seq_first": True, "share_globals": True, "stack_mb": 16, "jitter_us": 20})
    # 4. per-thread state of the library on shared frozen values: 8 threads inside 90-deep comparisons / repr / json / recursion at
    #    the same time (each alone stays below the limits: 200 comparison levels, 50 call frames); sequential before and after
    out.append({"id": "corpus:deep-values-on-8-threads", "seed": 14, "libs": [{"name": "lib0.star", "src": DEEP}],
                "threads": [{"ops": [{"op": "eval", "src": DEEP_USE, "gc": 0} for _ in range(6)]} for _ in range(8)],
                "seq_first": True, "recheck": True, "share_globals": True, "stack_mb": 16, "jitter_us": 1, "family": "state"})
    # 5. churn: tiny frozen heaps built back to back on one thread (all carved out of the chunk of a big first heap), read and dropped
    #    on three other threads; and three producers without a big heap feeding two consumers
    out.append({"id": "corpus:churn-one-producer", "kind": "churn", "seed": 15, "style": "tiny-str", "shapes": ["str"], "producers": 1,
                "consumers": 3, "iters": 100000, "max_ms": 8000, "big_first": 300000, "chan_cap": 2, "hold": 0, "ev_n": 12, "route": "rr",
                "limit_s": 120, "threads": []})
    out.append({"id": "corpus:churn-three-producers", "kind": "churn", "seed": 16, "style": "tiny-mixed",
                "shapes": ["str", "tuple", "list", "big", "nested"], "producers": 3, "consumers": 2, "iters": 100000, "max_ms": 8000,
                "big_first": 0, "chan_cap": 2, "hold": 1, "ev_n": 12, "route": "block", "limit_s": 120, "threads": []})
    # 6. first-binder races: a freshly frozen library with anonymous enum / record types; binders assign them to top-level names of their
    #    own (a different name per thread), readers only observe.  Alone transcripts on fresh copies of the library; 6 concurrent
    #    repetitions on further fresh copies (racing / binders first / readers first).  Smallest: one binder + one reader.
    out.append({"id": "corpus:first-binder-two-threads", "seed": 17, "libs": [{"name": "lib0.star", "src": ANON}], "family": "binder",
                "threads": [{"ops": anon_binder(0), "role": "binder", "group": 0}, {"ops": ANON_READER, "role": "reader", "group": 1}],
                "fresh_libs": True, "repeat": 6, "stagger_us": 2000, "seq_first": True, "recheck": True, "share_globals": True,
                "stack_mb": 16, "jitter_us": 20, "focus": ["types[0]", "ns.E"]})
    out.append({"id": "corpus:first-binder-six-threads", "seed": 18, "libs": [{"name": "lib0.star", "src": ANON}], "family": "binder",
                "threads": [{"ops": anon_binder(t), "role": "binder", "group": 0} if t % 2 == 0 else
                            {"ops": ANON_READER, "role": "reader", "group": 1} for t in range(6)],
                "fresh_libs": True, "repeat": 6, "stagger_us": 300, "seq_first": False, "recheck": True, "share_globals": False,
                "stack_mb": 16, "jitter_us": 1, "focus": ["types[0]", "ns.E"]})
    return out
