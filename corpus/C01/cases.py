# Hand-written boundary programs for C01 (generator AST, see tools/gen/progs.py); run before generated programs.
def call(f, *args):
    return ("call", ("var", f), list(args), [], None, None)


def emit(e):
    return ("expr", call("emit", e))


BIG = 1 << 40
CASES = [
    # F6: slice bounds beyond i32 (Python and the reference clamp)
    ("slice-bound-beyond-i32", [emit(("slice", ("str", "abc"), ("int", BIG), None, None)),
                                emit(("slice", ("list", [("int", 1), ("int", 2)]), None, ("int", BIG), None)),
                                emit(("slice", ("str", "abc"), ("int", -BIG), ("int", BIG), ("int", 1)))]),
    # closures capture variables by reference; defaults are evaluated at def time
    ("closure-late-binding", [("assign", ("tvar", "x"), ("int", 1)),
                              ("def", "f", [("p", "a", ("var", "x"))], [("return", ("tuple", [("var", "a"), ("var", "x")]))]),
                              ("assign", ("tvar", "x"), ("int", 2)),
                              emit(call("f"))]),
    # comprehension variable shadows and does not leak; first iterable evaluated outside
    ("comprehension-scope", [("assign", ("tvar", "x"), ("list", [("int", 1), ("int", 2)])),
                             emit(("lcomp", ("bin", "*", ("var", "x"), ("int", 2)), [("for", ("tvar", "x"), ("var", "x"))])),
                             emit(("var", "x"))]),
    # negative-stride slices with absent bounds
    ("negative-stride", [("assign", ("tvar", "l"), call("list", call("range", ("int", 7)))),
                         emit(("slice", ("var", "l"), None, None, ("int", -2))),
                         emit(("slice", ("var", "l"), ("int", 5), ("int", 1), ("int", -3))),
                         emit(("slice", ("var", "l"), ("int", -100), ("int", 100), ("int", 3)))]),
    # the target of the FIRST `for` clause is resolved in the enclosing scope by scope.rs (resolve_idents_in_compr),
    # whereas the reference (and Python) bind it inside the comprehension: x below is the comprehension's own variable
    ("compr-first-target-index", [("assign", ("tvar", "x"), ("list", [("int", 7)])),
                                  ("assign", ("tvar", "w"), ("list", [("list", [("int", 1)]), ("list", [("int", 2)])])),
                                  ("assign", ("tvar", "r"), ("lcomp", ("int", 0), [("for", ("tindex", ("var", "x"), ("int", 0)), ("list", [("int", 5)])),
                                                                                 ("for", ("tvar", "x"), ("var", "w"))])),
                                  emit(("var", "x"))]),
    # floor division and modulo of negatives; big integers
    ("int-floor", [emit(("tuple", [("bin", "//", ("int", -7), ("int", 2)), ("bin", "%", ("int", -7), ("int", 2)),
                                   ("bin", "%", ("int", 7), ("int", -2)), ("bin", "*", ("int", 1 << 62), ("int", 1 << 62))]))]),
    # augmented assignment on a list mutates in place (aliases see it); on a tuple rebinds
    ("augassign-alias", [("assign", ("tvar", "a"), ("list", [("int", 1)])), ("assign", ("tvar", "b"), ("var", "a")),
                         ("aug", ("tvar", "a"), "+", ("list", [("int", 2)])), emit(("var", "b")),
                         ("assign", ("tvar", "t"), ("tuple", [("int", 1)])), ("assign", ("tvar", "u"), ("var", "t")),
                         ("aug", ("tvar", "t"), "+", ("tuple", [("int", 2)])), emit(("var", "u"))]),
]
