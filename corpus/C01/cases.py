# Hand-written boundary programs for C01 (generator AST, see tools/gen/progs.py); run before generated programs.
def call(f, *args):
    return ("call", ("var", f), list(args), [], None, None)


def emit(e):
    return ("expr", call("emit", e))


def meth(r, m, *args, **kw):
    return ("meth", r, m, list(args), sorted(kw.items()))


def S(x):
    return ("str", x)


def I(x):
    return ("int", x)


NONE = ("none",)
BIG = 1 << 40
CASES = [
    # F6: slice bounds beyond i32 (Python and the reference clamp)
    ("slice-bound-beyond-i32", [emit(("slice", ("str", "abc"), ("int", BIG), None, None)),
                                emit(("slice", ("list", [("int", 1), ("int", 2)]), None, ("int", BIG), None)),
                                emit(("slice", ("str", "abc"), ("int", -BIG), ("int", BIG), ("int", 1)))]),
    # closures capture variables by reference; defaults are evaluated at def time
    ("closure-late-binding", [("assign", ("tvar", "x"), ("int", 1)),
                              ("def", "f", [("p", "a", ("var", "x"))], [("return", ("tuple", [("var", "a"), ("var", "x")]))]),
                              ("assign", ("tvar", "x"), ("int", 2)),
                              emit(call("f"))]),
    # comprehension variable shadows and does not leak; first iterable evaluated outside
    ("comprehension-scope", [("assign", ("tvar", "x"), ("list", [("int", 1), ("int", 2)])),
                             emit(("lcomp", ("bin", "*", ("var", "x"), ("int", 2)), [("for", ("tvar", "x"), ("var", "x"))])),
                             emit(("var", "x"))]),
    # negative-stride slices with absent bounds
    ("negative-stride", [("assign", ("tvar", "l"), call("list", call("range", ("int", 7)))),
                         emit(("slice", ("var", "l"), None, None, ("int", -2))),
                         emit(("slice", ("var", "l"), ("int", 5), ("int", 1), ("int", -3))),
                         emit(("slice", ("var", "l"), ("int", -100), ("int", 100), ("int", 3)))]),
    # the target of the FIRST `for` clause is resolved in the enclosing scope by scope.rs (resolve_idents_in_compr),
    # whereas the reference (and Python) bind it inside the comprehension: x below is the comprehension's own variable
    ("compr-first-target-index", [("assign", ("tvar", "x"), ("list", [("int", 7)])),
                                  ("assign", ("tvar", "w"), ("list", [("list", [("int", 1)]), ("list", [("int", 2)])])),
                                  ("assign", ("tvar", "r"), ("lcomp", ("int", 0), [("for", ("tindex", ("var", "x"), ("int", 0)), ("list", [("int", 5)])),
                                                                                 ("for", ("tvar", "x"), ("var", "w"))])),
                                  emit(("var", "x"))]),
    # a lambda capturing a COMPREHENSION variable: the real evaluator keeps one cell per frame slot for all evaluations of the
    # comprehension in one activation, so both closures see the last value ([1, 1]); the reference and Python give [0, 1]
    # (found by the slot-machine simulation proof, Scope/SlotSim.v: slots_sim_refuted)
    ("compr-var-cell-shared-across-evaluations", [
        ("def", "f", [], [("assign", ("tvar", "fs"), ("list", [])),
                          ("for", ("tvar", "i"), call("range", ("int", 2)),
                           [("expr", ("meth", ("var", "fs"), "append", [("lcomp", ("lambda", [], ("var", "x")), [("for", ("tvar", "x"), ("list", [("var", "i")]))])]))]),
                          emit(("lcomp", ("call", ("index", ("var", "g"), ("int", 0)), [], [], None, None), [("for", ("tvar", "g"), ("var", "fs"))])),
                          ("return", None)]),
        ("expr", call("f"))]),
    # a comprehension variable read before its own clause has bound it in THIS evaluation: the frame slot still holds the value
    # of the previous evaluation (2), whereas the reference (and Python: UnboundLocalError/NameError) fail at that read
    # (Scope/SlotSim.v: slots_sim_unbound_needed)
    ("compr-stale-slot-read", [
        ("def", "f", [], [("for", ("tvar", "i"), call("range", ("int", 2)),
                           [emit(("lcomp", ("var", "b"), [("for", ("tvar", "a"), ("list", [("var", "i")])),
                                                          ("if", ("or", ("bin", "==", ("var", "a"), ("int", 0)), ("var", "b"))),
                                                          ("for", ("tvar", "b"), ("list", [("int", 2)]))]))]),
                          ("return", None)]),
        ("expr", call("f"))]),
    # floor division and modulo of negatives; big integers
    ("int-floor", [emit(("tuple", [("bin", "//", ("int", -7), ("int", 2)), ("bin", "%", ("int", -7), ("int", 2)),
                                   ("bin", "%", ("int", 7), ("int", -2)), ("bin", "*", ("int", 1 << 62), ("int", 1 << 62))]))]),
    # augmented assignment on a list mutates in place (aliases see it); on a tuple rebinds
    ("augassign-alias", [("assign", ("tvar", "a"), ("list", [("int", 1)])), ("assign", ("tvar", "b"), ("var", "a")),
                         ("aug", ("tvar", "a"), "+", ("list", [("int", 2)])), emit(("var", "b")),
                         ("assign", ("tvar", "t"), ("tuple", [("int", 1)])), ("assign", ("tvar", "u"), ("var", "t")),
                         ("aug", ("tvar", "t"), "+", ("tuple", [("int", 2)])), emit(("var", "u"))]),
    # ---- strings (MiniStar stage 2) ----
    # repr of strings: Starlark quoting and escapes (string/repr.rs); the 20-character texts go through the SIMD chunk loop
    ("str-repr-escapes", [emit(call("repr", S('a"b\\c\n\t\r\x01\x7f\''))),
                          emit(call("repr", S("0123456789abcdef\n0123"))), emit(call("repr", S('0123456789abcdefghij"'))),
                          emit(call("repr", S(""))), emit(call("str", ("list", [S("a"), ("tuple", [S("b")]), ("dict", [(S("k"), NONE)])]))),
                          emit(("bin", "%", S("%r|%s"), ("tuple", [S("x\ty"), S("x\ty")]))),
                          emit(meth(S("{!r} {0!s} {a!r}"[:0] + "{!r} {a!r}"), "format", S("q"), a=("list", [S("'")])))], {"nopy": True}),
    # repr/str of values without strings coincide with Python
    ("str-repr-shared", [emit(call("repr", ("list", [I(1), ("tuple", [I(-2)]), ("tuple", []), ("dict", [(I(3), ("list", []))]), NONE, ("bool", True)]))),
                         emit(call("str", ("tuple", [I(1), I(2)]))), emit(call("str", I(-(1 << 70)))), emit(call("str", S("plain")))]),
    # split / rsplit: separators, maxsplit, whitespace runs
    ("str-split", [emit(meth(S("a,b,,c,"), "split", S(","))), emit(meth(S("a,b,,c,"), "split", S(","), I(2))), emit(meth(S("a,b,,c,"), "rsplit", S(","), I(2))),
                   emit(meth(S("a,b"), "split", S(","), I(0))), emit(meth(S("a,b"), "split", S(","), I(-1))), emit(meth(S("aaa"), "split", S("aa"))),
                   emit(meth(S("aaa"), "rsplit", S("aa"))), emit(meth(S("  a  b\tc \n"), "split")), emit(meth(S("  a  b\tc \n"), "split", NONE, I(1))),
                   emit(meth(S("  a  b\tc \n"), "rsplit", NONE, I(1))), emit(meth(S("  a  b "), "split", NONE, I(0))), emit(meth(S("   "), "split")),
                   emit(meth(S(""), "split", S(","))), emit(meth(S("a\nb\r\nc\rd\n"), "splitlines")), emit(meth(S("a\nb\r\nc\rd\n"), "splitlines", ("bool", True))),
                   emit(meth(S("\n\n"), "splitlines")), emit(meth(S("-"), "join", meth(S("a,b,,c"), "split", S(","))))]),
    # find / index / count with windows
    ("str-find", [emit(("list", [meth(S("bonbon"), "find", S("on")), meth(S("bonbon"), "find", S("on"), I(2)), meth(S("bonbon"), "find", S("on"), I(2), I(5)),
                                 meth(S("bonbon"), "rfind", S("on")), meth(S("bonbon"), "rfind", S("on"), NONE, I(4)), meth(S("bonbon"), "find", S(""), I(6)),
                                 meth(S("bonbon"), "find", S(""), I(7)), meth(S("bonbon"), "count", S("")), meth(S("abababa"), "count", S("aba")),
                                 meth(S("bonbon"), "find", S("b"), I(-3)), meth(S("bonbon"), "index", S("nb")), meth(S("bonbon"), "count", S("on"), I(-100), I(100))])),
                  emit(("list", [meth(S("hello"), "startswith", ("tuple", [S("x"), S("he")])), meth(S("hello"), "endswith", S("llo"), I(0), I(-1)),
                                 meth(S("hello"), "startswith", S("ell"), I(1)), meth(S("hello"), "startswith", ("tuple", [])), meth(S("hello"), "endswith", S(""), I(5))])),
                  ("expr", meth(S("bonbon"), "rindex", S("on"), I(2), I(5)))]),
    # case mapping, classes, strip, replace, partition
    ("str-misc", [emit(("list", [meth(S("hello wORLD x1y"), "title"), meth(S("hELLO"), "capitalize"), meth(S("aB1_"), "upper"), meth(S("aB1_"), "lower"),
                                 meth(S(" \t x \n"), "strip"), meth(S("xxhixx"), "lstrip", S("x")), meth(S("xxhixx"), "rstrip", S("x")), meth(S("abc"), "strip", S("")),
                                 meth(S("abc"), "replace", S(""), S("-")), meth(S("abc"), "replace", S(""), S("-"), I(2)), meth(S("banana"), "replace", S("a"), S("o"), I(2)),
                                 meth(S("aaa"), "replace", S("aa"), S("b")), meth(S("abc"), "removeprefix", S("ab")), meth(S("abc"), "removesuffix", S("bc")),
                                 meth(S("abc"), "removesuffix", S(""))])),
                  emit(("list", [meth(S("a=b=c"), "partition", S("=")), meth(S("a=b=c"), "rpartition", S("=")), meth(S("abc"), "partition", S("=")),
                                 meth(S("abc"), "rpartition", S("="))])),
                  emit(("list", [meth(S("12"), "isdigit"), meth(S(""), "isdigit"), meth(S("a1"), "isalnum"), meth(S("a_"), "isalnum"), meth(S(" \t\n"), "isspace"),
                                 meth(S("aB"), "islower"), meth(S("a1"), "islower"), meth(S("1"), "islower"), meth(S("A1"), "isupper"), meth(S("Hello World"), "istitle"),
                                 meth(S("Hello world"), "istitle")])),
                  emit(("list", [call("ord", S("a")), call("chr", I(65)), call("min", S("b"), S("a")), call("max", ("list", [S("b"), S("B")])),
                                 call("sorted", ("list", [S("b"), S(""), S("B"), S("a")])), call("list", meth(S("abc"), "elems")),
                                 call("enumerate", meth(S("ab"), "elems")), call("zip", meth(S("ab"), "elems"), meth(S("xyz"), "elems"))]))]),
    # "%" formatting
    ("str-percent", [emit(("bin", "%", S("%s %d %x %o %X %% %r"), ("tuple", [S("a"), I(-5), I(255), I(-8), I(255), ("list", [I(1)])]))),
                     emit(("bin", "%", S("%s"), I(3))), emit(("bin", "%", S("%s"), ("list", [I(1), I(2)]))), emit(("bin", "%", S("%s"), ("tuple", [("tuple", [I(1), I(2)])]))),
                     emit(("bin", "%", S("x%sy"), ("tuple", [S("a")]))), emit(("bin", "%", S("%d%%"), I(1 << 70))), emit(("bin", "%", S("%x"), I(-(1 << 31)))),
                     emit(("bin", "%", S("100%%"), ("tuple", []))),
                     emit(("bin", "%", S("%x %X %o %d"), ("tuple", [I(-255), I(-255), I(-8), I(-7)]))),
                     emit(("bin", "%", S("%x %X %o"), ("tuple", [I(-(1 << 40)), I(1 << 40), I(-(1 << 31) - 1)]))),
                     ("expr", ("bin", "%", S("x%sy"), ("tuple", [I(1), I(2)])))]),
    # str.format
    ("str-format", [emit(meth(S("a{}b{}c"), "format", I(1), S("x"))), emit(meth(S("({1}, {0}, {1})"), "format", S("zero"), I(1))),
                    emit(meth(S("a{x}b{y}c{}"), "format", I(1), x=I(2), y=NONE)), emit(meth(S("{{}} {{{}}}"), "format", I(1))),
                    emit(meth(S("{!r} {!s} {0}"[:9]), "format", ("list", [I(1)]), I(2))), emit(meth(S("{}"), "format", I(1), I(2))),
                    emit(meth(S("{a}{a}"), "format", a=("tuple", [I(1)]))), emit(meth(S("no fields"), "format")),
                    ("expr", meth(S("{0} {}"), "format", I(1), I(2)))]),
    # candidate findings: an empty separator is an error in the shared meaning (Python: ValueError; Starlark spec: "split: empty separator")
    ("str-split-empty-separator", [emit(meth(S("abc"), "split", S("")))]),
    ("str-rsplit-empty-separator", [emit(meth(S("abc"), "rsplit", S(""), I(1)))]),
    # candidate findings: windows of find/count/startswith with an empty needle (convert_str_indices short-cuts before clamping)
    ("str-find-start-beyond-empty-string", [emit(("list", [meth(S(""), "find", S(""), I(1), I(-1)), meth(S(""), "count", S(""), I(1), I(-1)),
                                                           meth(S(""), "startswith", S(""), I(1), I(-1))]))]),
    ("str-find-negative-window-clamped", [emit(("list", [meth(S("abc"), "find", S(""), I(-5), I(-100)), meth(S("abc"), "count", S(""), I(-5), I(-100)),
                                                         meth(S("abc"), "endswith", S(""), I(-5), I(-100))]))]),
]
