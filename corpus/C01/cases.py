# Hand-written boundary programs for C01 (generator AST, see tools/gen/progs.py); run before generated programs.
def call(f, *args):
    return ("call", ("var", f), list(args), [], None, None)


def emit(e):
    return ("expr", call("emit", e))


def meth(r, m, *args, **kw):
    return ("meth", r, m, list(args), sorted(kw.items()))


def S(x):
    return ("str", x)


def I(x):
    return ("int", x)


NONE = ("none",)
BIG = 1 << 40
CASES = [
    # F6: slice bounds beyond i32 (Python and the reference clamp)
    ("slice-bound-beyond-i32", [emit(("slice", ("str", "abc"), ("int", BIG), None, None)),
                                emit(("slice", ("list", [("int", 1), ("int", 2)]), None, ("int", BIG), None)),
                                emit(("slice", ("str", "abc"), ("int", -BIG), ("int", BIG), ("int", 1)))]),
    # closures capture variables by reference; defaults are evaluated at def time
    ("closure-late-binding", [("assign", ("tvar", "x"), ("int", 1)),
                              ("def", "f", [("p", "a", ("var", "x"))], [("return", ("tuple", [("var", "a"), ("var", "x")]))]),
                              ("assign", ("tvar", "x"), ("int", 2)),
                              emit(call("f"))]),
    # comprehension variable shadows and does not leak; first iterable evaluated outside
    ("comprehension-scope", [("assign", ("tvar", "x"), ("list", [("int", 1), ("int", 2)])),
                             emit(("lcomp", ("bin", "*", ("var", "x"), ("int", 2)), [("for", ("tvar", "x"), ("var", "x"))])),
                             emit(("var", "x"))]),
    # negative-stride slices with absent bounds
    ("negative-stride", [("assign", ("tvar", "l"), call("list", call("range", ("int", 7)))),
                         emit(("slice", ("var", "l"), None, None, ("int", -2))),
                         emit(("slice", ("var", "l"), ("int", 5), ("int", 1), ("int", -3))),
                         emit(("slice", ("var", "l"), ("int", -100), ("int", 100), ("int", 3)))]),
    # the target of the FIRST `for` clause is resolved in the enclosing scope by scope.rs (resolve_idents_in_compr),
    # whereas the reference (and Python) bind it inside the comprehension: x below is the comprehension's own variable
    ("compr-first-target-index", [("assign", ("tvar", "x"), ("list", [("int", 7)])),
                                  ("assign", ("tvar", "w"), ("list", [("list", [("int", 1)]), ("list", [("int", 2)])])),
                                  ("assign", ("tvar", "r"), ("lcomp", ("int", 0), [("for", ("tindex", ("var", "x"), ("int", 0)), ("list", [("int", 5)])),
                                                                                 ("for", ("tvar", "x"), ("var", "w"))])),
                                  emit(("var", "x"))]),
    # a lambda capturing a COMPREHENSION variable: the real evaluator keeps one cell per frame slot for all evaluations of the
    # comprehension in one activation, so both closures see the last value ([1, 1]); the reference and Python give [0, 1]
    # (found by the slot-machine simulation proof, Scope/SlotSim.v: slots_sim_refuted)
    ("compr-var-cell-shared-across-evaluations", [
        ("def", "f", [], [("assign", ("tvar", "fs"), ("list", [])),
                          ("for", ("tvar", "i"), call("range", ("int", 2)),
                           [("expr", ("meth", ("var", "fs"), "append", [("lcomp", ("lambda", [], ("var", "x")), [("for", ("tvar", "x"), ("list", [("var", "i")]))])]))]),
                          emit(("lcomp", ("call", ("index", ("var", "g"), ("int", 0)), [], [], None, None), [("for", ("tvar", "g"), ("var", "fs"))])),
                          ("return", None)]),
        ("expr", call("f"))]),
    # a comprehension variable read before its own clause has bound it in THIS evaluation: the frame slot still holds the value
    # of the previous evaluation (2), whereas the reference (and Python: UnboundLocalError/NameError) fail at that read
    # (Scope/SlotSim.v: slots_sim_unbound_needed)
    ("compr-stale-slot-read", [
        ("def", "f", [], [("for", ("tvar", "i"), call("range", ("int", 2)),
                           [emit(("lcomp", ("var", "b"), [("for", ("tvar", "a"), ("list", [("var", "i")])),
                                                          ("if", ("or", ("bin", "==", ("var", "a"), ("int", 0)), ("var", "b"))),
                                                          ("for", ("tvar", "b"), ("list", [("int", 2)]))]))]),
                          ("return", None)]),
        ("expr", call("f"))]),
    # floor division and modulo of negatives; big integers
    ("int-floor", [emit(("tuple", [("bin", "//", ("int", -7), ("int", 2)), ("bin", "%", ("int", -7), ("int", 2)),
                                   ("bin", "%", ("int", 7), ("int", -2)), ("bin", "*", ("int", 1 << 62), ("int", 1 << 62))]))]),
    # augmented assignment on a list mutates in place (aliases see it); on a tuple rebinds
    ("augassign-alias", [("assign", ("tvar", "a"), ("list", [("int", 1)])), ("assign", ("tvar", "b"), ("var", "a")),
                         ("aug", ("tvar", "a"), "+", ("list", [("int", 2)])), emit(("var", "b")),
                         ("assign", ("tvar", "t"), ("tuple", [("int", 1)])), ("assign", ("tvar", "u"), ("var", "t")),
                         ("aug", ("tvar", "t"), "+", ("tuple", [("int", 2)])), emit(("var", "u"))]),
    # ---- strings (MiniStar stage 2) ----
    # repr of strings: Starlark quoting and escapes (string/repr.rs); the 20-character texts go through the SIMD chunk loop
    ("str-repr-escapes", [emit(call("repr", S('a"b\\c\n\t\r\x01\x7f\''))),
                          emit(call("repr", S("0123456789abcdef\n0123"))), emit(call("repr", S('0123456789abcdefghij"'))),
                          emit(call("repr", S(""))), emit(call("str", ("list", [S("a"), ("tuple", [S("b")]), ("dict", [(S("k"), NONE)])]))),
                          emit(("bin", "%", S("%r|%s"), ("tuple", [S("x\ty"), S("x\ty")]))),
                          emit(meth(S("{!r} {0!s} {a!r}"[:0] + "{!r} {a!r}"), "format", S("q"), a=("list", [S("'")])))], {"nopy": True}),
    # repr/str of values without strings coincide with Python
    ("str-repr-shared", [emit(call("repr", ("list", [I(1), ("tuple", [I(-2)]), ("tuple", []), ("dict", [(I(3), ("list", []))]), NONE, ("bool", True)]))),
                         emit(call("str", ("tuple", [I(1), I(2)]))), emit(call("str", I(-(1 << 70)))), emit(call("str", S("plain")))]),
    # split / rsplit: separators, maxsplit, whitespace runs
    ("str-split", [emit(meth(S("a,b,,c,"), "split", S(","))), emit(meth(S("a,b,,c,"), "split", S(","), I(2))), emit(meth(S("a,b,,c,"), "rsplit", S(","), I(2))),
                   emit(meth(S("a,b"), "split", S(","), I(0))), emit(meth(S("a,b"), "split", S(","), I(-1))), emit(meth(S("aaa"), "split", S("aa"))),
                   emit(meth(S("aaa"), "rsplit", S("aa"))), emit(meth(S("  a  b\tc \n"), "split")), emit(meth(S("  a  b\tc \n"), "split", NONE, I(1))),
                   emit(meth(S("  a  b\tc \n"), "rsplit", NONE, I(1))), emit(meth(S("  a  b "), "split", NONE, I(0))), emit(meth(S("   "), "split")),
                   emit(meth(S(""), "split", S(","))), emit(meth(S("a\nb\r\nc\rd\n"), "splitlines")), emit(meth(S("a\nb\r\nc\rd\n"), "splitlines", ("bool", True))),
                   emit(meth(S("\n\n"), "splitlines")), emit(meth(S("-"), "join", meth(S("a,b,,c"), "split", S(","))))]),
    # find / index / count with windows
    ("str-find", [emit(("list", [meth(S("bonbon"), "find", S("on")), meth(S("bonbon"), "find", S("on"), I(2)), meth(S("bonbon"), "find", S("on"), I(2), I(5)),
                                 meth(S("bonbon"), "rfind", S("on")), meth(S("bonbon"), "rfind", S("on"), NONE, I(4)), meth(S("bonbon"), "find", S(""), I(6)),
                                 meth(S("bonbon"), "find", S(""), I(7)), meth(S("bonbon"), "count", S("")), meth(S("abababa"), "count", S("aba")),
                                 meth(S("bonbon"), "find", S("b"), I(-3)), meth(S("bonbon"), "index", S("nb")), meth(S("bonbon"), "count", S("on"), I(-100), I(100))])),
                  emit(("list", [meth(S("hello"), "startswith", ("tuple", [S("x"), S("he")])), meth(S("hello"), "endswith", S("llo"), I(0), I(-1)),
                                 meth(S("hello"), "startswith", S("ell"), I(1)), meth(S("hello"), "startswith", ("tuple", [])), meth(S("hello"), "endswith", S(""), I(5))])),
                  ("expr", meth(S("bonbon"), "rindex", S("on"), I(2), I(5)))]),
    # case mapping, classes, strip, replace, partition
    ("str-misc", [emit(("list", [meth(S("hello wORLD x1y"), "title"), meth(S("hELLO"), "capitalize"), meth(S("aB1_"), "upper"), meth(S("aB1_"), "lower"),
                                 meth(S(" \t x \n"), "strip"), meth(S("xxhixx"), "lstrip", S("x")), meth(S("xxhixx"), "rstrip", S("x")), meth(S("abc"), "strip", S("")),
                                 meth(S("abc"), "replace", S(""), S("-")), meth(S("abc"), "replace", S(""), S("-"), I(2)), meth(S("banana"), "replace", S("a"), S("o"), I(2)),
                                 meth(S("aaa"), "replace", S("aa"), S("b")), meth(S("abc"), "removeprefix", S("ab")), meth(S("abc"), "removesuffix", S("bc")),
                                 meth(S("abc"), "removesuffix", S(""))])),
                  emit(("list", [meth(S("a=b=c"), "partition", S("=")), meth(S("a=b=c"), "rpartition", S("=")), meth(S("abc"), "partition", S("=")),
                                 meth(S("abc"), "rpartition", S("="))])),
                  emit(("list", [meth(S("12"), "isdigit"), meth(S(""), "isdigit"), meth(S("a1"), "isalnum"), meth(S("a_"), "isalnum"), meth(S(" \t\n"), "isspace"),
                                 meth(S("aB"), "islower"), meth(S("a1"), "islower"), meth(S("1"), "islower"), meth(S("A1"), "isupper"), meth(S("Hello World"), "istitle"),
                                 meth(S("Hello world"), "istitle")])),
                  emit(("list", [call("ord", S("a")), call("chr", I(65)), call("min", S("b"), S("a")), call("max", ("list", [S("b"), S("B")])),
                                 call("sorted", ("list", [S("b"), S(""), S("B"), S("a")])), call("list", meth(S("abc"), "elems")),
                                 call("enumerate", meth(S("ab"), "elems")), call("zip", meth(S("ab"), "elems"), meth(S("xyz"), "elems"))]))]),
    # "%" formatting
    ("str-percent", [emit(("bin", "%", S("%s %d %x %o %X %% %r"), ("tuple", [S("a"), I(-5), I(255), I(-8), I(255), ("list", [I(1)])]))),
                     emit(("bin", "%", S("%s"), I(3))), emit(("bin", "%", S("%s"), ("list", [I(1), I(2)]))), emit(("bin", "%", S("%s"), ("tuple", [("tuple", [I(1), I(2)])]))),
                     emit(("bin", "%", S("x%sy"), ("tuple", [S("a")]))), emit(("bin", "%", S("%d%%"), I(1 << 70))), emit(("bin", "%", S("%x"), I(-(1 << 31)))),
                     emit(("bin", "%", S("100%%"), ("tuple", []))),
                     emit(("bin", "%", S("%x %X %o %d"), ("tuple", [I(-255), I(-255), I(-8), I(-7)]))),
                     emit(("bin", "%", S("%x %X %o"), ("tuple", [I(-(1 << 40)), I(1 << 40), I(-(1 << 31) - 1)]))),
                     ("expr", ("bin", "%", S("x%sy"), ("tuple", [I(1), I(2)])))]),
    # str.format
    ("str-format", [emit(meth(S("a{}b{}c"), "format", I(1), S("x"))), emit(meth(S("({1}, {0}, {1})"), "format", S("zero"), I(1))),
                    emit(meth(S("a{x}b{y}c{}"), "format", I(1), x=I(2), y=NONE)), emit(meth(S("{{}} {{{}}}"), "format", I(1))),
                    emit(meth(S("{!r} {!s} {0}"[:9]), "format", ("list", [I(1)]), I(2))), emit(meth(S("{}"), "format", I(1), I(2))),
                    emit(meth(S("{a}{a}"), "format", a=("tuple", [I(1)]))), emit(meth(S("no fields"), "format")),
                    ("expr", meth(S("{0} {}"), "format", I(1), I(2)))]),
    # candidate findings: an empty separator is an error in the shared meaning (Python: ValueError; Starlark spec: "split: empty separator")
    ("str-split-empty-separator", [emit(meth(S("abc"), "split", S("")))]),
    ("str-rsplit-empty-separator", [emit(meth(S("abc"), "rsplit", S(""), I(1)))]),
    # candidate findings: windows of find/count/startswith with an empty needle (convert_str_indices short-cuts before clamping)
    ("str-find-start-beyond-empty-string", [emit(("list", [meth(S(""), "find", S(""), I(1), I(-1)), meth(S(""), "count", S(""), I(1), I(-1)),
                                                           meth(S(""), "startswith", S(""), I(1), I(-1))]))]),
    ("str-find-negative-window-clamped", [emit(("list", [meth(S("abc"), "find", S(""), I(-5), I(-100)), meth(S("abc"), "count", S(""), I(-5), I(-100)),
                                                         meth(S("abc"), "endswith", S(""), I(-5), I(-100))]))]),
]

# ---- string methods whose arguments are derived from the receiver (a prefix / suffix / the whole receiver / longer than it /
# a repeated first character / all occurrences in one run at the start or the end / overlapping occurrences / empty strings) ----
def V(x):
    return ("var", x)


def idx(a, i):
    return ("index", a, i)


def L(*xs):
    return ("list", list(xs))


def T(*xs):
    return ("tuple", list(xs))


def ti(a, i):
    return ("tindex", a, i)


def fdef(name, params, *body):
    return ("def", name, [("p", x, None) for x in params], list(body))


# def t(k, v): emit(k); return v      - makes the moment an operand is evaluated visible in the transcript
TRACER = fdef("t", ["k", "v"], emit(V("k")), ("return", V("v")))
# def put(c, k, v, r): emit("put"); c[k] = v; return r
PUT = fdef("put", ["c", "k", "v", "r"], emit(S("put")), ("assign", ti(V("c"), V("k")), V("v")), ("return", V("r")))

CASES += [
    ("str-replace-receiver-derived", [
        emit(L(meth(S("abc"), "replace", S("a"), S("")), meth(S("aaa"), "replace", S("a"), S("")), meth(S("aab"), "replace", S("a"), S("")),
               meth(S("--flag"), "replace", S("--"), S("")), meth(S("banana"), "replace", S("a"), S("")), meth(S("aaa"), "replace", S("aa"), S("")),
               meth(S("abab"), "replace", S("ab"), S("")), meth(S("abab"), "replace", S("ab"), S(""), I(1)), meth(S("abc"), "replace", S("abc"), S("")),
               meth(S("abc"), "replace", S("abcd"), S("")), meth(S("abc"), "replace", S("c"), S("")), meth(S("cbc"), "replace", S("c"), S("")),
               meth(S("abc"), "replace", S("b"), S("")), meth(S("abc"), "replace", S(""), S("")), meth(S(""), "replace", S(""), S("")),
               meth(S(""), "replace", S("a"), S("")), meth(S("aaa"), "replace", S("a"), S(""), I(2)), meth(S("aaa"), "replace", S("a"), S(""), I(0)),
               meth(S("aaa"), "replace", S("a"), S("a")), meth(S("aab"), "replace", S("a"), S("aa")), meth(S("abc"), "replace", S("abc"), S("abc")))),
        ("assign", ("tvar", "s"), S("  x  ")),
        emit(L(meth(V("s"), "replace", ("slice", V("s"), None, I(1), None), S("")), meth(V("s"), "replace", ("slice", V("s"), None, I(2), None), S("")),
               meth(V("s"), "replace", V("s"), S("")), meth(V("s"), "replace", ("slice", V("s"), I(-2), None, None), S(""), I(1)),
               ("bin", "==", meth(V("s"), "replace", ("slice", V("s"), None, I(1), None), S("")), V("s")), V("s")))]),
    ("str-affix-receiver-derived", [
        emit(L(meth(S("abc"), "removeprefix", S("abc")), meth(S("abc"), "removeprefix", S("abcd")), meth(S("abab"), "removeprefix", S("ab")),
               meth(S("abc"), "removeprefix", S("")), meth(S("abc"), "removesuffix", S("abc")), meth(S("abab"), "removesuffix", S("ab")),
               meth(S("abc"), "removesuffix", S("xabc")), meth(S("aaa"), "lstrip", S("a")), meth(S("aab"), "lstrip", S("a")), meth(S("aab"), "strip", S("ab")),
               meth(S("abca"), "strip", S("a")), meth(S("abc"), "rstrip", S("cb")), meth(S("abc"), "strip", S("abc")), meth(S("abc"), "lstrip", S("bc")),
               meth(S("  "), "strip", S(" ")), meth(S("--a--"), "rstrip", S("--")))),
        emit(L(meth(S("abc"), "startswith", S("abc")), meth(S("abc"), "startswith", S("abcd")), meth(S("abc"), "endswith", S("abc")),
               meth(S("abc"), "endswith", S("xabc")), meth(S("abc"), "startswith", S("")), meth(S("aaa"), "startswith", S("aa"), I(2)),
               meth(S("aaa"), "endswith", S("aa"), I(0), I(1)), meth(S("abc"), "startswith", T(S("bc"), S("ab"))), meth(S("abc"), "endswith", T(S("abcd"), S(""))),
               ("bin", "in", S("abc"), S("abc")), ("bin", "in", S("abcd"), S("abc")), ("bin", "in", S(""), S(""))))]),
    ("str-search-receiver-derived", [
        emit(L(meth(S("aaa"), "count", S("aa")), meth(S("aaaa"), "count", S("aa")), meth(S("aaa"), "count", S("a"), I(1)), meth(S("abc"), "count", S("abc")),
               meth(S("abc"), "count", S("abcd")), meth(S("aaa"), "find", S("a"), I(1)), meth(S("aaa"), "rfind", S("aa")), meth(S("abc"), "find", S("abc")),
               meth(S("abc"), "find", S("abcd")), meth(S("abc"), "rfind", S("c")), meth(S("abc"), "find", S("")), meth(S("abc"), "rfind", S("")),
               meth(S("abab"), "index", S("ab")), meth(S("abab"), "rindex", S("ab")), meth(S("abab"), "find", S("ab"), I(1)))),
        emit(L(meth(S("aaaa"), "split", S("aa")), meth(S("abab"), "split", S("ab")), meth(S("abc"), "split", S("abc")), meth(S("abc"), "split", S("a")),
               meth(S("abc"), "split", S("c")), meth(S("abc"), "split", S("abcd")), meth(S("aaa"), "rsplit", S("a"), I(1)), meth(S("aaa"), "split", S("a"), I(1)),
               meth(S("aaa"), "rsplit", S("aa")), meth(S("a"), "join", meth(S("banana"), "split", S("a"))), meth(S(""), "join", meth(S("aab"), "split", S("a"))))),
        emit(L(meth(S("abc"), "partition", S("abc")), meth(S("abc"), "partition", S("a")), meth(S("abc"), "rpartition", S("c")), meth(S("aaa"), "partition", S("aa")),
               meth(S("aaa"), "rpartition", S("aa")), meth(S("abc"), "partition", S("abcd")), meth(S("abc"), "rpartition", S("abcd"))))]),
    # ---- evaluation order (Python's): `a[i] op= rhs` evaluates a, i, READS a[i], evaluates rhs, combines, stores ----
    # the right-hand side overwrites the element that the statement has already read
    ("augassign-index-rhs-overwrites-element", [
        ("assign", ("tvar", "d"), ("dict", [(S("a"), I(1)), (S("b"), I(2))])),
        ("assign", ("tvar", "l"), L(I(10), I(20), I(30))),
        fdef("bump", [], emit(S("bump")), ("assign", ti(V("d"), S("a")), I(100)), ("assign", ti(V("l"), I(-1)), I(7)), ("return", I(1))),
        ("aug", ti(V("d"), S("a")), "+", call("bump")), emit(V("d")),
        ("aug", ti(V("l"), I(2)), "*", call("bump")), emit(V("l")),
        ("aug", ti(V("l"), I(-1)), "-", ("bin", "+", idx(V("l"), I(-1)), call("bump"))), emit(V("l")),
        PUT,
        ("aug", ti(V("d"), S("b")), "+", call("put", V("d"), S("b"), I(50), I(3))), emit(V("d")),
        # the rhs removes the key: the store re-inserts it at the end; the rhs appends: a negative index is resolved again at the store
        fdef("drop", ["k", "r"], ("expr", meth(V("d"), "pop", V("k"))), ("return", V("r"))),
        ("aug", ti(V("d"), S("a")), "+", call("drop", S("a"), I(5))), emit(V("d")),
        fdef("grow", ["r"], ("expr", meth(V("l"), "append", I(0))), ("return", V("r"))),
        ("aug", ti(V("l"), I(-1)), "+", call("grow", I(1))), emit(V("l")),
        # a list bound to a name is extended in place AFTER the right-hand side has run
        ("aug", ("tvar", "l"), "+", call("put", V("l"), I(0), I(-1), L(idx(V("l"), I(0))))), emit(V("l"))]),
    # the read of a[i] fails: the right-hand side must not have been evaluated (its output must not appear)
    ("augassign-index-missing-key-before-rhs", [
        TRACER, ("assign", ("tvar", "d"), ("dict", [(S("a"), I(1))])),
        ("aug", ti(call("t", I(1), V("d")), call("t", I(2), S("a"))), "+", call("t", I(3), I(1))), emit(V("d")),
        ("aug", ti(call("t", I(4), V("d")), call("t", I(5), S("zz"))), "+", call("t", I(6), I(1))), emit(V("d"))]),
    ("augassign-index-out-of-range-before-rhs", [
        TRACER, PUT, ("assign", ("tvar", "l"), L(I(1), I(2))),
        ("aug", ti(V("l"), call("t", I(1), I(-2))), "-", call("t", I(2), I(1))), emit(V("l")),
        ("aug", ti(V("l"), I(2)), "+", call("put", V("l"), I(0), I(9), I(1))), emit(V("l"))]),
    # plain assignment: right-hand side first, then the container, then the index; a failing store comes after all of them
    ("assign-index-order", [
        TRACER, ("assign", ("tvar", "l"), L(I(1), I(2), I(3))),
        ("assign", ti(call("t", I(1), V("l")), call("t", I(2), I(0))), call("t", I(3), I(5))), emit(V("l")),
        ("assign", ("ttuple", [ti(call("t", I(4), V("l")), I(1)), ti(V("l"), call("t", I(5), I(2)))]), call("t", I(6), T(I(8), I(9)))), emit(V("l")),
        ("assign", ti(call("t", I(7), V("l")), call("t", I(8), I(3))), call("t", I(9), I(0))), emit(V("l"))]),
    # operands left to right: displays, operators, subscripts, slices, calls (positional then named), methods, conditionals
    ("operand-order", [
        TRACER, PUT, ("assign", ("tvar", "l"), L(I(1), I(2), I(3))),
        emit(T(idx(V("l"), I(0)), call("put", V("l"), I(0), I(9), I(0)), idx(V("l"), I(0)))),
        emit(L(("bin", "-", ("bin", "+", idx(V("l"), I(1)), call("put", V("l"), I(1), I(40), I(1))), idx(V("l"), I(1))))),
        emit(("dict", [(call("t", I(1), S("a")), call("t", I(2), I(1))), (call("t", I(3), S("b")), call("t", I(4), I(2)))])),
        emit(("slice", call("t", I(5), V("l")), call("t", I(6), I(0)), call("t", I(7), I(2)), call("t", I(8), I(1)))),
        emit(("call", V("t"), [call("t", I(9), I(10))], [("v", call("t", I(11), I(12)))], None, None)),
        emit(meth(call("t", I(13), S("a,b")), "split", call("t", I(14), S(",")), call("t", I(15), I(1)))),
        emit(("ifx", call("t", I(16), ("bool", False)), call("t", I(17), I(1)), call("t", I(18), I(2)))),
        emit(("bin", "<", call("t", I(19), I(1)), ("bin", "//", call("t", I(20), I(7)), call("t", I(21), I(0)))))]),
]


# range(): length, elements and membership on a grid of bounds and steps (steps that divide the distance
# exactly, that do not, that exceed it; both directions; empty ranges) - the arithmetic of range_type.rs
def _range_grid():
    out = []
    for s in (1, 2, 3, 5, -1, -2, -3, -5):
        stmts = []
        for a in (-3, 0, 2):
            for b in (-4, 0, 1, 4, 6, 8):
                r = call("range", I(a), I(b), I(s))
                # (range == range is left out: the reference semantics compares ranges structurally - a limitation of the
                #  model, not of the code; equals_range is covered by the theorem C01_source_range_equals instead)
                stmts.append(emit(("tuple", [call("len", r), call("list", r), ("bin", "in", I(a + s), r), ("bin", "in", I(b), r)])))
        out.append(("range-grid-step%d" % s, stmts))
    return out


CASES += _range_grid()
