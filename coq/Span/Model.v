(* C05, tree level.  NO proofs in this file.
   (1) Span construction of a bottom-up recursive-descent parser (parser_rd.rs): a node's span is
       (start of the first token it consumed, `last_end` = end of the last token it consumed)
       -- `let l = self.pos(); ...; node.ast(l, self.last_end)`.
   (2) The dialect checks of validate.rs (`validate_module`: `f` over statements with the flags top_level /
       inside_for / inside_def, `expr` over every expression) together with the two dialect gates of the parser
       (grammar_util.rs: `dialect_check_type`, `fstring_from_parts`), and the dialect presets extracted from dialect.rs. *)
From Coq Require Import NArith ZArith List Bool.
From SV Require Import Extracted.LexC.
Import ListNotations.
Open Scope N_scope.

(* ---------- (1) parse traces ---------- *)

(* what a node consumed, in order: tokens it consumed itself (keywords, punctuation, its own leaf token)
   and sub-nodes *)
Inductive ptree :=
| PTok (l r : N)
| PNode (items : list ptree).

Fixpoint flat (t : ptree) : list (N * N) :=
  match t with
  | PTok l r => [(l, r)]
  | PNode items => flat_map flat items
  end.

(* the span the parser gives to a node *)
Definition sp (t : ptree) : N * N :=
  match flat t with
  | [] => (0, 0)
  | (l, _) :: _ => (l, snd (last (flat t) (0, 0)))
  end.

(* token spans are monotone: l <= r and the next token starts at or after r (C05_lex_spans_ok) *)
Fixpoint mono (ts : list (N * N)) : Prop :=
  match ts with
  | [] => True
  | (l, r) :: t => l <= r /\ match t with [] => True | (l2, _) :: _ => r <= l2 end /\ mono t
  end.

(* n occurs in t (at any depth) *)
Inductive sub : ptree -> ptree -> Prop :=
| sub_refl : forall t, sub t t
| sub_step : forall n k items, In k items -> sub n k -> sub n (PNode items).

(* ---------- (2) dialects ---------- *)

Record dialect := {
  d_def : bool; d_lambda : bool; d_load : bool; d_kwonly : bool; d_posonly : bool;
  d_types : N;    (* 0 Disable, 1 ParseOnly, 2 Enable *)
  d_reexport : bool; d_toplevel : bool; d_fstrings : bool }.

Definition nb (l : list Z) (k : nat) : bool := Z.eqb (nth k l 0%Z) 1.
(* flags in the struct order of dialect.rs, as emitted by tools/extract_items/lexer.py *)
Definition dialect_of (l : list Z) : dialect :=
  {| d_def := nb l 0; d_lambda := nb l 1; d_load := nb l 2; d_kwonly := nb l 3; d_posonly := nb l 4;
     d_types := Z.to_N (nth 5 l 0%Z); d_reexport := nb l 6; d_toplevel := nb l 7; d_fstrings := nb l 8 |}.

Definition Standard := dialect_of dialect_Standard.
Definition Extended := dialect_of dialect_Extended.
Definition AllOptionsInternal := dialect_of dialect_AllOptionsInternal.

(* d1 is included in d2: every switch that is on in d1 is on in d2; Disable <= ParseOnly <= Enable *)
Definition dle (a b : dialect) : Prop :=
  (d_def a = true -> d_def b = true) /\ (d_lambda a = true -> d_lambda b = true) /\
  (d_load a = true -> d_load b = true) /\ (d_kwonly a = true -> d_kwonly b = true) /\
  (d_posonly a = true -> d_posonly b = true) /\ d_types a <= d_types b /\
  (d_reexport a = true -> d_reexport b = true) /\ (d_toplevel a = true -> d_toplevel b = true) /\
  (d_fstrings a = true -> d_fstrings b = true).

(* what the checks look at inside expressions *)
Inductive efeat :=
| FEllipsis                            (* Expr::Literal(Ellipsis): needs types != Disable *)
| FLambda (noargs slash : bool)        (* Expr::Lambda: enable_lambda, then validate_params *)
| FType                                (* a type annotation: dialect_check_type (parser) *)
| FFString                             (* fstring_from_parts (parser): enable_f_strings *)
| FBad.                                (* dialect-independent error (DefParams::unpack, CallArgsUnpack::unpack ...) *)

Inductive stmt :=
| SDef (noargs slash : bool) (body : stmt)
| SFor (body : stmt)
| SIf (a b : stmt)                      (* If / IfElse: visit_stmt over the branches *)
| SBreak | SContinue | SReturn | SLoad
| SSeq (a b : stmt)                     (* Statements *)
| SSimple.                              (* pass / expression / assignment *)

(* validate_params *)
Definition ok_params (d : dialect) (noargs slash : bool) : bool :=
  (d_kwonly d || negb noargs) && (d_posonly d || negb slash).

(* validate_module: fn f(stmt, top_level, inside_for, inside_def) *)
Fixpoint ok_stmt (d : dialect) (top infor indef : bool) (s : stmt) : bool :=
  match s with
  | SDef noargs slash body => d_def d && ok_params d noargs slash && ok_stmt d false false true body
  | SFor body => if top && negb (d_toplevel d) then false else ok_stmt d false true indef body
  | SIf a b => if top && negb (d_toplevel d) then false else ok_stmt d false infor indef a && ok_stmt d false infor indef b
  | SBreak | SContinue => infor
  | SReturn => indef
  | SLoad => top && d_load d
  | SSeq a b => ok_stmt d top infor indef a && ok_stmt d top infor indef b
  | SSimple => true
  end.

(* validate_module: fn expr, and the parser gates *)
Definition ok_feat (d : dialect) (f : efeat) : bool :=
  match f with
  | FEllipsis => negb (d_types d =? 0)
  | FLambda noargs slash => d_lambda d && ok_params d noargs slash
  | FType => negb (d_types d =? 0)
  | FFString => d_fstrings d
  | FBad => false
  end.

(* a module: its statement tree and the features of all its expressions (visit_expr reaches every expression,
   also below a statement that `f` does not descend into) *)
Definition accepts (d : dialect) (m : stmt * list efeat) : bool :=
  ok_stmt d true false false (fst m) && forallb (ok_feat d) (snd m).

(* AstModule::create: the tree is returned as it is, or an error *)
Definition validate (d : dialect) (m : stmt * list efeat) : option (stmt * list efeat) :=
  if accepts d m then Some m else None.
